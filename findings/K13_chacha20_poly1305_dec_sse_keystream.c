/* K13 replay (C13-S10): CHACHA20-POLY1305 decrypt through the SSE manager leaves used ChaCha20 keystream (= plaintext XOR ciphertext)
 * in the dead stack frame of aead_chacha20_poly1305(): the C caller keeps ks[1024] on its stack, only the AVX512 routine scrubs it.
 * build: cc -O1 -I/repo/lib K13_chacha20_poly1305_dec_sse_keystream.c -L/repo/_build/lib -lIPSec_MB ; run with K13_ARCH=sse|avx2|avx512
 * (derived from the demonstration program of seeded/C13b) */
/*
 * SAFE_DATA demo: ChaCha20-Poly1305 (single-shot AEAD job) DECRYPT on the AVX512
 * manager must not leave ChaCha20 keystream (derived key material; keystream XOR
 * ciphertext == plaintext) of the completed job behind in the stack area used
 * by IMB_SUBMIT_JOB().
 *
 * For every message length 1..MAX_LEN:
 *   - encrypt a random plaintext with the job API (gives ciphertext + tag)
 *   - decrypt it with the job API
 *   - right after IMB_SUBMIT_JOB() returns (job completed, nothing in flight)
 *     scan the dead stack area below the current stack pointer for the first
 *     16 bytes (8..16 for a trailing partial block) of every 64-byte keystream
 *     block that was used for this message
 *     (keystream = plaintext XOR ciphertext).
 *
 * Exit code: 0 = no residue for any length, 1 = residue found, 77 = cannot run.
 */
#include <stdio.h>
#include <stdint.h>
#include <stdlib.h>
#include <string.h>

#include <intel-ipsec-mb.h>

#define MAX_LEN     1100
#define STACK_DEPTH (16 * 1024)
#define NEEDLE_LEN  16
#define MIN_NEEDLE_LEN 8 /* shortest used part of a keystream block searched for */

/* all sensitive test data lives in static storage, never on the stack */
static uint8_t key[32];
static uint8_t iv[12];
static uint8_t aad[12];
static uint8_t pt[MAX_LEN + 64];
static uint8_t ct[MAX_LEN + 64];
static uint8_t out[MAX_LEN + 64];
static uint8_t ksx[MAX_LEN + 64]; /* keystream = pt ^ ct */
static uint8_t tag_enc[16], tag_dec[16];

static int residue_block[MAX_LEN + 1];    /* first keystream block found (-1 none) */
static long residue_offset[MAX_LEN + 1];  /* offset below SP where it was found */

static void
fill_job(IMB_JOB *job, const IMB_CIPHER_DIRECTION dir, const uint8_t *src, uint8_t *dst,
         uint8_t *tag, const uint64_t len)
{
        job->cipher_direction = dir;
        job->chain_order = (dir == IMB_DIR_ENCRYPT) ? IMB_ORDER_CIPHER_HASH : IMB_ORDER_HASH_CIPHER;
        job->cipher_mode = IMB_CIPHER_CHACHA20_POLY1305;
        job->hash_alg = IMB_AUTH_CHACHA20_POLY1305;
        job->enc_keys = key;
        job->dec_keys = key;
        job->key_len_in_bytes = 32;
        job->u.CHACHA20_POLY1305.aad = aad;
        job->u.CHACHA20_POLY1305.aad_len_in_bytes = sizeof(aad);
        job->src = src;
        job->dst = dst;
        job->iv = iv;
        job->iv_len_in_bytes = 12;
        job->msg_len_to_cipher_in_bytes = len;
        job->cipher_start_src_offset_in_bytes = 0;
        job->msg_len_to_hash_in_bytes = len;
        job->hash_start_src_offset_in_bytes = 0;
        job->auth_tag_output = tag;
        job->auth_tag_output_len_in_bytes = 16;
}

int
main(void)
{
        IMB_MGR *mgr = alloc_mb_mgr(0);
        unsigned len, i;
        int fails = 0;

        if (mgr == NULL) {
                printf("alloc_mb_mgr() failed\n");
                return 77;
        }
        if (getenv("K13_ARCH") && !strcmp(getenv("K13_ARCH"),"sse")) init_mb_mgr_sse(mgr); else if (getenv("K13_ARCH") && !strcmp(getenv("K13_ARCH"),"avx2")) init_mb_mgr_avx2(mgr); else init_mb_mgr_avx512(mgr);
        if (imb_get_errno(mgr) != 0 || mgr->submit_job == NULL) {
                printf("CANNOT RUN: AVX512 manager not available on this CPU (%s)\n",
                       imb_get_strerror(imb_get_errno(mgr)));
                return 77;
        }
        if ((mgr->features & IMB_FEATURE_SAFE_DATA) == 0) {
                printf("CANNOT RUN: library not built with SAFE_DATA\n");
                return 77;
        }

        srand(12345);
        for (i = 0; i < sizeof(key); i++)
                key[i] = (uint8_t) rand();
        for (i = 0; i < sizeof(aad); i++)
                aad[i] = (uint8_t) rand();

        for (len = 1; len <= MAX_LEN; len++) {
                IMB_JOB *job;

                residue_block[len] = -1;

                for (i = 0; i < sizeof(iv); i++)
                        iv[i] = (uint8_t) rand();
                for (i = 0; i < len; i++)
                        pt[i] = (uint8_t) rand();

                /* encrypt to get the ciphertext */
                job = IMB_GET_NEXT_JOB(mgr);
                fill_job(job, IMB_DIR_ENCRYPT, pt, ct, tag_enc, len);
                job = IMB_SUBMIT_JOB(mgr);
                if (job == NULL || job->status != IMB_STATUS_COMPLETED) {
                        printf("len %u: encrypt job did not complete\n", len);
                        return 77;
                }
                for (i = 0; i < len; i++)
                        ksx[i] = pt[i] ^ ct[i];

                /* decrypt: this is the operation under test */
                memset(out, 0, sizeof(out));
                job = IMB_GET_NEXT_JOB(mgr);
                fill_job(job, IMB_DIR_DECRYPT, ct, out, tag_dec, len);
                job = IMB_SUBMIT_JOB(mgr);

                /*
                 * No function calls from here until the scan is done, so that the
                 * dead stack area below SP is exactly as the library left it.
                 */
                {
                        volatile const uint8_t *sp;
                        long off;
                        unsigned blk;

                        __asm__ volatile("mov %%rsp, %0" : "=r"(sp));

                        for (blk = 0; (blk * 64 + MIN_NEEDLE_LEN) <= len && residue_block[len] < 0;
                             blk++) {
                                const uint8_t *needle = &ksx[blk * 64];
                                const unsigned nlen = ((len - blk * 64) < NEEDLE_LEN)
                                                              ? (len - blk * 64)
                                                              : NEEDLE_LEN;

                                for (off = STACK_DEPTH; off >= (long) nlen; off--) {
                                        volatile const uint8_t *p = sp - off;
                                        unsigned k;

                                        if (p[0] != needle[0])
                                                continue;
                                        for (k = 1; k < nlen; k++)
                                                if (p[k] != needle[k])
                                                        break;
                                        if (k == nlen) {
                                                residue_block[len] = (int) blk;
                                                residue_offset[len] = off;
                                                break;
                                        }
                                }
                        }
                }

                if (job == NULL || job->status != IMB_STATUS_COMPLETED) {
                        printf("len %u: decrypt job did not complete\n", len);
                        return 77;
                }
                if (memcmp(out, pt, len) != 0 || memcmp(tag_enc, tag_dec, 16) != 0) {
                        printf("len %u: functional mismatch (plaintext/tag)\n", len);
                        return 77;
                }
                if (residue_block[len] >= 0)
                        fails++;
        }

        if (fails == 0) {
                printf("PASS: no ChaCha20 keystream residue on the stack after "
                       "CHACHA20-POLY1305 decrypt jobs (AVX512), lengths 1..%u\n",
                       MAX_LEN);
                free_mb_mgr(mgr);
                return 0;
        }

        printf("FAIL: keystream of a completed CHACHA20-POLY1305 decrypt job (AVX512 manager)\n"
               "      was left in the stack area used by IMB_SUBMIT_JOB() for %d message "
               "length(s):\n",
               fails);
        for (len = 1; len <= MAX_LEN; len++) {
                unsigned first;

                if (residue_block[len] < 0)
                        continue;
                first = len;
                while (len + 1 <= MAX_LEN && residue_block[len + 1] >= 0)
                        len++;
                printf("      lengths %u..%u  (e.g. len %u: keystream for message bytes "
                       "%d..%d found %ld bytes below SP)\n",
                       first, len, first, residue_block[first] * 64,
                       residue_block[first] * 64 + 63, residue_offset[first]);
        }
        printf("      keystream XOR ciphertext == plaintext, i.e. SAFE_DATA property violated\n");
        free_mb_mgr(mgr);
        return 1;
}
