/* K17 replay: IMB_SNOW3G_F8_1_BUFFER_BIT with a bit offset that is not a multiple of 8 and offset + length a multiple of 8 ORs the
 * previous content of the last destination byte into the output (msg_save_start_end() saves the whole byte with mask mtab_shr[0] = 0xff
 * when the message ends on a byte boundary, msg_restore_start_end() ORs it back).  The output of an out-of-place call then depends on what
 * the destination held before the call, and in-place != out-of-place.
 * build: cc -I/repo/lib K17_snow3g_f8_bit_stale_last_byte.c -L/repo/_build/lib -lIPSec_MB ; run with LD_LIBRARY_PATH=/repo/_build/lib
 * exit 1 = defect present */
#include <stdio.h>
#include <string.h>
#include <stdlib.h>
#include <intel-ipsec-mb.h>

int main(void)
{
        IMB_MGR *m = alloc_mb_mgr(0);
        int bad = 0;

        init_mb_mgr_sse(m);
        uint8_t key[16], iv[16], src[64], a[64], b[64];
        for (int i = 0; i < 16; i++) { key[i] = (uint8_t) (i * 7 + 1); iv[i] = (uint8_t) (i * 13 + 5); }
        for (int i = 0; i < 64; i++) src[i] = (uint8_t) (i * 31 + 3);
        void *ks = malloc(IMB_SNOW3G_KEY_SCHED_SIZE(m));
        IMB_SNOW3G_INIT_KEY_SCHED(m, key, ks);

        for (unsigned off = 1; off < 8; off++)
                for (unsigned len = 1; len <= 40; len++) {
                        const unsigned last = (off + len - 1) / 8;          /* index of the last byte holding message bits */
                        const unsigned bend = (off + len) & 7;
                        memset(a, 0x00, sizeof(a));
                        memset(b, 0xff, sizeof(b));
                        IMB_SNOW3G_F8_1_BUFFER_BIT(m, ks, iv, src, a, len, off);
                        IMB_SNOW3G_F8_1_BUFFER_BIT(m, ks, iv, src, b, len, off);
                        /* the message bits inside the last byte: bits [7 .. 8-bend) when bend != 0, the whole byte when bend == 0 */
                        const uint8_t msk = bend ? (uint8_t) (0xff << (8 - bend)) : 0xff;
                        const uint8_t first_msk = (last == 0) ? (uint8_t) (0xff >> off) : 0xff;
                        if ((a[last] ^ b[last]) & msk & first_msk) {
                                if (bad < 5)
                                        printf("offset %u bits, length %u bits: last message byte is %02x with a zeroed destination and %02x with "
                                               "a 0xff-filled one\n", off, len, a[last], b[last]);
                                bad++;
                        }
                }
        printf("%d (offset, length) pairs whose ciphertext bits depend on the previous destination content\n", bad);
        free(ks);
        free_mb_mgr(m);
        return bad ? 1 : 0;
}
