/* K15 replay (C02 / C07-W*): plain SM3 (IMB_AUTH_SM3) with a truncated tag of 17..31 bytes: sm3_msg_sse stores the first 16 digest bytes,
 * then copies xmm0 INTO xmm1 (`movdqa xmm1, xmm0`, operands reversed) and stores the remainder from xmm0 again, so bytes 16.. of the tag
 * repeat bytes 0.. instead of continuing the digest.
 * build: cc -O1 -I/repo/lib K15_sm3_truncated_tag_17_31.c -L/repo/_build/lib -lIPSec_MB
 * exit 0 = every tag length 1..32 gives the leading bytes of the 32-byte digest, 1 = mismatch */
#include <stdio.h>
#include <string.h>
#include <stdint.h>
#include <intel-ipsec-mb.h>

static uint8_t ipad[32], opad[32];
static int use_hmac;

static int sm3(IMB_MGR *m, const uint8_t *msg, size_t len, uint8_t *tag, size_t tlen)
{
        IMB_JOB *job = IMB_GET_NEXT_JOB(m);

        memset(job, 0, sizeof(*job));
        job->cipher_mode = IMB_CIPHER_NULL;
        job->cipher_direction = IMB_DIR_ENCRYPT;
        job->chain_order = IMB_ORDER_HASH_CIPHER;
        job->hash_alg = use_hmac ? IMB_AUTH_HMAC_SM3 : IMB_AUTH_SM3;
        if (use_hmac) {
                job->u.HMAC._hashed_auth_key_xor_ipad = ipad;
                job->u.HMAC._hashed_auth_key_xor_opad = opad;
        }
        job->src = msg;
        job->msg_len_to_hash_in_bytes = len;
        job->auth_tag_output = tag;
        job->auth_tag_output_len_in_bytes = tlen;
        job = IMB_SUBMIT_JOB(m);
        if (job == NULL)
                job = IMB_FLUSH_JOB(m);
        if (job == NULL || job->status != IMB_STATUS_COMPLETED)
                return -1;
        return 0;
}

int main(void)
{
        IMB_MGR *m = alloc_mb_mgr(0);
        uint8_t msg[100], full[32], tag[40];
        size_t t;
        int bad = 0, rejected = 0;

        init_mb_mgr_auto(m, NULL);
        for (t = 0; t < sizeof(msg); t++)
                msg[t] = (uint8_t) (t * 7 + 3);
        if (sm3(m, msg, sizeof(msg), full, 32) != 0) {
                printf("cannot run SM3 (errno %d)\n", imb_get_errno(m));
                return 77;
        }
        for (t = 1; t <= 32; t++) {
                memset(tag, 0xAA, sizeof(tag));
                if (sm3(m, msg, sizeof(msg), tag, t) != 0) {
                        rejected++;
                        continue;
                }
                if (memcmp(tag, full, t) != 0) {
                        size_t i;

                        for (i = 0; i < t && tag[i] == full[i]; i++)
                                ;
                        printf("FAIL: tag length %2zu: byte %zu is %02x, digest byte %zu is %02x\n", t, i, tag[i], i, full[i]);
                        bad++;
                }
        }
        printf("%s (SM3): %d of 32 tag lengths wrong, %d rejected\n", bad ? "FAIL" : "PASS", bad, rejected);
        /* the same store sequence exists in the HMAC-SM3 routine */
        {
                static const uint8_t key[20] = "0123456789abcdefghi";
                int bad2 = 0, rej2 = 0;

                imb_hmac_ipad_opad(m, IMB_AUTH_HMAC_SM3, key, sizeof(key), ipad, opad);
                use_hmac = 1;
                if (sm3(m, msg, sizeof(msg), full, 32) == 0) {
                        for (t = 1; t <= 32; t++) {
                                memset(tag, 0xAA, sizeof(tag));
                                if (sm3(m, msg, sizeof(msg), tag, t) != 0) {
                                        rej2++;
                                        continue;
                                }
                                if (memcmp(tag, full, t) != 0)
                                        bad2++;
                        }
                        printf("%s (HMAC-SM3): %d of 32 tag lengths wrong, %d rejected\n", bad2 ? "FAIL" : "PASS", bad2, rej2);
                        bad += bad2;
                }
        }
        free_mb_mgr(m);
        return bad != 0;
}
