/* K20 replay: CHACHA20 on the SSE manager reads up to 14 bytes past the end of the source when the message length mod 128 is in
 * 81..94, 97..110 or 113..126: ENCRYPT_1B_64B in lib/sse_t1/chacha20_sse.asm is called with IMM_OFF = 64 after `sub len, 64` and then
 * subtracts (48|32|16 + IMM_OFF) from the length again, which underflows; simd_load_sse_15_1 sees a huge size and loads 15 bytes
 * although 1..14 remain.  Output is unaffected (the store tests the low bits only).  The source is placed flush against a PROT_NONE page.
 * build: cc -I/repo/lib K20_chacha20_sse_overread.c -L/repo/_build/lib -lIPSec_MB ; exit 1 = defect present */
#define _GNU_SOURCE
#include <stdio.h>
#include <string.h>
#include <stdlib.h>
#include <signal.h>
#include <setjmp.h>
#include <sys/mman.h>
#include <unistd.h>
#include <intel-ipsec-mb.h>

static sigjmp_buf jb;
static void *fault_addr;
static void on_segv(int s, siginfo_t *si, void *c) { (void) s; (void) c; fault_addr = si->si_addr; siglongjmp(jb, 1); }

int main(void)
{
        const long pg = sysconf(_SC_PAGESIZE);
        uint8_t *area = mmap(NULL, 3 * pg, PROT_READ | PROT_WRITE, MAP_PRIVATE | MAP_ANONYMOUS, -1, 0);
        mprotect(area + 2 * pg, pg, PROT_NONE);
        uint8_t *end = area + 2 * pg;           /* first inaccessible byte */
        uint8_t key[32], iv[12], dst[1024];
        struct sigaction sa;
        int bad = 0;

        memset(&sa, 0, sizeof(sa)); sa.sa_sigaction = on_segv; sa.sa_flags = SA_SIGINFO | SA_NODEFER;
        sigaction(SIGSEGV, &sa, NULL); sigaction(SIGBUS, &sa, NULL);
        memset(key, 7, sizeof(key)); memset(iv, 3, sizeof(iv));
        memset(area, 0x5a, 2 * pg);
        for (int arch = 0; arch < 2; arch++) {
                int n = 0, first = 0;
                for (unsigned len = 1; len <= 640; len++) {
                        IMB_MGR *m = alloc_mb_mgr(0);
                        if (arch == 0) init_mb_mgr_sse(m); else init_mb_mgr_avx2(m);
                        IMB_JOB *j = IMB_GET_NEXT_JOB(m);
                        memset(j, 0, sizeof(*j));
                        j->cipher_mode = IMB_CIPHER_CHACHA20; j->cipher_direction = IMB_DIR_ENCRYPT; j->chain_order = IMB_ORDER_CIPHER_HASH;
                        j->hash_alg = IMB_AUTH_NULL; j->src = end - len; j->dst = dst; j->enc_keys = key; j->dec_keys = key;
                        j->key_len_in_bytes = 32; j->iv = iv; j->iv_len_in_bytes = 12; j->msg_len_to_cipher_in_bytes = len;
                        if (sigsetjmp(jb, 1) == 0) {
                                j = IMB_SUBMIT_JOB(m);
                                if (j == NULL) j = IMB_FLUSH_JOB(m);
                        } else {
                                if (n == 0) first = (int) len;
                                n++;
                        }
                        free_mb_mgr(m);
                }
                printf("%s CHACHA20, lengths 1..640, source flush against an unmapped page: %d length(s) fault past the end of the source%s\n",
                       arch ? "AVX2" : "SSE", n, n ? "" : "");
                if (n) { printf("   first failing length %d\n", first); bad = 1; }
        }
        return bad;
}
