#include <stdio.h>
#include <string.h>
#include <stdlib.h>
#include <stdint.h>
#include <intel-ipsec-mb.h>
static uint8_t key[16], iv[16], src[256]; static uint32_t mac;
static uint8_t *lo; static uint8_t snap[5][32768];
__attribute__((noinline)) static void poison(void){ volatile uint8_t buf[32768]; for(size_t i=0;i<sizeof(buf);i++) buf[i]=0xAA; lo=(uint8_t*)buf; }
__attribute__((noinline)) static void run(IMB_MGR*m){ IMB_ZUC_EIA3_1_BUFFER(m, key, iv, src, 200*8, &mac); }
int main(int argc,char**argv){ IMB_MGR*m=alloc_mb_mgr(0);
  if (argc>1 && !strcmp(argv[1],"sse")) init_mb_mgr_sse(m); else if (argc>1 && !strcmp(argv[1],"avx2")) init_mb_mgr_avx2(m); else init_mb_mgr_avx512(m);
  for(int r=0;r<5;r++){ for(int i=0;i<16;i++) key[i]=((r&1)?0x55:0x11)*i+7; poison(); run(m); memcpy(snap[r],lo,32768); }
  int dep=0,first=-1,last=-1; for(int i=0;i<32768;i++){ if(snap[2][i]==snap[4][i] && snap[2][i]!=snap[3][i]){ dep++; if(first<0) first=i; last=i; } }
  printf("%s SAFE_DATA=%d: dead-stack bytes identical for equal keys and different for another key: %d (span %d..%d)\n", argc>1?argv[1]:"avx512", !!(m->features&IMB_FEATURE_SAFE_DATA),dep,first,last);
  return dep>8; }
