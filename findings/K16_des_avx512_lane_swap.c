/* K16 candidate replay (C04/C01): DES-CBC on the AVX512 manager (16-lane kernel of des_avx512.inc): N jobs with DIFFERENT keys, IVs and
 * plaintexts submitted together vs each job processed alone on the SSE manager.
 * build: cc -O1 -I/repo/lib K16_des_avx512_lane_swap.c -L/repo/_build/lib -lIPSec_MB ; exit 0 = all equal, 1 = mismatch */
#include <stdio.h>
#include <string.h>
#include <stdint.h>
#include <stdlib.h>
#include <intel-ipsec-mb.h>

#define NJ 16
#define LEN 64

static uint8_t pt[NJ][LEN], ct_ref[NJ][LEN], ct[NJ][LEN], key[NJ][8], iv[NJ][8];
static uint64_t ks[NJ][16];

static const void *ks3[NJ][3];
static int g_dir = IMB_DIR_ENCRYPT, g_len = LEN;
static const uint8_t *g_src[NJ];

static void fill(IMB_JOB *job, int i, uint8_t *dst, int mode, int keyschedules)
{
        memset(job, 0, sizeof(*job));
        job->cipher_mode = mode;
        job->cipher_direction = g_dir;
        job->chain_order = g_dir == IMB_DIR_ENCRYPT ? IMB_ORDER_CIPHER_HASH : IMB_ORDER_HASH_CIPHER;
        job->hash_alg = IMB_AUTH_NULL;
        job->src = g_src[i] ? g_src[i] : pt[i];
        job->dst = dst;
        job->msg_len_to_cipher_in_bytes = g_len;
        job->iv = iv[i];
        job->iv_len_in_bytes = 8;
        if (mode == IMB_CIPHER_DES3) {
                job->enc_keys = ks3[i];
                job->dec_keys = ks3[i];
                job->key_len_in_bytes = 24;
        } else {
                job->enc_keys = ks[i];
                job->dec_keys = ks[i];
                job->key_len_in_bytes = 8;
        }
        job->user_data = (void *) (uintptr_t) i;
        (void) keyschedules;
}

int main(void)
{
        IMB_MGR *a = alloc_mb_mgr(0), *s = alloc_mb_mgr(0);
        int i, bad = 0, swapped = 0;
        IMB_JOB *job;

        init_mb_mgr_avx512(a);
        init_mb_mgr_sse(s);
        if (imb_get_errno(a) != 0) {
                printf("no AVX512 manager\n");
                return 77;
        }
        srand(1);
        for (i = 0; i < NJ; i++) {
                int j;
                for (j = 0; j < LEN; j++) pt[i][j] = (uint8_t) rand();
                for (j = 0; j < 8; j++) { key[i][j] = (uint8_t) rand(); iv[i][j] = (uint8_t) rand(); }
                des_key_schedule(ks[i], key[i]);
        }
        {
                static const int modes[3] = { IMB_CIPHER_DES, IMB_CIPHER_DES3, IMB_CIPHER_DOCSIS_DES };
                static const char *names[3] = { "DES-CBC", "3DES-CBC", "DOCSIS-DES" };
                static uint8_t ct_enc[NJ][LEN];
                int m, d;

                for (i = 0; i < NJ; i++) {
                        ks3[i][0] = ks[i];
                        ks3[i][1] = ks[(i + 1) % NJ];
                        ks3[i][2] = ks[(i + 2) % NJ];
                }
                for (m = 0; m < 3; m++)
                        for (d = 0; d < 2; d++) {
                                int b = 0, sw = 0;

                                g_dir = d ? IMB_DIR_DECRYPT : IMB_DIR_ENCRYPT;
                                g_len = (m == 2) ? 61 : LEN;
                                for (i = 0; i < NJ; i++)
                                        g_src[i] = d ? ct_enc[i] : NULL;
                                for (i = 0; i < NJ; i++) {
                                        job = IMB_GET_NEXT_JOB(s);
                                        fill(job, i, ct_ref[i], modes[m], 1);
                                        job = IMB_SUBMIT_JOB(s);
                                        while (job == NULL) job = IMB_FLUSH_JOB(s);
                                }
                                for (i = 0; i < NJ; i++) {
                                        job = IMB_GET_NEXT_JOB(a);
                                        fill(job, i, ct[i], modes[m], 1);
                                        job = IMB_SUBMIT_JOB(a);
                                }
                                while (IMB_FLUSH_JOB(a) != NULL)
                                        ;
                                for (i = 0; i < NJ; i++)
                                        if (memcmp(ct[i], ct_ref[i], g_len) != 0) {
                                                b++;
                                                if (memcmp(ct[i], ct_ref[i ^ 1], g_len) == 0) sw++;
                                        }
                                printf("%-10s %s: %d of %d jobs differ from the single-job result (%d hold the neighbour lane's output)\n", names[m],
                                       d ? "decrypt" : "encrypt", b, NJ, sw);
                                bad += b;
                                swapped += sw;
                                if (!d)
                                        memcpy(ct_enc, ct_ref, sizeof(ct_enc));
                        }
        }
        printf("%s: %d of %d jobs differ from the single-job result (%d of them hold the neighbour lane's output)\n", bad ? "FAIL" : "PASS", bad, NJ, swapped);
        return bad != 0;
}
