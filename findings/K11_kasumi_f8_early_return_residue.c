#include <stdio.h>
#include <string.h>
#include <stdlib.h>
#include <stdint.h>
#include <intel-ipsec-mb.h>
static uint8_t key[16], src[64], dst[64]; static uint8_t *ks; static int bits;
static uint8_t *lo; static uint8_t snap[5][32768];
__attribute__((noinline)) static void poison(void){ volatile uint8_t buf[32768]; for(size_t i=0;i<sizeof(buf);i++) buf[i]=0xAA; lo=(uint8_t*)buf; }
__attribute__((noinline)) static void run(IMB_MGR*m){ IMB_KASUMI_INIT_F8_KEY_SCHED(m, key, ks); IMB_KASUMI_F8_1_BUFFER_BIT(m, ks, 0x0123456789abcdefULL, src, dst, bits, 0); }
int main(int argc,char**argv){ IMB_MGR*m=alloc_mb_mgr(0); init_mb_mgr_sse(m);
  ks=malloc(IMB_KASUMI_KEY_SCHED_SIZE(m)); bits=argc>1?atoi(argv[1]):40;
  for(int r=0;r<5;r++){ for(int i=0;i<16;i++) key[i]=((r&1)?0x55:0x11)*i+7; poison(); run(m); memcpy(snap[r],lo,32768); }
  int dep=0,first=-1,last=-1; for(int i=0;i<32768;i++){ if(snap[2][i]==snap[4][i] && snap[2][i]!=snap[3][i]){ dep++; if(first<0) first=i; last=i; } }
  printf("F8 1-buffer bit API, %d bits: dead-stack bytes identical for equal keys and different for another key: %d (span %d..%d)\n", bits, dep,first,last);
  return dep>0; }
