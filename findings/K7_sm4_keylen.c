#include <stdio.h>
#include <string.h>
#include <intel-ipsec-mb.h>
int main(void){
  IMB_MGR *m=alloc_mb_mgr(0); init_mb_mgr_auto(m,NULL);
  uint8_t key[16]={1,2,3,4,5,6,7,8,9,10,11,12,13,14,15,16};
  uint32_t ek[32], dk[32];
  IMB_SM4_KEYEXP(m, key, ek, dk);
  uint8_t pt[32], ct[32];
  memset(pt,0xAB,sizeof pt);
  int bad=0;
  for (int kl=16; kl<=32; kl+=8) {
    memset(ct,0,sizeof ct);
    IMB_JOB *j=IMB_GET_NEXT_JOB(m);
    j->cipher_mode=IMB_CIPHER_SM4_ECB; j->hash_alg=IMB_AUTH_NULL; j->cipher_direction=IMB_DIR_ENCRYPT; j->chain_order=IMB_ORDER_CIPHER_HASH;
    j->src=pt; j->dst=ct; j->enc_keys=ek; j->dec_keys=dk; j->key_len_in_bytes=kl; j->msg_len_to_cipher_in_bytes=32; j->cipher_start_src_offset_in_bytes=0;
    j=IMB_SUBMIT_JOB(m); if(!j) j=IMB_FLUSH_JOB(m);
    int zero=1; for(int i=0;i<32;i++) if(ct[i]) zero=0;
    printf("key_len=%d status=%d errno=%d dst %s\n", kl, j?j->status:-1, imb_get_errno(m), zero?"UNTOUCHED (no cipher ran)":"written");
    if (kl!=16 && j && j->status==IMB_STATUS_COMPLETED) bad=1;
  }
  return bad;
}
