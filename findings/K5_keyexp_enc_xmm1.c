#include <stdio.h>
#include <string.h>
#include <stdint.h>
#include <intel-ipsec-mb.h>
int main(){
  DECLARE_ALIGNED(uint8_t key[16],16); DECLARE_ALIGNED(uint8_t ek[16*11],16); DECLARE_ALIGNED(uint8_t dk[16*11],16); DECLARE_ALIGNED(uint8_t x1[16],16);
  for(int i=0;i<16;i++) key[i]=0x3c+7*i;
  aes_keyexp_128_enc_sse(key, ek);
  __asm__ volatile("movdqa %%xmm1, %0" : "=m"(x1));
  printf("aes_keyexp_128_enc_sse: xmm1 after return == round key 10: %s\n", memcmp(x1,ek+160,16)==0?"YES (key material left in register)":"no");
  aes_keyexp_128_sse(key, ek, dk);
  __asm__ volatile("movdqa %%xmm1, %0" : "=m"(x1));
  int z=1; for(int i=0;i<16;i++) if(x1[i]) z=0;
  printf("aes_keyexp_128_sse (sibling): xmm1 zero after return: %s\n", z?"yes":"NO");
  return 0; }
