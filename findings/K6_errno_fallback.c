#include <stdio.h>
#include <intel-ipsec-mb.h>
int main(void){
  IMB_MGR *a=alloc_mb_mgr(0), *b=alloc_mb_mgr(0);
  init_mb_mgr_auto(a,NULL); init_mb_mgr_auto(b,NULL);
  /* A: a successful call */
  (void)IMB_QUEUE_SIZE(a);
  IMB_JOB *ja=IMB_GET_NEXT_JOB(a); (void)ja;
  printf("A after own success: %d\n", imb_get_errno(a));
  /* B: a failing call (submit an all-zero job: invalid) */
  IMB_JOB *jb=IMB_GET_NEXT_JOB(b); jb->cipher_mode=0; jb->hash_alg=0;
  jb=IMB_SUBMIT_JOB(b);
  printf("B after failing submit: %d (%s)\n", imb_get_errno(b), imb_get_strerror(imb_get_errno(b)));
  int ea=imb_get_errno(a);
  printf("A now reports: %d (%s)\n", ea, imb_get_strerror(ea));
  return ea!=0;
}
