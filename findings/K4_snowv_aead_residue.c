#include <stdio.h>
#include <string.h>
#include <stdlib.h>
#include <stdint.h>
#include <intel-ipsec-mb.h>
static uint8_t key[32], iv[16], tag[16], src[16], dst[16];
static uint8_t *lo; static uint8_t snap[3][32768];
__attribute__((noinline)) static void poison(void){ volatile uint8_t buf[32768]; for(size_t i=0;i<sizeof(buf);i++) buf[i]=0xAA; lo=(uint8_t*)buf; }
__attribute__((noinline)) static void run(IMB_MGR*m){
  IMB_JOB*j=IMB_GET_NEXT_JOB(m); memset(j,0,sizeof(*j));
  j->cipher_mode=IMB_CIPHER_SNOW_V_AEAD; j->hash_alg=IMB_AUTH_SNOW_V_AEAD; j->cipher_direction=IMB_DIR_ENCRYPT; j->chain_order=IMB_ORDER_CIPHER_HASH;
  j->enc_keys=key; j->dec_keys=key; j->key_len_in_bytes=32; j->iv=iv; j->iv_len_in_bytes=16; j->src=src; j->dst=dst;
  j->auth_tag_output=tag; j->auth_tag_output_len_in_bytes=16;
  j=IMB_SUBMIT_JOB(m); if(!j) j=IMB_FLUSH_JOB(m); if(!j||j->status!=IMB_STATUS_COMPLETED) exit(1); }
int main(){ IMB_MGR*m=alloc_mb_mgr(0); init_mb_mgr_sse(m);
  for(int r=0;r<3;r++){ for(int i=0;i<32;i++) key[i]=(r==1?0x55:0x11)*i+7; poison(); run(m); memcpy(snap[r],lo,32768); }
  int dep=0,first=-1,last=-1; for(int i=0;i<32768;i++){ if(snap[0][i]==snap[2][i] && snap[0][i]!=snap[1][i]){ dep++; if(first<0) first=i; last=i; } }
  int pub=0; for(int i=0;i<16;i++) ; 
  printf("SAFE_DATA=%d; dead-stack bytes that are identical for equal keys and differ for a different key: %d (span %d..%d)\n",!!(m->features&IMB_FEATURE_SAFE_DATA),dep,first,last);
  /* exclude the 16 public tag bytes */
  int tagoff=-1; for(int i=0;i+16<=32768;i++) if(!memcmp(snap[2]+i,tag,16)){tagoff=i;break;}
  printf("public tag copy at %d; key-dependent residue excluding it: %d bytes\n",tagoff,dep-(tagoff>=0?16:0));
  return 0; }
