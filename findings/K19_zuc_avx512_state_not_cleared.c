/* K19 replay: the AVX512 ZUC-EEA3 / EIA3 managers (lib/avx512_t1/mb_mgr_zuc_submit_flush_avx512.asm, also included by the GFNI variant)
 * clear the ZUC state of a returned lane with a %rep (16 + 6) loop whose store address does not advance
 * (`vmovdqa32 [state + _zuc_state]{k1}, zmm0` without `+ i*64`): only row 0 of the lane is wiped, LFSR words 1..15 and the FSM registers
 * R1/R2 of the finished job stay in the manager although the library is built with SAFE_DATA.
 * build: cc -I/repo/lib -I/repo/lib/include K19_zuc_avx512_state_not_cleared.c -L/repo/_build/lib -lIPSec_MB
 * exit 1 = defect present */
#include <stdio.h>
#include <string.h>
#include <stdlib.h>
#include <intel-ipsec-mb.h>
#include "ipsec_ooo_mgr.h"

static int run(IMB_MGR *m, const char *name)
{
        uint8_t key[16], iv[16], src[64], dst[64];
        int left = 0;

        for (int i = 0; i < 16; i++) { key[i] = (uint8_t) (0xa1 + 7 * i); iv[i] = (uint8_t) (0x3c + 11 * i); }
        memset(src, 0x55, sizeof(src));
        IMB_JOB *j = IMB_GET_NEXT_JOB(m);
        memset(j, 0, sizeof(*j));
        j->cipher_mode = IMB_CIPHER_ZUC_EEA3; j->cipher_direction = IMB_DIR_ENCRYPT; j->chain_order = IMB_ORDER_CIPHER_HASH;
        j->hash_alg = IMB_AUTH_NULL; j->src = src; j->dst = dst; j->enc_keys = key; j->dec_keys = key; j->key_len_in_bytes = 16;
        j->iv = iv; j->iv_len_in_bytes = 16; j->msg_len_to_cipher_in_bytes = 64;
        j = IMB_SUBMIT_JOB(m);
        if (j == NULL) j = IMB_FLUSH_JOB(m);
        if (j == NULL || j->status != IMB_STATUS_COMPLETED) { printf("%s: job not completed\n", name); return -1; }
        /* no job in flight: the whole per-lane ZUC state must be zero */
        const MB_MGR_ZUC_OOO *o = m->zuc_eea3_ooo;
        const uint32_t *w = (const uint32_t *) &o->state;
        for (size_t i = 0; i < sizeof(o->state) / 4; i++)
                if (w[i] != 0) left++;
        printf("%-22s: %d non-zero 32-bit words of LFSR / FSM state left in the manager after the only job completed\n", name, left);
        return left;
}

int main(void)
{
        int bad = 0;
        IMB_MGR *m;
        m = alloc_mb_mgr(0); init_mb_mgr_avx2(m); if (run(m, "AVX2") != 0) bad |= 2; free_mb_mgr(m);
        m = alloc_mb_mgr(0); init_mb_mgr_avx512(m); if (m->imb_errno == 0 && run(m, "AVX512") != 0) bad |= 1; free_mb_mgr(m);
        m = alloc_mb_mgr(IMB_FLAG_GFNI_OFF); init_mb_mgr_avx512(m); if (m->imb_errno == 0 && run(m, "AVX512 (GFNI off)") != 0) bad |= 1; free_mb_mgr(m);
        return bad ? 1 : 0;
}
