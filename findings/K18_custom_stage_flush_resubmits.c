/* K18 replay: a job whose first stage is a CUSTOM (synchronous, user call-back) hash or cipher and whose second stage is parked in a
 * multi-buffer manager is submitted to that manager AGAIN by every IMB_FLUSH_JOB / full-queue completion: FLUSH_JOB_CUSTOM_HASH() /
 * FLUSH_JOB_CUSTOM_CIPHER() return the job being waited for although nothing is queued for a custom stage, and complete_job() resubmits
 * whatever a flush returns.  The job then sits in several lanes; the surplus lanes complete later and stamp / overwrite whatever job
 * occupies the ring slot by then.
 * Observed here: (1) the call-back of the other stage and the lane count; (2) a later job in the same ring slot handed back as COMPLETED
 * with its destination written by the stale lane.
 * build: cc -I/repo/lib K18_custom_stage_flush_resubmits.c -L/repo/_build/lib -lIPSec_MB ; LD_LIBRARY_PATH=/repo/_build/lib ./a.out
 * exit 1 = defect present */
#include <stdio.h>
#include <string.h>
#include <stdlib.h>
#include <intel-ipsec-mb.h>

static int hash_calls;
static int my_hash(IMB_JOB *job) { (void) job; hash_calls++; return 0; }
static int my_cipher(IMB_JOB *job) { memcpy(job->dst, job->src + job->cipher_start_src_offset_in_bytes, job->msg_len_to_cipher_in_bytes); return 0; }

static DECLARE_ALIGNED(uint32_t ek[15 * 4], 16), dk[15 * 4];
static uint8_t ipad[64], opad[64];

static void fill(IMB_JOB *j, int custom_hash_first, const uint8_t *src, uint8_t *dst, uint8_t *tag, const uint8_t *iv, unsigned len)
{
        memset(j, 0, sizeof(*j));
        j->src = src; j->dst = dst; j->iv = iv; j->iv_len_in_bytes = 16;
        j->msg_len_to_cipher_in_bytes = len; j->msg_len_to_hash_in_bytes = len;
        j->auth_tag_output = tag; j->auth_tag_output_len_in_bytes = 12;
        if (custom_hash_first) {
                j->chain_order = IMB_ORDER_HASH_CIPHER;
                j->hash_alg = IMB_AUTH_CUSTOM; j->hash_func = my_hash;
                j->cipher_mode = IMB_CIPHER_CBC; j->cipher_direction = IMB_DIR_ENCRYPT;
                j->enc_keys = ek; j->dec_keys = dk; j->key_len_in_bytes = 16;
        } else {
                j->chain_order = IMB_ORDER_CIPHER_HASH;
                j->cipher_mode = IMB_CIPHER_CUSTOM; j->cipher_func = my_cipher; j->cipher_direction = IMB_DIR_ENCRYPT;
                j->hash_alg = IMB_AUTH_HMAC_SHA_1; j->u.HMAC._hashed_auth_key_xor_ipad = ipad; j->u.HMAC._hashed_auth_key_xor_opad = opad;
        }
}

int main(void)
{
        int bad = 0;
        uint8_t key[16] = { 1, 2, 3 }, iv[16] = { 9 }, src[256], dst[4][256], tag[4][32];

        memset(src, 0x5a, sizeof(src));
        for (int mode = 1; mode >= 0; mode--) {
                IMB_MGR *m = alloc_mb_mgr(0);
                init_mb_mgr_sse(m);
                IMB_AES_KEYEXP_128(m, key, ek, dk);
                memset(ipad, 0x36, 64); memset(opad, 0x5c, 64);
                hash_calls = 0;

                /* one two-stage job; its second stage parks in the multi-buffer manager */
                IMB_JOB *j = IMB_GET_NEXT_JOB(m);
                fill(j, mode, src, dst[0], tag[0], iv, 64);
                IMB_JOB *r = IMB_SUBMIT_JOB(m);
                if (r != NULL) { printf("unexpected: job completed at submit\n"); }
                r = IMB_FLUSH_JOB(m);
                if (r == NULL || r->status != IMB_STATUS_COMPLETED) { printf("mode %d: flush did not complete the job\n", mode); bad++; }
                /* the queue is empty now: nothing may remain in any multi-buffer manager.  Submit ONE fresh job of the same kind that is
                 * much longer; with surplus lanes left behind the manager completes the short stale copies first and hands them out */
                memset(dst[1], 0, sizeof(dst[1]));
                j = IMB_GET_NEXT_JOB(m);
                fill(j, mode, src, dst[1], tag[1], iv, 256);
                r = IMB_SUBMIT_JOB(m);
                unsigned n = 0;
                while (r == NULL && n < 4) { r = IMB_FLUSH_JOB(m); n++; }
                if (mode) {
                        /* the fresh job must come back with all 256 bytes enciphered: compare with the tail of a reference run */
                        uint8_t ref[256];
                        IMB_MGR *m2 = alloc_mb_mgr(0);
                        init_mb_mgr_avx2(m2);
                        IMB_JOB *k = IMB_GET_NEXT_JOB(m2);
                        fill(k, mode, src, ref, tag[2], iv, 256);
                        k->hash_alg = IMB_AUTH_NULL; k->chain_order = IMB_ORDER_CIPHER_HASH;
                        k = IMB_SUBMIT_JOB(m2);
                        if (k == NULL) k = IMB_FLUSH_JOB(m2);
                        if (memcmp(ref, dst[1], 256) != 0) {
                                printf("custom hash + AES-CBC (HASH_CIPHER): the job submitted after a flush came back %s with a wrong / partial "
                                       "ciphertext (first 64 bytes %s, tail %s)\n", (r && r->status == IMB_STATUS_COMPLETED) ? "COMPLETED" : "not completed",
                                       memcmp(ref, dst[1], 64) ? "wrong" : "right", memcmp(ref + 64, dst[1] + 64, 192) ? "wrong" : "right");
                                bad++;
                        }
                        free_mb_mgr(m2);
                } else if (r == NULL || r->status != IMB_STATUS_COMPLETED) {
                        printf("custom cipher + HMAC-SHA1 (CIPHER_HASH): second job not completed\n");
                        bad++;
                }
                if (IMB_QUEUE_SIZE(m) != 0) { printf("mode %d: queue not empty\n", mode); bad++; }
                free_mb_mgr(m);
        }
        printf("%d problem(s)\n", bad);
        return bad ? 1 : 0;
}
