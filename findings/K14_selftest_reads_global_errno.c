/* K14 replay (C17-G6): the power-on self-test of init_mb_mgr_*() decides with imb_get_errno(p_mgr) whether IMB_SUBMIT_JOB() failed
 * (lib/x86_64/self_test.c: process_job).  For a manager whose own errno is 0, imb_get_errno() returns the process-wide imb_errno
 * (K6), so an error recorded by ANOTHER manager on another thread makes this manager's self-test "fail": init returns with
 * IMB_ERR_SELFTEST and without IMB_FEATURE_SELF_TEST_PASS although nothing is wrong with it.
 * build: cc -O1 -pthread -I/repo/lib K14_selftest_reads_global_errno.c -L/repo/_build/lib -lIPSec_MB
 * exit 0 = every initialisation of manager A passed its self-test, 1 = a spurious self-test failure was observed */
#include <stdio.h>
#include <stdlib.h>
#include <string.h>
#include <pthread.h>
#include <intel-ipsec-mb.h>

static volatile int stop;
static unsigned long rejected;

static void *other_manager(void *arg)
{
        IMB_MGR *b = alloc_mb_mgr(0);

        (void) arg;
        init_mb_mgr_auto(b, NULL);
        while (!stop) {
                /* a perfectly legal use of manager B: an invalid job is rejected with an error code */
                IMB_JOB *job = IMB_GET_NEXT_JOB(b);

                memset(job, 0, sizeof(*job));
                job->cipher_mode = IMB_CIPHER_CBC;
                job->hash_alg = IMB_AUTH_NULL;
                job->chain_order = IMB_ORDER_CIPHER_HASH;
                job->cipher_direction = IMB_DIR_ENCRYPT;
                job->src = NULL; /* invalid */
                job = IMB_SUBMIT_JOB(b);
                while (IMB_GET_COMPLETED_JOB(b) != NULL)
                        ;
                rejected++;
        }
        free_mb_mgr(b);
        return NULL;
}

int main(void)
{
        pthread_t t;
        IMB_MGR *a = alloc_mb_mgr(0);
        int i, bad = 0;

        pthread_create(&t, NULL, other_manager, NULL);
        for (i = 0; i < 300 && !bad; i++) {
                init_mb_mgr_auto(a, NULL);
                if (!(a->features & IMB_FEATURE_SELF_TEST_PASS) || a->imb_errno == IMB_ERR_SELFTEST) {
                        printf("FAIL: initialisation %d of manager A: self-test reported failed (features SELF_TEST_PASS=%d, "
                               "A->imb_errno=%d %s) while manager B was rejecting invalid jobs on another thread\n", i,
                               !!(a->features & IMB_FEATURE_SELF_TEST_PASS), a->imb_errno, imb_get_strerror(a->imb_errno));
                        bad = 1;
                }
        }
        stop = 1;
        pthread_join(t, NULL);
        if (!bad)
                printf("PASS: %d initialisations of manager A passed the self-test (manager B rejected %lu jobs meanwhile)\n", i, rejected);
        free_mb_mgr(a);
        return bad;
}
