#include <stdio.h>
#include <string.h>
#include <signal.h>
#include <stdlib.h>
#include <intel-ipsec-mb.h>
static void h(int s){ printf("SIGNAL %d (library faulted on a job that validation accepted)\n", s); exit(3); }
int main(void){
  signal(SIGSEGV,h);
  IMB_MGR *m=alloc_mb_mgr(0); init_mb_mgr_auto(m,NULL);
  uint8_t key[32]={1}, iv[12]={2}, pt[64], ct[64];
  memset(pt,0xAB,sizeof pt); memset(ct,0,sizeof ct);
  IMB_JOB *j=IMB_GET_NEXT_JOB(m);
  memset(j,0,sizeof *j);
  j->cipher_mode=IMB_CIPHER_CHACHA20_POLY1305; j->hash_alg=IMB_AUTH_NULL; j->cipher_direction=IMB_DIR_ENCRYPT; j->chain_order=IMB_ORDER_CIPHER_HASH;
  j->src=pt; j->dst=ct; j->enc_keys=key; j->dec_keys=key; j->key_len_in_bytes=32; j->iv=iv; j->iv_len_in_bytes=12;
  j->msg_len_to_cipher_in_bytes=64; j->msg_len_to_hash_in_bytes=64;
  j=IMB_SUBMIT_JOB(m);
  printf("submit returned %p errno=%d (%s)\n",(void*)j, imb_get_errno(m), imb_get_strerror(imb_get_errno(m)));
  if(!j) j=IMB_FLUSH_JOB(m);
  printf("status=%d\n", j?j->status:-1);
  return (j && j->status==IMB_STATUS_COMPLETED) ? 1 : 0;
}
