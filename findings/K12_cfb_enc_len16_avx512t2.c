#include <stdio.h>
#include <string.h>
#include <stdlib.h>
#include <intel-ipsec-mb.h>
static int run(IMB_MGR *m, const uint8_t *key, uint8_t *src, uint8_t *dst, size_t len, int *errno_out) {
  DECLARE_ALIGNED(uint32_t ek[15*4],16); DECLARE_ALIGNED(uint32_t dk[15*4],16);
  uint8_t iv[16]; memset(iv,7,16);
  IMB_AES_KEYEXP_128(m,key,ek,dk);
  IMB_JOB *j=IMB_GET_NEXT_JOB(m);
  j->cipher_mode=IMB_CIPHER_CFB; j->hash_alg=IMB_AUTH_NULL; j->cipher_direction=IMB_DIR_ENCRYPT; j->chain_order=IMB_ORDER_CIPHER_HASH;
  j->src=src; j->dst=dst; j->enc_keys=ek; j->dec_keys=ek; j->key_len_in_bytes=16; j->iv=iv; j->iv_len_in_bytes=16;
  j->cipher_start_src_offset_in_bytes=0; j->msg_len_to_cipher_in_bytes=len;
  j=IMB_SUBMIT_JOB(m); *errno_out=imb_get_errno(m);
  if(!j) j=IMB_FLUSH_JOB(m);
  return j? (int)j->status : -1;
}
int main(void){
  size_t len=65536+64;
  uint8_t *src=malloc(len), *d1=calloc(1,len), *d2=calloc(1,len); for(size_t i=0;i<len;i++) src[i]=(uint8_t)(i*31+5);
  uint8_t key[16]; memset(key,0x42,16);
  IMB_MGR *a=alloc_mb_mgr(0), *b=alloc_mb_mgr(0); init_mb_mgr_sse(a); init_mb_mgr_avx512(b);
  int e1,e2; int s1=run(a,key,src,d1,len,&e1), s2=run(b,key,src,d2,len,&e2);
  size_t first=len; for(size_t i=0;i<len;i++) if(d1[i]!=d2[i]){first=i;break;}
  size_t untouched=0; for(size_t i=0;i<len;i++) if(d2[i]==0) untouched++;
  printf("AES-128-CFB encrypt of %zu bytes: sse status=%d errno=%d; avx512(type %u) status=%d errno=%d; outputs %s (first difference at byte %zu; %zu zero bytes in avx512 output)\n",
    len,s1,e1,(unsigned)b->used_arch_type,s2,e2, first==len?"IDENTICAL":"DIFFER", first, untouched);
  return first!=len;
}
