#include <stdio.h>
#include <string.h>
#include <stdlib.h>
#include <intel-ipsec-mb.h>
int main(int argc,char**argv){
  int mode=atoi(argv[1]);
  if(mode==0){ printf("calling init_mb_mgr_sse(NULL)\n"); fflush(stdout); init_mb_mgr_sse(NULL); printf("returned errno=%d\n", imb_get_errno(NULL)); }
  if(mode==1){ IMB_MGR*m=alloc_mb_mgr(0); m->features &= ~IMB_FEATURE_AVX512F; printf("fresh mgr, AVX512F masked, init_mb_mgr_avx512\n"); fflush(stdout); init_mb_mgr_avx512(m); printf("returned errno=%d (%s) used_arch=%u\n", imb_get_errno(m), imb_get_strerror(imb_get_errno(m)), m->used_arch); }
  if(mode==2){ IMB_MGR*m=alloc_mb_mgr(0); init_mb_mgr_sse(m); printf("sse ok errno=%d arch=%u\n",imb_get_errno(m),m->used_arch); m->features &= ~IMB_FEATURE_AVX512F; init_mb_mgr_avx512(m); printf("after avx512 init on masked features: errno=%d (%s) used_arch=%u selftest_pass=%d\n", imb_get_errno(m), imb_get_strerror(imb_get_errno(m)), m->used_arch, !!(m->features&IMB_FEATURE_SELF_TEST_PASS)); }
  if(mode==3){ /* CBCS with key_len 24 */
    IMB_MGR*m=alloc_mb_mgr(0); init_mb_mgr_sse(m);
    static uint8_t key[32], src[160], dst[160], iv[16], niv[16]; DECLARE_ALIGNED(uint32_t ek[4*15],16); DECLARE_ALIGNED(uint32_t dk[4*15],16);
    for(int i=0;i<32;i++) key[i]=i; for(int i=0;i<160;i++) src[i]=i;
    IMB_AES_KEYEXP_192(m,key,ek,dk);
    IMB_JOB*j=IMB_GET_NEXT_JOB(m); memset(j,0,sizeof(*j));
    j->cipher_mode=IMB_CIPHER_CBCS_1_9; j->cipher_direction=IMB_DIR_ENCRYPT; j->chain_order=IMB_ORDER_CIPHER_HASH; j->hash_alg=IMB_AUTH_NULL;
    j->enc_keys=ek; j->dec_keys=dk; j->key_len_in_bytes=24; j->src=src; j->dst=dst; j->iv=iv; j->iv_len_in_bytes=16; j->msg_len_to_cipher_in_bytes=160; j->cipher_fields.CBCS.next_iv=niv;
    j=IMB_SUBMIT_JOB(m); if(!j) j=IMB_FLUSH_JOB(m);
    printf("CBCS key_len=24: status=%d errno=%d\n", j?j->status:-1, imb_get_errno(m));
    uint8_t d24[16]; memcpy(d24,dst,16);
    /* same with key_len 16 but same (192-bit) schedule */
    j=IMB_GET_NEXT_JOB(m); memset(j,0,sizeof(*j));
    j->cipher_mode=IMB_CIPHER_CBCS_1_9; j->cipher_direction=IMB_DIR_ENCRYPT; j->chain_order=IMB_ORDER_CIPHER_HASH; j->hash_alg=IMB_AUTH_NULL;
    j->enc_keys=ek; j->dec_keys=dk; j->key_len_in_bytes=16; j->src=src; j->dst=dst; j->iv=iv; j->iv_len_in_bytes=16; j->msg_len_to_cipher_in_bytes=160; j->cipher_fields.CBCS.next_iv=niv;
    j=IMB_SUBMIT_JOB(m); if(!j) j=IMB_FLUSH_JOB(m);
    printf("CBCS key_len=16 same schedule: status=%d same_output_as_24=%d\n", j->status, !memcmp(d24,dst,16));
    /* reference AES-192-CBC first block */
    uint8_t ref[16]; j=IMB_GET_NEXT_JOB(m); memset(j,0,sizeof(*j));
    j->cipher_mode=IMB_CIPHER_CBC; j->cipher_direction=IMB_DIR_ENCRYPT; j->chain_order=IMB_ORDER_CIPHER_HASH; j->hash_alg=IMB_AUTH_NULL;
    j->enc_keys=ek; j->dec_keys=dk; j->key_len_in_bytes=24; j->src=src; j->dst=ref; j->iv=iv; j->iv_len_in_bytes=16; j->msg_len_to_cipher_in_bytes=16;
    j=IMB_SUBMIT_JOB(m); if(!j) j=IMB_FLUSH_JOB(m);
    printf("AES-192-CBC block0 equals CBCS(key_len=24) block0: %d\n", !memcmp(ref,d24,16));
  }
  return 0; }
