"""Object-level facts: assemble every lib asm unit with the compile database's exact nasm command,
read sections / symbols / relocations, disassemble, and run the abstract interpreter (asmint) over every
function.  The result (small, per function) is cached under the tree key; objects are not kept."""
import os, re, subprocess, sys
from concurrent.futures import ProcessPoolExecutor
from . import build
from .build import AnalysisBroken

_mem = {}


def _readelf_sections(path):
    out = subprocess.run(['readelf', '-SW', path], capture_output=True, text=True).stdout
    secs = []
    for line in out.splitlines():
        m = re.match(r'\s*\[\s*(\d+)\]\s+(\S*)\s+(\S+)\s+([0-9a-f]+)\s+([0-9a-f]+)\s+([0-9a-f]+)\s+([0-9a-f]+)\s+(\S*)\s+\d+\s+\d+\s+\d+', line)
        if m and m.group(3) != 'NULL':
            secs.append({'idx': int(m.group(1)), 'name': m.group(2), 'type': m.group(3), 'size': int(m.group(6), 16),
                         'flags': m.group(8)})
    return secs


def _stage_objects():
    objs = build.build_asm_objects()
    res = {}
    for src, obj in objs.items():
        rel = os.path.relpath(src, build.REPO)
        res[rel] = {'sections': _readelf_sections(obj), 'obj': obj}
    return res


def sections():
    """{asm source (relative to /repo): [section dicts]}"""
    def prod():
        st = _stage_objects()
        return {k: v['sections'] for k, v in st.items()}
    if 'sections' not in _mem:
        _mem['sections'] = build.cached('asm_sections', prod)
    return _mem['sections']
