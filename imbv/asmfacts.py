"""Object-level facts: assemble every lib asm unit with the compile database's exact nasm command,
read sections / symbols / relocations, disassemble, and run the abstract interpreter (asmint) over every
function, iterating callee summaries to a fixpoint.  The per-function results (small) are cached under the tree
key; objects are not kept."""
import os, re, subprocess, sys, time
from concurrent.futures import ProcessPoolExecutor
from . import build, asmint, asmdu
from .build import AnalysisBroken

_mem = {}


def _readelf_sections(path):
    out = subprocess.run(['readelf', '-SW', path], capture_output=True, text=True).stdout
    secs = []
    for line in out.splitlines():
        m = re.match(r'\s*\[\s*(\d+)\]\s+(\S*)\s+(\S+)\s+([0-9a-f]+)\s+([0-9a-f]+)\s+([0-9a-f]+)\s+([0-9a-f]+)\s+(\S*)\s+\d+\s+\d+\s+\d+', line)
        if m and m.group(3) != 'NULL':
            secs.append({'idx': int(m.group(1)), 'name': m.group(2), 'type': m.group(3), 'size': int(m.group(6), 16),
                         'flags': m.group(8)})
    return secs


def _line_table(path):
    """address -> (file, line) from DWARF (nasm -gdwarf)"""
    out = subprocess.run(['objdump', '--dwarf=decodedline', path], capture_output=True, text=True).stdout
    tab = {}
    cur = None
    for line in out.splitlines():
        f = line.split()
        if len(f) >= 3 and f[-1] != 'x' and re.match(r'^0x[0-9a-f]+$', f[2]) and f[1].isdigit():
            tab.setdefault(int(f[2], 16), (f[0], int(f[1])))
        elif len(f) >= 4 and re.match(r'^0x[0-9a-f]+$', f[2]) and f[1].isdigit():
            tab.setdefault(int(f[2], 16), (f[0], int(f[1])))
    return tab


def _worker(arg):
    obj, rel, summaries, only = arg
    insns, labels, funcs, syms = asmint.parse_obj(obj)
    th = asmint.thresholds_for(insns)
    # data symbols per section: (section name, offset) -> family of the constant (label name without its trailing numbering)
    secs_ = {str(x['idx']): x['name'] for x in _readelf_sections(obj)}
    bysec = {}
    for n_, sy in syms.items():
        if sy['type'] in ('NOTYPE', 'OBJECT') and sy['ndx'] in secs_ and n_ and not n_.startswith('..@'):
            bysec.setdefault(secs_[sy['ndx']], []).append((sy['value'], n_))
    for v_ in bysec.values():
        v_.sort()

    def family(sym, off):
        lst = bysec.get(sym)
        if lst is None:
            return re.sub(r'[_0-9]+$', '', sym)       # a named symbol
        best = None
        for val, n_ in lst:
            if val <= off:
                if best is None or val > best[0] or (val == best[0] and len(n_) < len(best[1])):
                    best = (val, n_)
        return re.sub(r'[_0-9]+$', '', best[1]) if best else '%s+%#x' % (sym, off)
    lt = None
    res = {}
    for name, entry in funcs.items():
        if only is not None and name not in only:
            continue
        if entry not in insns:
            res[name] = {'name': name, 'issues': [('noentry', entry, '')], 'calls': {}, 'exits': [], 'ninsn': 0,
                         'assumed': [], 'stores': [], 'notes': [], 'special': []}
            continue
        r = dict(asmint.analyse_func(name, entry, insns, summaries, th))
        w0, cl = asmint.written_gprs(entry, insns)
        hist = {}
        for a_ in asmint.reachable_insns(entry, insns):
            m_ = insns[a_]['mn']
            hist[m_] = hist.get(m_, 0) + 1
        r['hist'] = hist
        # consumers of image constants: (address, mnemonic, symbol/section, offset of the constant, source line)
        cu = []
        for a_ in asmint.reachable_insns(entry, insns):
            i_ = insns[a_]
            if i_.get('reloc') and i_.get('reloc_ty') in ('R_X86_64_PC32', 'R_X86_64_PLT32') and i_['mn'] not in ('call', 'jmp', 'lea') and \
                    i_['mn'] not in asmint.JCC and i_.get('reloc_at') is not None:
                tgt = i_.get('reloc_add', 0) + (a_ + i_['len'] - i_['reloc_at'])
                cu.append((a_, i_['mn'], i_['reloc'], tgt, family(i_['reloc'], tgt)))
        r['constuse'] = cu
        # unsigned threshold tests against a constant close to the top of a byte: `cmp ctr, 256-N ; jae overflow`
        th_ = []
        for a_ in asmint.reachable_insns(entry, insns):
            i_ = insns[a_]
            if i_['mn'] == 'cmp' and i_['next'] in insns and insns[i_['next']]['mn'] in asmint.JCC:
                o_ = asmint.split_ops(i_['ops'])
                if len(o_) == 2 and re.match(r'^(0x[0-9a-f]+|\d+)$', o_[1]) and 0xC0 <= int(o_[1], 0) <= 0xFF:
                    th_.append((a_, int(o_[1], 0), asmint.JCC[insns[i_['next']]['mn']]))
        r['hi_tests'] = th_
        # instruction-set extensions used (first witness per class)
        isa_ = {}
        for a_ in sorted(asmint.reachable_insns(entry, insns)):
            for c_ in asmint.isa_classes(insns[a_]):
                isa_.setdefault(c_, a_)
        r['isa'] = isa_
        # definition / use facts (dead definitions, registers read before any definition)
        du_ = asmdu.analyse(entry, insns)
        r['du'] = {'dead': [(a_, t_) for a_, t_ in du_['dead_all']], 'dead_abi': [(a_, t_) for a_, t_ in du_['dead_abi']],
                   'uninit': [(a_, rg_, t_) for a_, rg_, t_ in du_['uninit']]}
        r['gprw0'] = sorted(w0)
        r['callees0'] = sorted(c for c in cl if c)
        # map interesting addresses to source lines
        addrs = set(e['a'] for e in r['exits']) | set(s['a'] for s in r['stores']) | set(r['assumed']) | set(c_[0] for c_ in cu) | set(t_[0] for t_ in th_) | set(isa_.values()) | set(x_[0] for x_ in r['du']['dead']) | set(x_[0] for x_ in r['du']['dead_abi']) | set(x_[0] for x_ in r['du']['uninit']) | \
            set(i[1] for i in r['issues'] if isinstance(i[1], int)) | set(x[0] for x in r['special']) | {entry}
        if lt is None:
            lt = _line_table(obj)
        lines = {}
        for a in addrs:
            if a in lt:
                lines[a] = '%s:%d' % (lt[a][0], lt[a][1])
            txt = insns[a]['txt'] if a in insns else ''
            lines.setdefault(a, rel)
            lines[a] = lines[a] + '  [' + txt + ']'
        r['lines'] = lines
        res[name] = r
    symout = {n: s for n, s in syms.items() if s['type'] in ('FUNC', 'OBJECT', 'NOTYPE') and s['bind'] in ('GLOBAL', 'WEAK')}
    # instruction inventory for ISA / special-instruction rules: per function reachable mnemonics with encoding class
    return rel, res, symout, _readelf_sections(obj), {n: e for n, e in funcs.items()}


def _summary(r):
    clob = set()
    vecW = set()
    unclean = set()
    df = 0
    nex = 0
    for e in r['exits']:
        nex += 1
        for reg, _ in e['bad']:
            if reg != 'rsp':
                clob.add(reg)
        vecW |= set(e['vec'])
        unclean |= set(e['unclean'])
        if e['df'] != 0:
            df = 2
    sp_bad = any(reg == 'rsp' for e in r['exits'] for reg, _ in e['bad'])
    return {'clob': sorted(clob), 'vecW': sorted(vecW), 'vecMC': sorted(set(range(32)) - unclean) if nex else [],
            'df': df, 'sp_bad': sp_bad}


def _objhash(obj):
    """hash of what the object-level analysis consumes of one object: code bytes with relocations, symbols and sections (not the DWARF
    line table, whose file names depend on where the tree lies)"""
    import hashlib
    h = hashlib.sha256()
    for cmd in (['objdump', '-D', '-r', '-M', 'intel', '-j', '.text', '--show-raw-insn', '-w', obj], ['readelf', '-sW', obj],
                ['objdump', '-s', '-j', '.rodata', '-j', '.data', obj]):
        out = subprocess.run(cmd, capture_output=True, text=True).stdout
        h.update('\n'.join(l for l in out.splitlines() if obj not in l and ' FILE ' not in l).encode())
    # allocated sections only (the sizes of the debug sections depend on the length of the source paths)
    out = subprocess.run(['readelf', '-SW', obj], capture_output=True, text=True).stdout
    h.update('\n'.join(re.sub(r'\s+[0-9a-f]{6}\s+', ' ', l) for l in out.splitlines()
                       if re.search(r'\s(PROGBITS|NOBITS)\s', l) and '.debug' not in l and obj not in l).encode())
    return h.hexdigest()[:32]


def _extractor_hash_now():
    import hashlib
    h = hashlib.sha256()
    d = os.path.dirname(os.path.abspath(__file__))
    for f in sorted(os.listdir(d)):
        if f.startswith('asm') and f.endswith('.py'):
            h.update(open(os.path.join(d, f), 'rb').read())
    return h.hexdigest()[:12]


# snapshot taken when the extractor modules are loaded: results are filed under the version of the code that produced them, even if
# the files are edited while a long run is in progress
_EXT_HASH = _extractor_hash_now()


def _extractor_hash():
    return _EXT_HASH


def _objcache_dir():
    d = os.path.join(build.CACHE_ROOT, 'asmobj-' + _extractor_hash())
    if not os.path.isdir(d):
        os.makedirs(d, exist_ok=True)
        import shutil
        for x in os.listdir(build.CACHE_ROOT):      # results of older extractor versions are useless
            if x.startswith('asmobj-') and x != os.path.basename(d):
                shutil.rmtree(os.path.join(build.CACHE_ROOT, x), ignore_errors=True)
    return d


def _stage():
    import pickle
    t0 = time.time()
    ents = {e['file']: e for e in build.asm_entries()}
    srcs = sorted(ents)
    hashes = {}
    srckeys = {}
    if build.use_cache():
        # units whose sources (with everything they include) and flags were assembled and analysed before need not be assembled again
        cdir = _objcache_dir()
        for src in srcs:
            k = build.asm_source_key(ents[src])
            srckeys[src] = k
            try:
                with open(os.path.join(cdir, 'src-' + k)) as f:
                    h = f.read().strip()
                if os.path.exists(os.path.join(cdir, h + '.pkl')):
                    hashes[src] = h
            except OSError:
                pass
        objs = build.assemble([ents[s_] for s_ in srcs if s_ not in hashes])
    else:
        objs = build.build_asm_objects()
    rels = {src: os.path.relpath(src, build.REPO) for src in srcs}
    t1 = time.time()
    summaries = {}
    results = {}
    symtab = {}
    sections = {}
    funcs_of = {}
    only = {src: None for src in srcs}
    # ---- per-object reuse: an object whose code, symbols and relocations are byte-identical to one analysed before, and all of
    # whose external assembly callees live in such objects too, has identical results (a routine's facts depend on its own code and
    # on its callees' summaries only)
    reused = 0
    if build.use_cache():
        fresh = sorted(objs)
        with ProcessPoolExecutor(build.NPROC) as ex:
            for s_, h_ in zip(fresh, ex.map(_objhash, [objs[s_] for s_ in fresh])):
                hashes[s_] = h_
                try:
                    with open(os.path.join(_objcache_dir(), 'src-' + srckeys[s_]), 'w') as f:
                        f.write(h_)
                except OSError:
                    pass
        cdir = _objcache_dir()
        cached = {}
        for src, h in hashes.items():
            pth = os.path.join(cdir, h + '.pkl')
            if os.path.exists(pth):
                try:
                    with open(pth, 'rb') as f:
                        cached[src] = pickle.load(f)
                except Exception:
                    pass
        defined_in = {}
        for src, c in cached.items():
            for n in c['res']:
                defined_in.setdefault(n, src)
        ok = set(cached)
        changed_ok = True
        while changed_ok:
            changed_ok = False
            for src in list(ok):
                for n in cached[src]['ext']:
                    # the cached facts of a caller hold only next to the very callee objects they were computed with: a callee defined
                    # in an object that has to be analysed afresh, or in an object with other code than recorded, redoes the caller
                    d_ = defined_in.get(n)
                    if d_ is None or d_ not in ok:
                        if n in cached[src].get('undef_ok', ()):
                            continue
                        ok.discard(src)
                        changed_ok = True
                        break
                    if cached[src].get('ext_hash', {}).get(n) != hashes.get(d_):
                        ok.discard(src)
                        changed_ok = True
                        break
        # names defined by objects that will be analysed afresh are unknown until then: a cached caller of an undefined-everywhere
        # name stays valid only if that name is still undefined everywhere, which we cannot know yet -> keep it simple: such callers are redone
        for src in ok:
            c = cached[src]
            results[rels[src]] = c['res']
            symtab[rels[src]] = c['syms']
            sections[rels[src]] = c['secs']
            funcs_of[rels[src]] = c['fns']
            only[src] = set()
            reused += 1
        for rel_, fr in results.items():
            for name, r in fr.items():
                summaries[name] = None   # filled below
        if results:
            summaries = _summaries_of(results)
    it = 0
    with ProcessPoolExecutor(build.NPROC) as ex:
        while True:
            it += 1
            todo = [src for src in srcs if only[src] is None or only[src]]
            lazy = [ents[src] for src in todo if src not in objs]
            if lazy:
                objs.update(build.assemble(lazy))     # a re-used unit whose callee changed has to be analysed after all
            tasks = [(objs[src], rels[src], summaries, only[src]) for src in todo]
            # big objects first
            tasks.sort(key=lambda t: -os.path.getsize(t[0]))
            out = list(ex.map(_worker, tasks, chunksize=1))
            for rel, res, syms, secs, fns in out:
                results.setdefault(rel, {}).update(res)
                symtab[rel] = syms
                sections[rel] = secs
                funcs_of[rel] = fns
            new = _summaries_of(results)
            changed = {n for n in set(new) | set(summaries) if new.get(n) != summaries.get(n)}
            summaries = new
            if not changed or it >= 8:
                break
            # re-analyse callers of changed functions
            only = {}
            for src in srcs:
                rel = rels[src]
                need = set()
                for name, r in results.get(rel, {}).items():
                    if any(c in changed for c in r['calls']):
                        need.add(name)
                only[src] = need
            if not any(only.values()):
                break
    # remember the objects analysed afresh
    if hashes:
        cdir = _objcache_dir()
        alln = set()
        for fr in results.values():
            alln |= set(fr)
        for src, h in hashes.items():
            if only.get(src) == set() and reused and os.path.exists(os.path.join(cdir, h + '.pkl')):
                continue
            rel = rels[src]
            res = results.get(rel, {})
            ext = set()
            for r in res.values():
                ext |= {c for c in r.get('calls', {}) if c not in res}
            where = {}
            for s2, h2 in hashes.items():
                for n2 in results.get(rels[s2], {}):
                    where.setdefault(n2, h2)
            ent = {'res': res, 'syms': symtab.get(rel), 'secs': sections.get(rel), 'fns': funcs_of.get(rel), 'ext': sorted(ext),
                   'undef_ok': sorted(c for c in ext if c not in alln), 'ext_hash': {c: where.get(c) for c in ext if c in where}}
            tmp = os.path.join(cdir, '%s.%d.tmp' % (h, os.getpid()))
            try:
                with open(tmp, 'wb') as f:
                    pickle.dump(ent, f, protocol=4)
                os.replace(tmp, os.path.join(cdir, h + '.pkl'))
            except OSError:
                pass
    return {'results': results, 'symbols': symtab, 'sections': sections, 'summaries': summaries, 'iterations': it,
            'time_nasm': round(t1 - t0, 1), 'time_analysis': round(time.time() - t1, 1), 'objects_reused': reused}


def _summaries_of(results):
    new = {}
    # transitive GPR write sets over the asm call graph (unknown callee = everything caller-saved)
    w0 = {}
    cl = {}
    for rel, fr in results.items():
        for name, r in fr.items():
            w0[name] = set(r.get('gprw0', asmint.CALLER))
            cl[name] = r.get('callees0', [])
    wt = {n: set(v) for n, v in w0.items()}
    changed_w = True
    while changed_w:
        changed_w = False
        for n in wt:
            for c in cl[n]:
                add = wt[c] if c in wt else set(asmint.CALLER)
                if not add <= wt[n]:
                    wt[n] |= add
                    changed_w = True
    for rel, fr in results.items():
        for name, r in fr.items():
            s = _summary(r)
            s['gprw'] = sorted(wt.get(name, asmint.CALLER))
            new[name] = s
    return new


def stage():
    if 'stage' not in _mem:
        _mem['stage'] = build.cached('asm_stage', _stage)
    return _mem['stage']


def sections():
    """{asm source (relative to /repo): [section dicts]}"""
    return stage()['sections']


def all_functions():
    """yield (rel, name, result)"""
    st = stage()
    for rel in sorted(st['results']):
        for name in sorted(st['results'][rel]):
            yield rel, name, st['results'][rel][name]


def global_symbols():
    """{symbol: (rel, sym dict)} for defined global symbols of asm objects"""
    out = {}
    for rel, syms in stage()['symbols'].items():
        for n, s in syms.items():
            if s['ndx'] != 'UND':
                out[n] = (rel, s)
    return out
