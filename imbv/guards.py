"""Guard catalogue: every `if (cond) { imb_set_errno(x, E); return c; }` of a function, with the switch-case context
and enclosing conditions, in a canonical form that is insensitive to formatting, macro names of constants, operand
order of && / || and the </<= spelling of a bound."""
from . import cf

FLIP = {'<': '>', '>': '<', '<=': '>=', '>=': '<=', '==': '==', '!=': '!='}
NEG = {'<': '>=', '>': '<=', '<=': '>', '>=': '<', '==': '!=', '!=': '=='}


_ALIAS = []      # stack of {local name: initialiser expression} of the function being rendered
_ABSTRACT = []   # stack of {local name: type} rendered as $<type> (guard baseline: names of other locals are not facts)
_ABSMODE = []    # stack of the abstract mode itself (a function without locals has an empty map but is still rendered abstractly)


def local_aliases(func):
    """{name: init expr} for locals defined exactly once (declaration with a call-free initialiser), never assigned, incremented
    or address-taken afterwards: renaming or introducing such a local does not change what a condition tests"""
    init = {}
    bad = set()
    types = {}
    for _, _, ev in func.events():
        if ev['k'] == 'decl':
            for d in ev['d']:
                types[d['n']] = d.get('ty', '')
                i_ = cf.strip_casts(d.get('init')) if d.get('init') is not None else None
                if isinstance(i_, dict) and i_.get('k') == 'initlist':
                    # a local constant table is identified by its contents, not by its name
                    vals = [cf.evalc(x) for x in i_.get('a', [])]
                    if all(v is not None for v in vals):
                        import hashlib
                        types[d['n']] = '%s{%s}' % (d.get('ty', ''), hashlib.sha1(repr(vals).encode()).hexdigest()[:8])
                if d['n'] in init or d['n'] in bad:
                    bad.add(d['n'])
                elif d.get('init') is not None and not cf.calls_in(d['init']) and cf.strip_casts(d['init']).get('k') != 'initlist':
                    init[d['n']] = d['init']
                else:
                    bad.add(d['n'])
        elif ev['k'] == 'assign':
            b = cf.base_ref(ev['lhs'])
            l = cf.strip_casts(ev['lhs'])
            if isinstance(l, dict) and l.get('k') == 'ref':
                bad.add(l['n'])
        for k in ('e', 'lhs', 'rhs', 'val'):
            if ev.get(k) is not None:
                for n in cf.walk(ev[k]):
                    if n.get('k') == 'un' and n.get('op') == '&':
                        x = cf.strip_casts(n['e'])
                        if isinstance(x, dict) and x.get('k') == 'ref':
                            bad.add(x['n'])
    pn = {p['name'] for p in func.params}
    al = {n: e for n, e in init.items() if n not in bad and n not in pn}
    # an alias must not (transitively) mention a non-alias local that is reassigned in a way we cannot order: accept as is
    return al, {n: t for n, t in types.items() if n not in al and n not in pn}


class in_function:
    """with guards.in_function(func): conditions are rendered with single-definition locals replaced by their initialisers"""

    def __init__(self, func, abstract=False):
        self.al, self.types = local_aliases(func)
        self.abstract = abstract

    def __enter__(self):
        _ALIAS.append(self.al)
        _ABSTRACT.append(self.types if self.abstract else {})
        _ABSMODE.append(bool(self.abstract))
        return self

    def __exit__(self, *a):
        _ALIAS.pop()
        _ABSTRACT.pop()
        _ABSMODE.pop()


def lv(e):
    """canonical rendering of an lvalue / general expression with constants folded"""
    e = cf.strip_casts(e)
    if not isinstance(e, dict):
        return '?'
    if e.get('k') == 'call' and '*' not in (e.get('ty') or ''):
        # a predicate / value computation factored out into a `return <expr>` helper; accessors returning pointers (JOBS(state, off))
        # stay opaque whatever the shape of their body
        e = cf.strip_casts(cf.inline_pure(e))
    v = cf.evalc(e)
    if v is not None:
        return str(v)
    k = e.get('k')
    if k == 'mem':
        if e['f'] == '':
            return lv(e['b']) + ('->' if e.get('arrow') else '.') + '@'  # anonymous union/struct member
        b = lv(e['b'])
        if b.endswith('@'):
            return b[:-1] + e['f']
        return b + ('->' if e.get('arrow') else '.') + e['f']
    if k == 'ref':
        if _ALIAS and e['n'] in _ALIAS[-1] and not e.get('p') and not e.get('g'):
            al = _ALIAS[-1]
            init = al[e['n']]
            _ALIAS.append({k_: v_ for k_, v_ in al.items() if k_ != e['n']})   # no cycles
            _ABSTRACT.append(_ABSTRACT[-1] if _ABSTRACT else {})
            try:
                return lv(init)
            finally:
                _ALIAS.pop()
                _ABSTRACT.pop()
        if _PSUB and e.get('p') and e['n'] in _PSUB[-1]:
            return _PSUB[-1][e['n']]
        if _ABSTRACT and e['n'] in _ABSTRACT[-1] and not e.get('p') and not e.get('g'):
            return '$<%s>' % _ABSTRACT[-1][e['n']].replace('const ', '').strip()
        return e['n']
    if k == 'idx':
        return '%s[%s]' % (lv(e['b']), lv(e['i']))
    if k == 'un':
        return e['op'] + lv(e['e'])
    if k == 'bin':
        l, r = lv(e['l']), lv(e['r'])
        if e['op'] in ('+', '*', '&', '|', '^') and r < l:
            l, r = r, l
        return '(%s %s %s)' % (l, e['op'], r)
    if k == 'call':
        return '%s(%s)' % (e.get('fn') or lv(e.get('callee')), ','.join(lv(a) for a in e.get('a', [])))
    if k == 'cond':
        return '(%s?%s:%s)' % (canon(e['c']), lv(e['t']), lv(e['f']))
    return cf.render(e)


def _atom(l, op, r):
    """comparison of two rendered operands, normalised"""
    lc, rc = _isnum(l), _isnum(r)
    if lc and not rc:
        l, r, op = r, l, FLIP[op]
        lc, rc = rc, lc
    if rc:
        c = int(r)
        if op == '<=':
            op, c = '<', c + 1
        elif op == '>':
            op, c = '>=', c + 1
        return '%s %s %d' % (l, op, c)
    if r < l:
        l, r, op = r, l, FLIP[op]
    return '%s %s %s' % (l, op, r)


def _isnum(s):
    return s.lstrip('-').isdigit()


def canon(e, neg=False):
    """canonical string of a boolean condition (neg: its negation)"""
    e = cf.strip_casts(e)
    if not isinstance(e, dict):
        return '?'
    if e.get('k') == 'call':
        e = cf.strip_casts(cf.inline_pure(e))
    k = e.get('k')
    if k == 'un' and e['op'] == '!':
        return canon(e['e'], not neg)
    if k == 'bin' and e['op'] in ('&&', '||'):
        op = e['op']
        if neg:
            op = '||' if op == '&&' else '&&'
        parts = []
        for side in (e['l'], e['r']):
            c = canon(side, neg)
            s = cf.strip_casts(side)
            # flatten same operator
            if isinstance(s, dict) and s.get('k') == 'bin' and s['op'] == e['op']:
                parts.extend(_split(c, op))
            else:
                parts.append(c)
        parts = sorted(set(parts))
        return '(' + (' %s ' % op).join(parts) + ')'
    if k == 'bin' and e['op'] in FLIP:
        op = NEG[e['op']] if neg else e['op']
        return _atom(lv(e['l']), op, lv(e['r']))
    v = cf.evalc(e)
    if v is not None:
        return str(int(bool(v)) ^ int(neg))
    # truthiness of a scalar
    return _atom(lv(e), '==' if neg else '!=', '0')


def _split(c, op):
    """split '(a op b op c)' at top level"""
    if not (c.startswith('(') and c.endswith(')')):
        return [c]
    inner = c[1:-1]
    parts = []
    depth = 0
    cur = ''
    i = 0
    sep = ' %s ' % op
    while i < len(inner):
        ch = inner[i]
        if ch == '(':
            depth += 1
        elif ch == ')':
            depth -= 1
        if depth == 0 and inner.startswith(sep, i):
            parts.append(cur)
            cur = ''
            i += len(sep)
            continue
        cur += ch
        i += 1
    parts.append(cur)
    return parts


def case_contexts(func):
    """{block: {switch expr rendering: frozenset(case values | 'default')}} — which case labels of each enclosing
    switch can be active when the block executes"""
    # post-dominators on the graph without the rejecting blocks (errno + return): the join after a switch whose cases
    # `return` on error is then the switch's post-dominator, and code after the switch is not "inside" every case
    rej = {b for b, blk in func.blocks.items() if is_guard_block(blk, func=func)}
    succ2 = {b: [x for x in func.succ(b) if x not in rej] for b in func.blocks if b not in rej}
    pred2 = {b: [] for b in succ2}
    for b, ss in succ2.items():
        for x in ss:
            pred2[x].append(b)
    pdom = cf._dominators(func.exit, list(succ2), lambda b: pred2.get(b, []), succ2) if func.exit in succ2 else func.postdominators()
    ctx = {b: {} for b in func.blocks}
    for hid, hb in func.blocks.items():
        t = hb.get('term')
        if not t or t['kind'] != 'SwitchStmt':
            continue
        sexpr = lv(t.get('cond'))
        # immediate post-dominator = join after the switch
        pd = pdom.get(hid, set()) - {hid}
        vals = {}
        work = []
        for s, lab in func.edges(hid):
            v = 'default' if lab == 'default' else (lab[1] if isinstance(lab, tuple) else None)
            if v is None:
                continue
            work.append((s, v))
        while work:
            b, v = work.pop()
            if b in pd:
                continue
            if v in vals.setdefault(b, set()):
                continue
            vals[b].add(v)
            for s in func.succ(b):
                work.append((s, v))
        for b, vs in vals.items():
            ctx[b][sexpr] = frozenset(vs)
        SWITCH_LABELS.setdefault((func.tu, func.name), {})[sexpr] = frozenset(
            ('default' if lab == 'default' else lab[1]) for _, lab in func.edges(hid) if lab == 'default' or isinstance(lab, tuple))
    return ctx


SWITCH_LABELS = {}   # {(tu, function): {switch expression: all its labels}}


def case_atoms(func, cases):
    """the case-label context of a block as condition atoms: `x == a`, `(x == a || x == b)`, or for the default label the
    conjunction of `x != v` over the explicit labels"""
    out = []
    for sexpr, vals in sorted(cases.items()):
        alll = SWITCH_LABELS.get((func.tu, func.name), {}).get(sexpr, frozenset())
        if 'default' in vals:
            for v in sorted((alll - vals), key=str):
                if v != 'default':
                    out.append(_atom(sexpr, '!=', str(v)))
        else:
            parts = sorted(set(_atom(sexpr, '==', str(v)) for v in vals))
            out.append(parts[0] if len(parts) == 1 else '(' + ' || '.join(parts) + ')')
    return out


def normal_forms(g):
    """a guard as a list of conjunctions (one per top-level disjunct of its own condition): sorted atom tuples, with the
    case-label context and the enclosing conditions folded in, and `x != d` dropped next to `x == c`"""
    base = []
    for c in g['ctx']:
        base.extend(_split(c, '&&') if c.startswith('(') and ' && ' in c and _top_op(c) == '&&' else [c])
    base.extend(g['catoms'])
    alts = [[]]
    if g['cond'] is not None:
        c = g['cond']
        top = _top_op(c)
        if top == '||':
            alts = [[d] for d in _split(c, '||')]
        elif top == '&&':
            alts = [_split(c, '&&')]
        else:
            alts = [[c]]
    out = []
    for alt in alts:
        atoms = []
        for a in base + alt:
            if _top_op(a) == '&&':
                atoms.extend(_split(a, '&&'))
            else:
                atoms.append(a)
        eqs = {}
        for a in atoms:
            m = _EQ.match(a)
            if m:
                eqs[m.group(1)] = m.group(2)
        keep = []
        for a in atoms:
            m = _NE.match(a)
            if m and m.group(1) in eqs and eqs[m.group(1)] != m.group(2):
                continue
            keep.append(a)
        out.extend(_distribute(sorted(set(keep))))
    return out


def _distribute(atoms):
    """a conjunction holding `(x == a || x == b)` is one conjunction per label (merging or splitting case labels does not change
    the guards); contradictory combinations (x == a with x == b) are dropped"""
    for i, a in enumerate(atoms):
        if _top_op(a) == '||':
            parts = _split(a, '||')
            ms = [_EQ.match(p_) for p_ in parts]
            if all(ms) and len({m.group(1) for m in ms}) == 1:
                res = []
                for p_ in parts:
                    res.extend(_distribute(sorted(set(atoms[:i] + [p_] + atoms[i + 1:]))))
                return res
    eqs = {}
    for a in atoms:
        m = _EQ.match(a)
        if m:
            if m.group(1) in eqs and eqs[m.group(1)] != m.group(2):
                return []
            eqs[m.group(1)] = m.group(2)
    keep = []
    for a in atoms:
        m = _NE.match(a)
        if m and m.group(1) in eqs:
            if eqs[m.group(1)] == m.group(2):
                return []
            continue
        keep.append(a)
    return [tuple(keep)]


import re as _re
_EQ = _re.compile(r'^([^()|&]+?) == (-?\d+)$')
_NE = _re.compile(r'^([^()|&]+?) != (-?\d+)$')


def _top_op(c):
    """'&&' / '||' / None: the operator of a parenthesised canonical condition at top level"""
    if not (c.startswith('(') and c.endswith(')')):
        return None
    depth = 0
    inner = c[1:-1]
    for i, ch in enumerate(inner):
        if ch == '(':
            depth += 1
        elif ch == ')':
            depth -= 1
            if depth < 0:
                return None
        elif depth == 0:
            if inner.startswith(' && ', i):
                return '&&'
            if inner.startswith(' || ', i):
                return '||'
    return None


def is_guard_block(b, errfn='imb_set_errno', func=None):
    """block = [imb_set_errno(x, E), return c] (c non-zero constant or any) -> (err expr, ret value, call ev) else None.
    With func given, `imb_set_errno(x, E); goto reject;` counts too when the label's block returns (a shared reject tail)"""
    evs = [e for e in b['ev']]
    calls = [e for e in evs if e['k'] == 'call']
    rets = [e for e in evs if e['k'] == 'return']
    others = [e for e in evs if e['k'] not in ('call', 'return')]
    if func is not None and len(calls) == 1 and not rets and not others and (b.get('term') or {}).get('kind') == 'GotoStmt' and \
            len(b['succ']) == 1 and b['succ'][0] is not None:
        tail = func.blocks[b['succ'][0]]
        trets = [e for e in tail['ev'] if e['k'] == 'return']
        if len(trets) == 1 and not any(e['k'] == 'call' and e['e'].get('fn') == errfn for e in tail['ev']):
            rets = trets
    if len(calls) != 1 or len(rets) != 1 or others:
        return None
    c = calls[0]['e']
    if c.get('fn') != errfn or len(c.get('a', [])) < 2:
        return None
    return c['a'][1], rets[0].get('val'), calls[0]


def _terminating(func, bid):
    b = func.blocks[bid]
    return any(e['k'] == 'return' for e in b['ev']) or func.succ(bid) == [func.exit] and not b['ev']


def catalogue(func, abstract=False):
    """list of guards: dict(block, err, errval, ret, cond, ctx[list of canon strings], cases{expr:set}, loc, canon)"""
    with in_function(func, abstract=abstract):
        return _catalogue(func)


def _ctx_of(func, dom, bid, skip=None):
    ctx = []
    if True:
        for d in sorted(dom.get(bid, ()), reverse=True):
            if d == bid or d == skip:
                continue
            db = func.blocks[d]
            t = db.get('term')
            if not t or t['kind'] != 'IfStmt' or 'fullcond' not in t:
                continue
            su = db['succ']
            if len(su) != 2 or su[0] is None or su[1] is None:
                continue
            # a successor is a context only if it is entered exclusively over this edge (an if without else joins
            # again in its "false successor", which then dominates everything after without being conditional)
            tdom = su[0] in dom[bid] and func.pred[su[0]] == [d]
            fdom = su[1] in dom[bid] and func.pred[su[1]] == [d]
            # a dominating `if` whose other branch just rejects/returns is an earlier guard, not a context
            other = su[1] if tdom else su[0]
            if _terminating(func, other):
                continue
            if tdom and not fdom:
                ctx.append(canon(expand(func, t['fullcond'], d)))
            elif fdom and not tdom:
                ctx.append(canon(expand(func, t['fullcond'], d), True))
    return ctx


def scoped_decls(func):
    return func.scoped_decls()


def expand(func, e, bid, depth=0):
    """tree with every local that has exactly one dominating call-free declaration replaced by its initialiser"""
    return func.expand(e, bid, depth)


def split_ternary(e, limit=3):
    """[(list of (condition tree, polarity), tree without ?:)] — a condition over `c ? a : b` is the condition over a under c and
    over b under !c; all occurrences of the same selector are decided together"""
    sels = {}
    for n in cf.walk(e):
        if n.get('k') == 'cond':
            sels.setdefault(canon(n['c']), n['c'])
    if not sels or len(sels) > limit:
        return [([], e)]
    keys = sorted(sels)

    def repl(x, pol):
        if isinstance(x, list):
            return [repl(y, pol) for y in x]
        if isinstance(x, dict):
            if x.get('k') == 'cond' and canon(x['c']) in pol:
                return repl(x['t'] if pol[canon(x['c'])] else x['f'], pol)
            return {k: (repl(v, pol) if isinstance(v, (dict, list)) else v) for k, v in x.items()}
        return x
    out = []
    for mask in range(1 << len(keys)):
        pol = {k: bool(mask >> i & 1) for i, k in enumerate(keys)}
        out.append(([(sels[k], pol[k]) for k in keys], repl(e, pol)))
    return out


HELPER_SKIP = {'is_job_invalid', 'is_job_invalid_light'}
_PSUB = []   # stack of {callee parameter name: argument rendered in the caller's terms}


def _delegates(P, H):
    """helpers H hands its verdict to: `return helper(args);`"""
    for b in H.blocks.values():
        for ev in b['ev']:
            if ev['k'] == 'return' and ev.get('val') is not None:
                c = cf.strip_casts(ev['val'])
                if isinstance(c, dict) and c.get('k') == 'call' and c.get('fn') and c['fn'] != H.name and c['fn'] not in HELPER_SKIP \
                        and P.has(H.tu, c['fn']):
                    yield P.func(H.tu, c['fn'])


def _sets_errno(P, H, depth=0):
    if any(True for _ in H.calls('imb_set_errno')):
        return True
    return depth < 2 and any(_sets_errno(P, D, depth + 1) for D in _delegates(P, H))


def _reject_values(P, H, depth=0):
    rvals = set()
    for hb in H.blocks.values():
        hg = is_guard_block(hb, func=H)
        if hg:
            rvals.add(cf.evalc(hg[1]) if hg[1] is not None else None)
    if depth < 2:
        for D in _delegates(P, H):
            rvals |= _reject_values(P, D, depth + 1)
    return rvals


def _catalogue(func, depth=0):
    out = []
    dom = func.dominators()
    cctx = case_contexts(func)
    for bid, b in func.blocks.items():
        g = is_guard_block(b, func=func)
        if not g:
            continue
        err, ret, cev = g
        own = None
        for p in func.pred[bid]:
            t = func.blocks[p].get('term')
            if t and t['kind'] == 'IfStmt' and func.blocks[p]['succ'][0] == bid and 'fullcond' in t:
                own = (p, t['fullcond'])
        ctx = _ctx_of(func, dom, bid, own[0] if own else None)
        alts = [([], None)]
        if own:
            alts = split_ternary(expand(func, own[1], own[0]))
        for extra, tree in alts:
            xc = [canon(c_, not pol) for c_, pol in extra]
            g = {
                'block': bid, 'err': cf.strip_casts(err).get('enum') or lv(err), 'errval': cf.evalc(err),
                'ret': cf.evalc(ret) if ret is not None else None,
                'cond': canon(tree) if own else None, 'ctx': sorted(ctx + xc), 'cases': cctx.get(bid, {}),
                'loc': cev.get('sloc') or cev['loc'], 'unconditional': own is None, 'expr': own[1] if (own and not extra) else None,
                'catoms': case_atoms(func, cctx.get(bid, {})),
            }
            out.append(g)
    # checks factored out into a helper: `if (helper(args)) return <reject>;` contributes the helper's guards, with the helper's
    # parameters expressed through the arguments, under the context of the call
    P = cf.PROGRAM[0]
    if P is not None and depth < 2:
        for bid, b in func.blocks.items():
            t = b.get('term')
            if not t or t['kind'] != 'IfStmt' or len(b['succ']) != 2 or b['succ'][0] is None:
                continue
            c = cf.strip_casts(t.get('cond'))
            while isinstance(c, dict) and c.get('k') == 'bin' and c['op'] in ('&&', '||'):
                c = cf.strip_casts(c['r'])
            neg = False
            if isinstance(c, dict) and c.get('k') == 'un' and c['op'] == '!':
                c, neg = cf.strip_casts(c['e']), True
            if isinstance(c, dict) and c.get('k') == 'bin' and c['op'] in ('!=', '==') and cf.evalc(c['r']) == 0:
                neg = neg != (c['op'] == '==')
                c = cf.strip_casts(c['l'])
            if not (isinstance(c, dict) and c.get('k') == 'call' and c.get('fn')) or c['fn'] in HELPER_SKIP or c['fn'] == func.name:
                continue
            if not P.has(func.tu, c['fn']):
                continue
            H = P.func(func.tu, c['fn'])
            if not _sets_errno(P, H):
                continue
            # which value does the helper return when it rejects?  `return 1 / -1` (an "is invalid" predicate) or `return 0` (an "is valid" one)
            rvals = _reject_values(P, H)
            rejects_with_zero = bool(rvals) and rvals <= {0}
            if rejects_with_zero:
                rej = b['succ'][0] if neg else b['succ'][1]
            else:
                rej = b['succ'][1] if neg else b['succ'][0]
            if rej is None or not any(ev['k'] == 'return' for ev in func.blocks[rej]['ev']):
                continue
            psub = {}
            for i, prm in enumerate(H.params):
                if i < len(c.get('a', [])):
                    psub[prm['name']] = lv(c['a'][i])
            site_ctx = _ctx_of(func, dom, bid, None)
            site_cases = cctx.get(bid, {})
            _PSUB.append(psub)
            try:
                with in_function(H, abstract=bool(_ABSMODE and _ABSMODE[-1])):
                    hcat = _catalogue(H, depth + 1)
            finally:
                _PSUB.pop()
            for g in hcat:
                g2 = dict(g)
                cs = dict(site_cases)
                cs.update(g['cases'])
                g2['cases'] = cs
                g2['ctx'] = sorted(site_ctx + g['ctx'])
                g2['catoms'] = case_atoms(func, site_cases) + g['catoms']
                g2['via'] = H.name
                g2['block'] = bid
                out.append(g2)
        # delegation: `return helper(args);` hands the helper's verdict on unchanged
        for bid, b in func.blocks.items():
            for ev in b['ev']:
                if ev['k'] != 'return' or ev.get('val') is None:
                    continue
                c = cf.strip_casts(ev['val'])
                if not (isinstance(c, dict) and c.get('k') == 'call' and c.get('fn')) or c['fn'] in HELPER_SKIP or c['fn'] == func.name:
                    continue
                if not P.has(func.tu, c['fn']):
                    continue
                H = P.func(func.tu, c['fn'])
                if not _sets_errno(P, H):
                    continue
                psub = {}
                for i, prm in enumerate(H.params):
                    if i < len(c.get('a', [])):
                        psub[prm['name']] = lv(c['a'][i])
                site_ctx = _ctx_of(func, dom, bid, None)
                site_cases = cctx.get(bid, {})
                _PSUB.append(psub)
                try:
                    with in_function(H, abstract=bool(_ABSMODE and _ABSMODE[-1])):
                        hcat = _catalogue(H, depth + 1)
                finally:
                    _PSUB.pop()
                for g in hcat:
                    g2 = dict(g)
                    cs = dict(site_cases)
                    cs.update(g['cases'])
                    g2['cases'] = cs
                    g2['ctx'] = sorted(site_ctx + g['ctx'])
                    g2['catoms'] = case_atoms(func, site_cases) + g['catoms']
                    g2['via'] = H.name
                    g2['block'] = bid
                    out.append(g2)
    return out
