"""Inputs rebuilt from /repo's current working tree: compile database, cfacts JSON, macro bindings,
assembled objects, disassembly.  Everything lives in a scratch directory outside /repo and /verif
that is removed on exit; only small derived fact files are kept in a content-addressed cache
(/verif/.factcache/<sha256 of every input byte>/), so that the 18 checks share one extraction when
the tree has not changed between them.  A changed byte anywhere under /repo/lib, /repo/cmake or
/repo/CMakeLists.txt, or in the extractor itself, misses the cache."""
import re, atexit, hashlib, json, os, pickle, shlex, shutil, subprocess, sys, tempfile, time
from concurrent.futures import ThreadPoolExecutor

REPO = os.environ.get('IMBV_REPO', '/repo')
VERIF = os.path.dirname(os.path.dirname(os.path.abspath(__file__)))
CFACTS = os.path.join(VERIF, 'build', 'cfacts')
CACHE_ROOT = os.path.join(VERIF, '.factcache')


def _read_extractors():
    out = {}
    d = os.path.join(VERIF, 'imbv')
    for f in sorted(os.listdir(d)):
        if f == 'build.py' or f.startswith('asm'):
            try:
                out[f] = open(os.path.join(d, f), 'rb').read()
            except OSError:
                pass
    return out


_EXTRACTOR_SRC = _read_extractors()     # as loaded: cache keys name the code version that computes the facts
NPROC = min(16, os.cpu_count() or 4)


class AnalysisBroken(Exception):
    """anchor vanished / extractor failed / instance floor not met: exit 2, never pass or violation"""


_scratch = None


def scratch():
    global _scratch
    if _scratch is None:
        base = '/var/tmp' if os.path.isdir('/var/tmp') else tempfile.gettempdir()
        _scratch = tempfile.mkdtemp(prefix='imbverif.', dir=base)
        atexit.register(lambda: shutil.rmtree(_scratch, ignore_errors=True))
    return _scratch


def _input_files():
    out = []
    for root in ('lib', 'cmake'):
        for d, dn, fs in os.walk(os.path.join(REPO, root)):
            dn.sort()
            for f in sorted(fs):
                out.append(os.path.join(d, f))
    out.append(os.path.join(REPO, 'CMakeLists.txt'))
    return out


_tree_key = None


def tree_key():
    global _tree_key
    if _tree_key is None:
        h = hashlib.sha256()
        for p in _input_files():
            try:
                with open(p, 'rb') as f:
                    data = f.read()
            except OSError:
                continue
            h.update(p.encode() + b'\0' + str(len(data)).encode() + b'\0')
            h.update(data)
        # the extractors are inputs too
        for f in sorted(_EXTRACTOR_SRC):
            h.update(_EXTRACTOR_SRC[f])
        for p in [CFACTS]:
            if os.path.isdir(p):
                for f in sorted(os.listdir(p)):
                    if f.endswith('.py'):
                        h.update(open(os.path.join(p, f), 'rb').read())
            elif os.path.exists(p):
                h.update(open(p, 'rb').read())
        _tree_key = h.hexdigest()[:32]
    return _tree_key


_asm_key = None


def asm_key():
    """key of everything the assembled objects depend on (NASM sources and includes, the build description, the object-level
    extractors), independent of where the tree lies: a C-only change re-uses the object-level facts"""
    global _asm_key
    if _asm_key is None:
        h = hashlib.sha256()
        for p in _input_files():
            rel = os.path.relpath(p, REPO)
            if not (rel.endswith(('.asm', '.inc', '.cmake', '.txt', '.in')) or rel.startswith('cmake')):
                continue
            try:
                with open(p, 'rb') as f:
                    data = f.read()
            except OSError:
                continue
            h.update(rel.encode() + b'\0' + str(len(data)).encode() + b'\0')
            h.update(data)
        for f in sorted(_EXTRACTOR_SRC):
            h.update(_EXTRACTOR_SRC[f])
        _asm_key = 'asm-' + h.hexdigest()[:28]
    return _asm_key


def cache_dir(name=None):
    if name == 'asm_stage':
        d = os.path.join(CACHE_ROOT, asm_key())
        os.makedirs(d, exist_ok=True)
        return d
    d = os.path.join(CACHE_ROOT, tree_key())
    if not os.path.isdir(d):
        os.makedirs(d, exist_ok=True)
        # keep the cache small: drop other keys, oldest first, but never one touched within the last two hours — a concurrent check
        # (self-test and probe drivers run several trees at once) may be working in it
        try:
            now = time.time()
            others = sorted((os.path.getmtime(os.path.join(CACHE_ROOT, x)), x) for x in os.listdir(CACHE_ROOT)
                            if x != tree_key() and not x.startswith(('asm-', 'asmobj-')))
            asms = sorted((os.path.getmtime(os.path.join(CACHE_ROOT, x)), x) for x in os.listdir(CACHE_ROOT) if x.startswith('asm-'))
            for mt, x in asms[:-4]:
                if now - mt > 7200:
                    shutil.rmtree(os.path.join(CACHE_ROOT, x), ignore_errors=True)
            for mt, x in others[:-3]:
                if now - mt > 7200:
                    shutil.rmtree(os.path.join(CACHE_ROOT, x), ignore_errors=True)
        except OSError:
            pass
    return d


def use_cache():
    return os.environ.get('IMBV_NOCACHE', '') == ''


def cached(name, producer, binary=True):
    """producer() -> python object; stored pickled under the tree key"""
    if name in _MEM:
        return _MEM[name]
    obj = _cached(name, producer)
    _MEM[name] = obj
    return obj


_MEM = {}


def _cached(name, producer):
    path = os.path.join(cache_dir(name), name + '.pkl')
    if use_cache() and os.path.exists(path):
        try:
            with open(path, 'rb') as f:
                return pickle.load(f)
        except Exception:
            pass
    obj = producer()
    tmp = path + '.%d.tmp' % os.getpid()
    with open(tmp, 'wb') as f:
        pickle.dump(obj, f, protocol=4)
    os.replace(tmp, path)
    return obj


def run(cmd, **kw):
    return subprocess.run(cmd, capture_output=True, text=True, **kw)


# ---------------------------------------------------------------------------------------------
# compile database

def _gen_cdb():
    cfg = os.path.join(scratch(), 'cfg')
    if not os.path.exists(os.path.join(cfg, 'compile_commands.json')):
        r = run(['cmake', '-G', 'Ninja', '-S', REPO, '-B', cfg, '-DCMAKE_EXPORT_COMPILE_COMMANDS=ON'])
        if r.returncode != 0:
            raise AnalysisBroken('cmake configure failed: ' + r.stderr[-2000:])
    with open(os.path.join(cfg, 'compile_commands.json')) as f:
        db = json.load(f)
    ents = []
    for e in db:
        f = e['file']
        if not f.startswith(os.path.join(REPO, 'lib') + '/'):
            continue
        args = shlex.split(e['command']) if 'command' in e else e['arguments']
        ents.append({'file': f, 'args': args, 'output': e.get('output', '')})
    if len([e for e in ents if e['file'].endswith('.c')]) < 40 or len(
            [e for e in ents if e['file'].endswith('.asm')]) < 250:
        raise AnalysisBroken('compile database smaller than expected: %d entries' % len(ents))
    return ents


def cdb():
    return cached('cdb', _gen_cdb)


def c_entries():
    ents = [e for e in cdb() if e['file'].endswith('.c')]
    # avx2_t4 is not built on this image (nasm < 2.16.02 => SMX_NI off); its C unit is analysed with
    # the avx2_t3 flags + -DSMX_NI.  Its assembly cannot be assembled here.
    t4 = os.path.join(REPO, 'lib/avx2_t4/mb_mgr_avx2_t4.c')
    if os.path.exists(t4) and not any(e['file'] == t4 for e in ents):
        for e in ents:
            if e['file'].endswith('/avx2_t3/mb_mgr_avx2_t3.c'):
                args = [a.replace('avx2_t3/mb_mgr_avx2_t3', 'avx2_t4/mb_mgr_avx2_t4') for a in e['args']]
                args.insert(1, '-DSMX_NI')
                ents.append({'file': t4, 'args': args, 'output': e['output'].replace('avx2_t3/mb_mgr_avx2_t3',
                                                                                      'avx2_t4/mb_mgr_avx2_t4'),
                             'synthetic': True})
    return ents


def asm_entries():
    return [e for e in cdb() if e['file'].endswith('.asm')]


def _clang_flags(args):
    """-D/-I/-U/-m/-std flags of a DB entry, usable by clang tools"""
    out = []
    i = 1
    while i < len(args):
        a = args[i]
        if a in ('-o', '-c', '-MF', '-MT', '-MD'):
            i += 2 if a in ('-o', '-MF', '-MT') else 1
            continue
        if a.startswith(('-D', '-I', '-U', '-m', '-std=')):
            out.append(a)
        i += 1
    return out


# ---------------------------------------------------------------------------------------------
# cfacts

def _tu_key(path):
    rel = os.path.relpath(path, os.path.join(REPO, 'lib'))
    return rel.replace('/', '__')


def _run_cfacts_one(e):
    out = os.path.join(scratch(), 'facts', _tu_key(e['file']) + '.json')
    os.makedirs(os.path.dirname(out), exist_ok=True)
    flags = _clang_flags(e['args'])
    cmd = [CFACTS, '-o', out, '--path-prefix', os.path.join(REPO, 'lib'), e['file'], '--'] + flags + \
          ['-Wno-everything', '-I/usr/lib/llvm-14/lib/clang/14.0.6/include']
    r = run(cmd)
    if r.returncode != 0 or not os.path.exists(out):
        raise AnalysisBroken('cfacts failed on %s: %s' % (e['file'], r.stderr[-1500:]))
    with open(out) as f:
        data = json.load(f)
    os.unlink(out)
    return _tu_key(e['file']), data


def _gen_cfacts():
    if not os.path.exists(CFACTS):
        raise AnalysisBroken('cfacts binary missing: run setup.sh')
    ents = c_entries()
    with ThreadPoolExecutor(NPROC) as ex:
        res = list(ex.map(_run_cfacts_one, ents))
    return dict(res)


_cfacts_mem = None


def cfacts():
    """dict tu_key -> facts"""
    global _cfacts_mem
    if _cfacts_mem is None:
        _cfacts_mem = cached('cfacts', _gen_cfacts)
    return _cfacts_mem


# ---------------------------------------------------------------------------------------------
# macro bindings (final value of every object-like macro in each variant TU)

def _gen_macros():
    res = {}

    def one(e):
        flags = _clang_flags(e['args'])
        r = run(['clang', '-dM', '-E', '-x', 'c', e['file']] + flags + ['-Wno-everything'])
        if r.returncode != 0:
            raise AnalysisBroken('clang -dM -E failed on %s: %s' % (e['file'], r.stderr[-800:]))
        m = {}
        for line in r.stdout.splitlines():
            p = line.split(None, 2)
            if len(p) >= 2 and p[0] == '#define' and '(' not in p[1]:
                m[p[1]] = p[2].strip() if len(p) > 2 else ''
        return _tu_key(e['file']), m

    ents = [e for e in c_entries() if os.path.basename(e['file']).startswith('mb_mgr_')]
    with ThreadPoolExecutor(NPROC) as ex:
        for k, m in ex.map(one, ents):
            res[k] = m
    return res


def macros():
    return cached('macros', _gen_macros)


# ---------------------------------------------------------------------------------------------
# objects

def build_asm_objects(extra_undef=(), tag='asm'):
    """assemble every lib asm unit with the DB's exact nasm command into scratch; returns {src: obj}"""
    outdir = os.path.join(scratch(), 'obj_' + tag)
    os.makedirs(outdir, exist_ok=True)
    ents = asm_entries()

    def one(e):
        out = os.path.join(outdir, _tu_key(e['file']) + '.o')
        args = []
        skip = False
        for a in e['args']:
            if skip:
                skip = False
                continue
            if a == '-o':
                skip = True
                continue
            if a in extra_undef:
                continue
            args.append(a)
        # args ends with the source file
        cmd = args[:-1] + ['-o', out, args[-1]]
        r = run(cmd)
        if r.returncode != 0:
            raise AnalysisBroken('nasm failed on %s: %s' % (e['file'], r.stderr[-800:]))
        return e['file'], out

    with ThreadPoolExecutor(NPROC) as ex:
        return dict(ex.map(one, ents))


_INC_RE = re.compile(r'^\s*%\s*include\s+"([^"]+)"', re.M | re.I)
_dep_memo = {}


def asm_source_key(e):
    """key of one NASM unit: its flags and the contents of the unit and of every file it (transitively, under any condition)
    %includes, addressed relative to the tree — identical keys assemble to identical code wherever the tree lies"""
    incdirs = [a[2:] for a in e['args'] if a.startswith('-I')]
    seen = {}
    st = [e['file']]
    while st:
        p = st.pop()
        if p in seen:
            continue
        try:
            if p not in _dep_memo:
                with open(p, 'r', errors='replace') as f:
                    txt = f.read()
                _dep_memo[p] = (hashlib.sha256(txt.encode('utf-8', 'replace')).hexdigest(), _INC_RE.findall(txt))
        except OSError:
            seen[p] = 'missing'
            continue
        h, incs = _dep_memo[p]
        seen[p] = h
        for inc in incs:
            for d in [os.path.dirname(p)] + incdirs:
                q = os.path.normpath(os.path.join(d, inc))
                if os.path.exists(q):
                    st.append(q)
                    break
    h = hashlib.sha256()
    flags = [a.replace(REPO, '$R') for a in e['args'][:-1] if not a.endswith('.o')]
    h.update(repr(flags).encode())
    for p in sorted(seen):
        h.update((os.path.relpath(p, REPO) + ':' + seen[p] + '\n').encode())
    return h.hexdigest()[:32]


def assemble(entries, tag='asm'):
    """assemble the given DB entries into scratch; returns {src: obj}"""
    outdir = os.path.join(scratch(), 'obj_' + tag)
    os.makedirs(outdir, exist_ok=True)

    def one(e):
        out = os.path.join(outdir, _tu_key(e['file']) + '.o')
        args = []
        skip = False
        for a in e['args']:
            if skip:
                skip = False
                continue
            if a == '-o':
                skip = True
                continue
            args.append(a)
        cmd = args[:-1] + ['-o', out, args[-1]]
        r = run(cmd)
        if r.returncode != 0:
            raise AnalysisBroken('nasm failed on %s: %s' % (e['file'], r.stderr[-800:]))
        return e['file'], out
    with ThreadPoolExecutor(NPROC) as ex:
        return dict(ex.map(one, entries))


def build_c_objects(tag='cobj'):
    outdir = os.path.join(scratch(), 'obj_' + tag)
    os.makedirs(outdir, exist_ok=True)
    ents = [e for e in c_entries() if not e.get('synthetic')]

    def one(e):
        out = os.path.join(outdir, _tu_key(e['file']) + '.o')
        args = []
        skip = False
        for a in e['args']:
            if skip:
                skip = False
                continue
            if a == '-o':
                skip = True
                continue
            args.append(a)
        cmd = args + ['-o', out]
        r = run(cmd)
        if r.returncode != 0:
            raise AnalysisBroken('cc failed on %s: %s' % (e['file'], r.stderr[-800:]))
        return e['file'], out

    with ThreadPoolExecutor(NPROC) as ex:
        return dict(ex.map(one, ents))
