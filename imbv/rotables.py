"""Constant tables of the assembled units: every labelled range of a non-executable, allocated section of every NASM object,
reduced to a canonical form that does not depend on how often a constant is replicated (an xmm, ymm and zmm copy of one
constant agree) or on alignment padding after it.  Used by the sibling rule N5 (rules/clones.py): copies of one named constant
kept in many units must agree.  No code is executed; the bytes are read from the objects NASM produced."""
import hashlib
import json
import os
import re
import subprocess
from concurrent.futures import ThreadPoolExecutor

from . import build

_SEC = re.compile(r'^\s*\[\s*(\d+)\]\s+(\S+)\s+(\S+)\s+([0-9a-f]+)\s+([0-9a-f]+)\s+([0-9a-f]+)\s+\S+\s+(\S*)')


_PAD = re.compile(rb'(?:\x00|\x66*\x90)+$')     # what NASM's align/alignb fill a data section with


def canonical(b):
    """smallest power-of-two period whose repetition (followed by alignment padding) gives the bytes; trailing padding dropped"""
    c = _PAD.sub(b'', b)
    if not c:
        return b''
    p = 1
    while p < len(c):
        pat = c[:p]
        rep = (pat * (len(c) // p + 1))[:len(c)]
        if rep == c:
            return _PAD.sub(b'', pat)
        # the pattern's own trailing zeros may have been stripped from the last copy only
        p *= 2
    return c


def _tables_of(obj):
    secs = subprocess.run(['readelf', '-SW', obj], capture_output=True, text=True).stdout
    secidx = {}
    for l in secs.splitlines():
        m = _SEC.match(l)
        if m and m.group(3) == 'PROGBITS' and 'A' in m.group(7) and 'X' not in m.group(7):
            secidx[int(m.group(1))] = (m.group(2), int(m.group(5), 16), int(m.group(6), 16))
    if not secidx:
        return []
    syms = {}
    out = subprocess.run(['readelf', '-sW', obj], capture_output=True, text=True).stdout
    for l in out.splitlines():
        f = l.split()
        if len(f) >= 8 and f[6].isdigit() and int(f[6]) in secidx and f[3] in ('NOTYPE', 'OBJECT'):
            syms.setdefault(int(f[6]), []).append((int(f[1], 16), f[7]))
    data = open(obj, 'rb').read()
    res = []
    for si, ls in syms.items():
        nm, off, sz = secidx[si]
        ls.sort()
        for k, (a, name) in enumerate(ls):
            e = sz
            for a2, _ in ls[k + 1:]:
                if a2 > a:
                    e = a2
                    break
            if e > a:
                raw = data[off + a:off + e]
                c = canonical(raw)
                res.append({'name': name, 'sec': nm, 'raw': len(raw), 'len': len(c), 'digest': hashlib.sha256(c).hexdigest()[:16],
                            'canon': c.hex(), 'v': 3})
    return res


def tables():
    """{asm source relative to the tree: [table dicts]} for every NASM unit of the build"""
    ents = build.asm_entries()
    cdir = build.CACHE_ROOT.rstrip('/') + '-rotab'     # beside the main cache, whose pruning does not know this directory
    use = build.use_cache()
    if use:
        os.makedirs(cdir, exist_ok=True)
    res = {}
    todo = []
    for e in ents:
        rel = os.path.relpath(e['file'], build.REPO)
        k = build.asm_source_key(e)
        p = os.path.join(cdir, k + '.json')
        if use and os.path.exists(p):
            try:
                res[rel] = json.load(open(p))
                continue
            except ValueError:
                pass
        todo.append((e, rel, p))
    if todo:
        objs = build.assemble([e for e, _, _ in todo], tag='rotab')
        with ThreadPoolExecutor(build.NPROC) as ex:
            outs = list(ex.map(lambda t: _tables_of(objs[t[0]['file']]), todo))
        for (e, rel, p), t in zip(todo, outs):
            res[rel] = t
            if use:
                tmp = p + '.%d' % os.getpid()
                json.dump(t, open(tmp, 'w'))
                os.replace(tmp, p)
        for o in objs.values():
            try:
                os.remove(o)
            except OSError:
                pass
    return res
