"""Helpers over cfacts output: function/CFG objects, expression-tree utilities, constant pruning,
dominators, path queries."""
import re
from . import build
from .build import AnalysisBroken


# ------------------------------------------------------------------ expression trees

def walk(e):
    """all sub-nodes of an expression tree, pre-order"""
    if not isinstance(e, dict):
        return
    st = [e]
    while st:
        n = st.pop()
        yield n
        for k in ('b', 'i', 'e', 'l', 'r', 'c', 't', 'f', 'callee'):
            v = n.get(k)
            if isinstance(v, dict):
                st.append(v)
        a = n.get('a')
        if isinstance(a, list):
            for x in a:
                if isinstance(x, dict):
                    st.append(x)


def render(e):
    if e is None:
        return '?'
    k = e.get('k')
    if k == 'int':
        return e.get('enum') or e.get('text') or str(e.get('v'))
    if k == 'ref':
        return e['n']
    if k == 'mem':
        return render(e['b']) + ('->' if e.get('arrow') else '.') + e['f']
    if k == 'idx':
        return '%s[%s]' % (render(e['b']), render(e['i']))
    if k == 'un':
        return (render(e['e']) + e['op']) if e.get('post') else (e['op'] + render(e['e']))
    if k == 'bin':
        return '(%s %s %s)' % (render(e['l']), e['op'], render(e['r']))
    if k == 'call':
        return '%s(%s)' % (e.get('fn') or render(e.get('callee')), ', '.join(render(a) for a in e.get('a', [])))
    if k == 'cast':
        return '(%s)%s' % (e['ty'], render(e['e']))
    if k == 'cond':
        return '(%s ? %s : %s)' % (render(e['c']), render(e['t']), render(e['f']))
    if k == 'str':
        return '"%s"' % e.get('v', '')
    return e.get('text', '<%s>' % k)


def strip_casts(e):
    while isinstance(e, dict) and e.get('k') == 'cast':
        e = e['e']
    return e


def chain(e):
    """(base_ref_name | None, [path components]) for ref/mem/idx/deref chains.
    job->u.CCM.aad -> ('job', ['u','CCM','aad']); state->lens[i] -> ('state', ['lens','[]']); *p -> ('p',['*'])"""
    path = []
    e = strip_casts(e)
    while isinstance(e, dict):
        k = e.get('k')
        if k == 'mem':
            path.append(e['f'])
            e = strip_casts(e['b'])
        elif k == 'idx':
            path.append('[]')
            e = strip_casts(e['b'])
        elif k == 'un' and e['op'] == '*':
            path.append('*')
            e = strip_casts(e['e'])
        elif k == 'un' and e['op'] == '&':
            path.append('&')
            e = strip_casts(e['e'])
        elif k == 'ref':
            return e['n'], list(reversed(path))
        else:
            return None, list(reversed(path))
    return None, list(reversed(path))


def base_ref(e):
    """the ref node at the root of a member/index/deref chain (or None)"""
    e = strip_casts(e)
    while isinstance(e, dict):
        k = e.get('k')
        if k in ('mem', 'idx'):
            e = strip_casts(e['b'])
        elif k == 'un' and e['op'] in ('*', '&'):
            e = strip_casts(e['e'])
        elif k == 'bin' and e['op'] in ('+', '-'):
            e = strip_casts(e['l'])
        elif k == 'ref':
            return e
        else:
            return None
    return None


def is_int(e, v=None):
    e = strip_casts(e)
    return isinstance(e, dict) and e.get('k') == 'int' and (v is None or e.get('v') == v)


def mem_fields(e):
    """names of all struct fields mentioned anywhere in an expression"""
    return [n['f'] for n in walk(e) if n.get('k') == 'mem']


def calls_in(e):
    return [n for n in walk(e) if n.get('k') == 'call']


def evalc(e, env=None):
    """constant value of e under env {name: int}; None if unknown"""
    e = strip_casts(e)
    if not isinstance(e, dict):
        return None
    k = e.get('k')
    if k == 'int':
        return e.get('v')
    if k == 'ref':
        if env and e['n'] in env:
            return env[e['n']]
        return None
    if k == 'mem':
        # env may fix a structure member whatever the object expression: {'.used_arch': 3}
        if env and ('.' + e.get('f', '')) in env:
            return env['.' + e['f']]
        return None
    if k == 'un':
        v = evalc(e['e'], env)
        if v is None:
            return None
        return {'!': int(not v), '-': -v, '~': ~v, '+': v}.get(e['op'])
    if k == 'bin':
        op = e['op']
        l = evalc(e['l'], env)
        if op == '&&':
            if l == 0:
                return 0
            r = evalc(e['r'], env)
            if r == 0:
                return 0
            if l is not None and r is not None:
                return 1
            return None
        if op == '||':
            if l not in (None, 0):
                return 1
            r = evalc(e['r'], env)
            if r not in (None, 0):
                return 1
            if l == 0 and r == 0:
                return 0
            return None
        r = evalc(e['r'], env)
        if l is None or r is None:
            return None
        try:
            return {'==': lambda: int(l == r), '!=': lambda: int(l != r), '<': lambda: int(l < r),
                    '>': lambda: int(l > r), '<=': lambda: int(l <= r), '>=': lambda: int(l >= r),
                    '+': lambda: l + r, '-': lambda: l - r, '*': lambda: l * r, '&': lambda: l & r,
                    '|': lambda: l | r, '^': lambda: l ^ r, '<<': lambda: l << r, '>>': lambda: l >> r,
                    '/': lambda: l // r if r else None, '%': lambda: l % r if r else None}[op]()
        except KeyError:
            return None
    if k == 'cond':
        c = evalc(e['c'], env)
        if c is None:
            return None
        return evalc(e['t'] if c else e['f'], env)
    return None


# ------------------------------------------------------------------ functions / CFG

class Func:
    def __init__(self, tu, raw):
        self.tu = tu
        self.raw = raw
        self.name = raw['name']
        self.loc = raw.get('loc', '?')
        self.params = raw.get('params', [])
        self.blocks = {b['id']: b for b in raw.get('blocks', [])}
        self.entry = raw.get('entry')
        self.exit = raw.get('exit')
        self._pred = None
        self._dom = None
        self._pdom = None

    def succ(self, bid):
        return [s for s in self.blocks[bid]['succ'] if s is not None]

    def succ_raw(self, bid):
        return self.blocks[bid]['succ']

    @property
    def pred(self):
        if self._pred is None:
            p = {b: [] for b in self.blocks}
            for b in self.blocks:
                for s in self.succ(b):
                    p[s].append(b)
            self._pred = p
        return self._pred

    def events(self, kinds=None):
        """(block id, index, event) in block order (not path order)"""
        for bid in sorted(self.blocks, reverse=True):
            for i, ev in enumerate(self.blocks[bid]['ev']):
                if kinds is None or ev['k'] in kinds:
                    yield bid, i, ev

    def calls(self, name=None):
        for bid, i, ev in self.events(('call',)):
            if name is None or ev['e'].get('fn') == name:
                yield bid, i, ev

    def param_index(self, name):
        for i, p in enumerate(self.params):
            if p['name'] == name:
                return i
        return None

    # ---- single-definition locals (aliases)
    def scoped_decls(self):
        """{name: [(block, init expr)]} for locals that are only ever defined by declarations with a call-free initialiser (several
        declarations of one name in sibling scopes are fine), never assigned, incremented or address-taken"""
        if getattr(self, '_scoped', None) is None:
            decls = {}
            bad = set()
            for bid, _, ev in self.events():
                if ev['k'] == 'decl':
                    for d in ev['d']:
                        i_ = d.get('init')
                        if i_ is not None and not calls_in(i_) and strip_casts(i_).get('k') != 'initlist':
                            decls.setdefault(d['n'], []).append((bid, i_))
                        else:
                            bad.add(d['n'])
                elif ev['k'] == 'assign':
                    l = strip_casts(ev['lhs'])
                    if isinstance(l, dict) and l.get('k') == 'ref':
                        bad.add(l['n'])
                for k in ('e', 'lhs', 'rhs', 'val'):
                    if ev.get(k) is not None:
                        for n in walk(ev[k]):
                            if n.get('k') == 'un' and n.get('op') == '&':
                                x = strip_casts(n['e'])
                                if isinstance(x, dict) and x.get('k') == 'ref':
                                    bad.add(x['n'])
            pn = {p['name'] for p in self.params}
            self._scoped = {n: v for n, v in decls.items() if n not in bad and n not in pn}
        return self._scoped

    def expand(self, e, bid, depth=0):
        """tree with every local that has exactly one dominating call-free declaration replaced by its initialiser"""
        sd = self.scoped_decls()
        if not sd or depth > 4 or e is None:
            return e
        dom = self.dominators()

        def go(x):
            if isinstance(x, list):
                return [go(y) for y in x]
            if not isinstance(x, dict):
                return x
            if x.get('k') == 'ref' and not x.get('p') and not x.get('g') and x.get('n') in sd:
                cands = [(b, i_) for b, i_ in sd[x['n']] if b in dom.get(bid, ())]
                if len(cands) == 1:
                    return self.expand(cands[0][1], cands[0][0], depth + 1)
                return x
            return {k: (go(v) if isinstance(v, (dict, list)) else v) for k, v in x.items()}
        return go(e)

    # ---- pruned edges under a constant environment
    def edges(self, bid, env=None):
        """successors of a block, with branches decided by constants in env pruned.
        returns list of (succ, edge_label) where edge_label is 'T'/'F'/('case',v)/'default'/None"""
        b = self.blocks[bid]
        su = b['succ']
        t = b.get('term')
        if not t:
            return [(s, None) for s in su if s is not None]
        kind = t['kind']
        cond = t.get('cond')
        if env and cond is not None:
            # a condition over a local that only abbreviates an expression (const int is_128 = (16 == key_sz)) is decided like
            # the expression itself
            memo = self.__dict__.setdefault('_xcond', {})
            if bid not in memo:
                memo[bid] = self.expand(cond, bid)
            cond = memo[bid]
        if kind in ('IfStmt', 'ConditionalOperator', 'WhileStmt', 'ForStmt', 'DoStmt', 'BinaryOperator') and len(su) == 2:
            v = evalc(cond, env) if cond is not None else None
            if kind == 'BinaryOperator':
                # && : succ[0] = rhs evaluated (lhs true), succ[1] = short-circuit (lhs false)
                # || : succ[0] = short-circuit (lhs true), succ[1] = rhs evaluated
                pass
            out = []
            if v is None or v != 0:
                if su[0] is not None:
                    out.append((su[0], 'T'))
            if v is None or v == 0:
                if su[1] is not None:
                    out.append((su[1], 'F'))
            return out
        if kind == 'SwitchStmt':
            v = evalc(cond, env) if cond is not None else None
            out = []
            matched = False
            dflt = None
            for s in su:
                if s is None:
                    continue
                lab = self.blocks[s].get('label') or {}
                if lab.get('kind') == 'CaseStmt':
                    lo = evalc(lab.get('case'))
                    hi = evalc(lab.get('case_hi')) if lab.get('case_hi') else lo
                    if v is None:
                        out.append((s, ('case', lo)))
                    elif lo is not None and lo <= v <= hi:
                        out.append((s, ('case', lo)))
                        matched = True
                else:
                    dflt = s
            if dflt is not None and (v is None or not matched):
                out.append((dflt, 'default'))
            return out
        return [(s, None) for s in su if s is not None]

    def reachable(self, start=None, env=None, stop=None):
        """block ids reachable from start (entry by default) with constant pruning; stop(bid)->True cuts"""
        start = self.entry if start is None else start
        seen = set()
        st = [start]
        while st:
            b = st.pop()
            if b in seen:
                continue
            seen.add(b)
            if stop and stop(b):
                continue
            for s, _ in self.edges(b, env):
                st.append(s)
        return seen

    def dominators(self):
        if self._dom is None:
            self._dom = _dominators(self.entry, self.blocks.keys(), lambda b: self.succ(b), self.pred)
        return self._dom

    def dominators_env(self, env):
        """dominators on the CFG pruned by the constant environment env"""
        if not env:
            return self.dominators()
        succ = {b: [s for s, _ in self.edges(b, env)] for b in self.blocks}
        pred = {b: [] for b in self.blocks}
        for b, ss in succ.items():
            for s_ in ss:
                pred[s_].append(b)
        return _dominators(self.entry, self.blocks.keys(), lambda b: succ[b], pred)

    def guarding_param_env(self, bid):
        """{param: 0/1} for bare-parameter conditions (`if (run_check)`) whose taken branch dominates block bid"""
        dom = self.dominators()
        env = {}
        pn = {p['name'] for p in self.params}
        for d in dom.get(bid, ()):
            t = self.blocks[d].get('term')
            if not t or t['kind'] != 'IfStmt' or d == bid:
                continue
            c = strip_casts(t.get('fullcond') or t.get('cond'))
            su = self.blocks[d]['succ']
            if not isinstance(c, dict) or len(su) != 2:
                continue
            neg = False
            if c.get('k') == 'un' and c['op'] == '!':
                c = strip_casts(c['e'])
                neg = True
            if c.get('k') == 'ref' and c['n'] in pn:
                if su[0] in dom[bid] and su[1] not in dom[bid]:
                    env[c['n']] = 0 if neg else 1
                elif su[1] in dom[bid] and su[0] not in dom[bid]:
                    env[c['n']] = 1 if neg else 0
        return env

    def postdominators(self):
        if self._pdom is None:
            succ = {b: self.succ(b) for b in self.blocks}
            self._pdom = _dominators(self.exit, self.blocks.keys(), lambda b: self.pred[b], succ)
        return self._pdom


def _dominators(entry, nodes, succ, pred):
    nodes = list(nodes)
    # reachable from entry
    seen = set()
    st = [entry]
    while st:
        b = st.pop()
        if b in seen:
            continue
        seen.add(b)
        st.extend(succ(b))
    dom = {n: set(seen) for n in seen}
    dom[entry] = {entry}
    changed = True
    while changed:
        changed = False
        for n in seen:
            if n == entry:
                continue
            ps = [p for p in pred[n] if p in seen]
            new = set.intersection(*(dom[p] for p in ps)) if ps else set()
            new = new | {n}
            if new != dom[n]:
                dom[n] = new
                changed = True
    return dom


class Program:
    """all TUs"""

    def __init__(self, facts=None):
        self.facts = facts if facts is not None else build.cfacts()
        self._funcs = {}
        for tu, d in self.facts.items():
            fm = {}
            for raw in d['functions']:
                fm.setdefault(raw['name'], raw)
            self._funcs[tu] = fm
        self._cache = {}
        PROGRAM[0] = self
        self.enums = {}
        self.enum_types = {}
        for tu, d in self.facts.items():
            for e in d['enums']:
                if e.get('alias'):
                    continue
                nm = e.get('typedef') or e.get('name')
                cs = {c['name']: c['val'] for c in e['consts']}
                self.enum_types.setdefault(nm, cs)
                for c, v in cs.items():
                    self.enums.setdefault(c, v)

    def tus(self):
        return sorted(self.facts)

    def has(self, tu, name):
        return name in self._funcs.get(tu, {})

    def func(self, tu, name, required=True):
        key = (tu, name)
        if key not in self._cache:
            raw = self._funcs.get(tu, {}).get(name)
            if raw is None:
                if required:
                    raise AnalysisBroken('function %s not found in %s' % (name, tu))
                return None
            self._cache[key] = Func(tu, raw)
        return self._cache[key]

    def funcs(self, tu):
        for name in self._funcs.get(tu, {}):
            yield self.func(tu, name)

    def find(self, name):
        """[(tu, Func)] for every TU defining name"""
        return [(tu, self.func(tu, name)) for tu in self.tus() if name in self._funcs[tu]]

    def record(self, name, tu=None):
        for t in ([tu] if tu else self.tus()):
            for r in self.facts[t]['records']:
                if r.get('typedef') == name or r.get('name') == name:
                    return r
        raise AnalysisBroken('record %s not found' % name)

    def table(self, tu, name, required=True):
        for t in self.facts[tu]['tables']:
            if t['name'] == name:
                return t
        if required:
            raise AnalysisBroken('table %s not found in %s' % (name, tu))
        return None

    def enum(self, name):
        if name not in self.enums:
            raise AnalysisBroken('enumerator %s not found' % name)
        return self.enums[name]

    def decl(self, name, tu=None):
        for t in ([tu] if tu else self.tus()):
            for d in self.facts[t]['decls']:
                if d['name'] == name:
                    return d
        return None

    def variant_tus(self):
        return [t for t in self.tus() if re.search(r'__mb_mgr_(sse|avx2|avx512)_t\d\.c$', t)]

    # ---- pure expression functions (predicates factored out of a condition)
    def pure_expr(self, name, tu=None):
        """(params, return expression) if `name` is a function whose whole body is `return <expr>;` with no call, assignment
        or declaration (in tu, else in any TU that defines it); None otherwise"""
        key = ('pure', name)
        if key not in self._cache:
            res = None
            for t in ([tu] if tu and self.has(tu, name) else [x for x in self.tus() if self.has(x, name)][:1]):
                f = self.func(t, name)
                evs = [ev for _, _, ev in f.events()]
                if len(evs) == 1 and evs[0]['k'] == 'return' and evs[0].get('val') is not None and not calls_in(evs[0]['val']):
                    res = ([p_['name'] for p_ in f.params], evs[0]['val'])
            self._cache[key] = res
        return self._cache[key]


PROGRAM = [None]


def subst(e, env):
    """copy of expression e with references to names in env replaced by the given expression trees"""
    if isinstance(e, list):
        return [subst(x, env) for x in e]
    if not isinstance(e, dict):
        return e
    if e.get('k') == 'ref' and e.get('n') in env:
        return env[e['n']]
    return {k: (subst(v, env) if isinstance(v, (dict, list)) else v) for k, v in e.items()}


def inline_pure(e, depth=0):
    """e with calls to pure expression functions replaced by their (parameter-substituted) return expression"""
    P = PROGRAM[0]
    if P is None or depth > 4:
        return e
    if isinstance(e, list):
        return [inline_pure(x, depth) for x in e]
    if not isinstance(e, dict):
        return e
    if e.get('k') == 'call' and e.get('fn'):
        pe = P.pure_expr(e['fn'])
        if pe is not None and len(pe[0]) == len(e.get('a', [])):
            args = [inline_pure(a, depth + 1) for a in e['a']]
            return inline_pure(subst(pe[1], dict(zip(pe[0], args))), depth + 1)
    return {k: (inline_pure(v, depth) if isinstance(v, (dict, list)) else v) for k, v in e.items()}


def flat_fields(rec, prefix='', base=0):
    """[(dotted name, offset, size, field dict)] for a record incl. nested structs/unions"""
    out = []
    for f in rec['fields']:
        nm = prefix + f['name'] if f['name'] else prefix.rstrip('.')
        off = base + f['off']
        out.append((nm, off, f.get('size'), f))
        if 'sub' in f and 'count' not in f:
            out.extend(flat_fields({'fields': f['sub']}, (nm + '.') if f['name'] else prefix, off))
    return out


# ------------------------------------------------------------------ path-sensitive walks

def walk_paths_must(func, start, env, is_hit, is_end, start_idx=0):
    """True iff on every (pruned) path from (start block, start_idx) an event satisfying is_hit occurs
    before reaching a block/event satisfying is_end (event-level) or the function exit.
    is_hit(ev)->bool; is_end(ev)->bool for return events etc.  Returns (ok, witness_block)."""
    seen = set()
    st = [(start, start_idx)]
    while st:
        b, i0 = st.pop()
        if (b, i0 > 0) in seen:
            continue
        seen.add((b, i0 > 0))
        evs = func.blocks[b]['ev']
        hit = False
        for ev in evs[i0:]:
            if is_hit(ev):
                hit = True
                break
            if is_end(ev):
                return False, b
        if hit:
            continue
        if b == func.exit:
            return False, b
        nxt = func.edges(b, env)
        if not nxt and b != func.exit:
            continue  # noreturn
        for s, _ in nxt:
            st.append((s, 0))
    return True, None
