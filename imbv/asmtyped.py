"""Typed view of the object-level facts: a C-callable asm function gets its parameter types from the C prototype and the
field offsets from the record layouts, so that a store `or dword [rax+0x80], 2` can be read as job->status |= COMPLETED_AUTH
and a zero store into [state + k] as scrubbing a named manager field."""
import re
from . import cf, asmfacts

ARGREGS = ['rdi', 'rsi', 'rdx', 'rcx', 'r8', 'r9']


def norm_type(t):
    return re.sub(r'\bconst\b|\bstruct\b|\bvolatile\b|\s+', '', t or '')


class Typed:
    def __init__(self, P):
        self.P = P
        self._flat = {}
        self.results = {}
        self.rel = {}
        for rel, name, r in asmfacts.all_functions():
            self.results[name] = r
            self.rel[name] = rel
        self._decl = {}
        for tu in P.tus():
            for d in P.facts[tu]['decls']:
                self._decl.setdefault(d['name'], d)

    def params(self, name):
        d = self._decl.get(name)
        return d['params'] if d else None

    def flat(self, tname):
        if tname not in self._flat:
            try:
                self._flat[tname] = cf.flat_fields(self.P.record(tname))
            except Exception:
                self._flat[tname] = None
        return self._flat[tname]

    def field_at(self, tname, off, fold=True):
        ff = self.flat(tname)
        if not ff:
            return None
        best = None
        for nm, o, sz, f in ff:
            if sz and o <= off < o + sz and not ('sub' in f and 'count' not in f):
                best = (nm, off - o, sz, f)
        if fold and best and 'sub' in best[3] and best[3].get('count') and best[3].get('elemsize'):
            # array of records (ldata[lane]): resolve the member inside one element, whatever the lane
            nm, rel, sz, f = best
            rel %= f['elemsize']
            inner = None
            for n2, o2, sz2, f2 in cf.flat_fields({'fields': f['sub']}):
                if sz2 and o2 <= rel < o2 + sz2 and not ('sub' in f2 and 'count' not in f2):
                    inner = ('%s[].%s' % (nm, n2), rel - o2, sz2, f2)
            if inner:
                return inner
        return best

    def offset_of(self, tname, field):
        ff = self.flat(tname)
        for nm, o, sz, f in ff or []:
            if nm == field:
                return o
        return None

    def arg_type(self, name, reg):
        """record type name pointed to by argument register reg at entry (or None)"""
        ps = self.params(name)
        if not ps:
            return None
        i = ARGREGS.index(reg) if reg in ARGREGS else None
        if i is None or i >= len(ps):
            return None
        t = norm_type(ps[i]['type'])
        if t.endswith('*') and not t.endswith('**'):
            return t[:-1]
        return None

    def manager_functions(self):
        """asm functions whose first C parameter is an MB_MGR_*_OOO pointer"""
        for name, r in sorted(self.results.items()):
            t = self.arg_type(name, 'rdi')
            if t and re.match(r'^MB_MGR_\w+_OOO$', t):
                yield name, t, r

    def classify_store(self, name, s):
        """-> dict(kind='mgr'|'job'|'other', field, rel, ...) for a recorded store"""
        b = s['base']
        if b is None:
            return None
        if b[0] == 'E':
            t = self.arg_type(name, b[1])
            if t is None or s['disp'] is None:
                return {'what': 'arg', 'reg': b[1], 'type': t}
            off = b[2] + s['disp']
            # array-relative offsets (no folding into one element): rows / lanes addressed by constant displacements stay distinct
            fa = self.field_at(t, off, fold=False)
            return {'what': 'arg', 'reg': b[1], 'type': t, 'off': off, 'field': fa[0] if fa else None, 'rel': fa[1] if fa else None}
        if b[0] == 'L':
            # pointer loaded from [E reg + k (+ index)]
            src = b[1]
            if src[0] == 'E':
                t = self.arg_type(name, src[1])
                if t and b[2] is not None:
                    fa = self.field_at(t, src[2] + b[2])
                    ptype = None
                    if fa:
                        ft = norm_type(fa[3].get('type', ''))
                        ptype = re.sub(r'\[\d+\]', '', ft)
                    return {'what': 'loaded', 'from_type': t, 'from_field': fa[0] if fa else None, 'ptype': ptype,
                            'off': s['disp']}
            return {'what': 'loaded', 'from_type': None}
        return {'what': b[0]}


def is_zero_store(s):
    return s['src'] is not None and s['src'][0] == 'I' and s['src'][1] == 0 == s['src'][2] and s['kind'] in ('mov', 'vec')
