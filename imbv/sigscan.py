"""First-result signature of assembled routines (no execution): the expression, over the routine's inputs, of the first vector value it
stores to memory, read off the straight-line code from the entry point (conditional branches - the parameter checks - are followed on
their fall-through side; a call, an unconditional jump or a return ends the walk).  Mnemonics are reduced to their operation (VEX `v`
prefix and EVEX d/q suffixes of the logic operations dropped), register names disappear (the expression is over loads and constants),
commutative operations sort their operands.  Routines that implement one function for different instruction sets and are written to the
same recipe get the same signature; rules/clones.rule_signature_siblings compares the members of such families."""
import re

from . import asmint
from .asmint import split_ops

COMM = {'por', 'pxor', 'pand', 'paddb', 'paddw', 'paddd', 'paddq', 'pcmpeqb', 'pcmpeqw', 'pcmpeqd', 'pcmpeqq', 'xorps', 'xorpd'}
PURE = {'pshufd', 'pshuflw', 'pshufhw', 'pabsb', 'pabsw', 'pabsd', 'pmovzxbw', 'pmovzxbd', 'pmovzxbq', 'pmovzxwd', 'pmovzxwq', 'pmovzxdq',
        'aeskeygenassist', 'aesimc', 'movddup', 'movshdup', 'movsldup', 'pbroadcastb', 'pbroadcastw', 'pbroadcastd', 'pbroadcastq',
        'broadcasti128', 'broadcasti32x4', 'broadcasti64x2', 'pmovsxbw', 'pmovsxbd', 'pmovsxbq', 'pmovsxwd', 'pmovsxwq', 'pmovsxdq', 'permq'}
VR = re.compile(r'^[xyz]mm(\d+)$')


def _base(mn):
    b = mn[1:] if mn.startswith('v') and mn != 'vzeroall' else mn
    b = re.sub(r'^(pxor|por|pand|pandn)[dq]$', r'\1', b)
    b = re.sub(r'^mov(dqa|dqu|aps|ups)(8|16|32|64)?$', 'mov', b)
    return b


def signature(insns, entry, maxn=600):
    order = sorted(insns)
    pos = {x: i for i, x in enumerate(order)}
    env = {}
    a = entry
    n = 0
    while a is not None and a in insns and n < maxn:
        n += 1
        ins = insns[a]
        mn = ins['mn']
        ops = [o.strip() for o in split_ops(ins['ops'])]
        nxt = order[pos[a] + 1] if pos[a] + 1 < len(order) else None
        if mn in ('ret', 'call', 'jmp', 'rep_ret'):
            return None
        if mn in asmint.JCC:
            a = nxt
            continue
        base = _base(mn)

        def val(o):
            o = o.split('{')[0].strip()
            m = VR.match(o)
            if m:
                return env.get(int(m.group(1)), 'R')
            if '[' in o:
                if 'rip' in o:
                    return 'K'
                mm = re.search(r'\[(\w+)(?:\+(0x[0-9a-f]+))?\]', o)
                return 'M(%s+%s)' % (mm.group(1), mm.group(2) or '0') if mm else 'M?'
            return o
        if ops and '[' in ops[0] and 'rsp' not in ops[0] and len(ops) == 2 and VR.match(ops[1]) and base == 'mov':
            s = val(ops[1])
            return s if len(s) < 4000 else None
        d0 = ops[0].split('{')[0].strip() if ops else ''
        if ops and VR.match(d0):
            d = int(VR.match(d0).group(1))
            if base == 'mov' and len(ops) == 2:
                env[d] = val(ops[1])
            elif base in ('zeroall', 'vzeroall'):
                env.clear()
            else:
                srcs = ops[1:]
                vex3 = mn.startswith('v') and len(ops) >= 3 and (VR.match(ops[1].split('{')[0].strip()) or '[' in ops[1])
                if vex3 or base in PURE:
                    args = [val(o) for o in srcs]
                else:
                    args = [val(ops[0])] + [val(o) for o in srcs]
                if base in ('pxor', 'xorps', 'xorpd', 'psubd', 'psubq') and len(args) == 2 and args[0] == args[1]:
                    env[d] = '0'
                else:
                    if base in COMM:
                        args = sorted(args)
                    e = '%s(%s)' % (base, ','.join(args))
                    env[d] = e if len(e) < 4000 else 'BIG'
        a = nxt
    return None


def scan_obj(obj):
    insns, labels, funcs, syms = asmint.parse_obj(obj)
    out = {}
    by_entry = {}
    for name, entry in sorted(funcs.items()):
        if entry in by_entry:
            out[name] = out[by_entry[entry]]
            continue
        by_entry[entry] = name
        try:
            out[name] = {'entry': entry, 'sig': signature(insns, entry)}
        except Exception:
            out[name] = {'entry': entry, 'sig': None}
    return out


def all_units():
    from . import insnscan
    return insnscan._cached('sig1', scan_obj, procs=True)
