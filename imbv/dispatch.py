"""Name-token vocabulary and constant-propagating call resolution for the dispatch functions.
A kernel / macro name is read as a bag of tokens (algorithm family, key size, digest size, direction, operation).
Nothing here compares source text: names are identifiers of the resolved program (callee symbols, macro names recorded by
the extractor, enumerators)."""
import re
from . import cf

KEYBITS = {16: '128', 24: '192', 32: '256', 8: '64'}


def raw_tokens(name):
    n = name.lower()
    n = re.sub(r'snow_?v(?![a-z])', 'snowv', n)
    n = re.sub(r'snow_?3g', 'snowthreeg', n)
    n = re.sub(r'3des|des3|tdes', 'desthree', n)
    n = re.sub(r'chacha_?20|chacha(?=_|$)', 'chachatwenty', n)
    n = re.sub(r'poly_?1305|(?<=_)poly(?=_|$)', 'polythirteen', n)
    n = re.sub(r'cbcs_1_9', 'cbcs', n)
    n = re.sub(r'sm3', 'smthree', n)
    n = re.sub(r'sm4', 'smfour', n)
    n = re.sub(r'cntr', 'ctr', n)
    n = re.sub(r'crc(\d+)', r'crc_\1', n)
    n = re.sub(r'(eea|eia|uea|uia)(\d)', r'\1', n)
    toks = []
    for part in n.split('_'):
        # split letters/digits: aes128 -> aes,128 ; x8 stays (lane count) ; by8 stays
        if re.match(r'^(x|by|t)\d+$', part):
            toks.append(part)
            continue
        for t in re.findall(r'[a-z]+|\d+', part):
            toks.append(t)
    # glued direction: ecbenc / cbcdec
    out = []
    for t in toks:
        m = re.match(r'^(ecb|cbc|cfb|ctr)(enc|dec)$', t)
        if m:
            out.extend(m.groups())
        else:
            out.append(t)
    return out


def dims(name):
    """{'key': set, 'digest': set, 'dir': set, 'op': set, 'bit': bool}"""
    t = raw_tokens(name)
    ts = set(t)
    d = {'key': set(), 'digest': set(), 'dir': set(), 'op': set(), 'bit': ('bit' in ts or 'bitlen' in ts)}
    sha = 'sha' in ts or 'hmac' in ts and 'md' not in ts
    for i, x in enumerate(t):
        if x in ('128', '192', '256') and not (sha and i > 0 and t[i - 1] in ('sha', 'sha2')):
            # zuc256 / aes256 / key sizes
            d['key'].add(x)
        if x in ('1', '224', '256', '384', '512') and i > 0 and t[i - 1] in ('sha', 'sha2'):
            d['digest'].add(x)
    if sha and not d['digest']:
        # HMAC macro without digest number (FLUSH_JOB_HMAC = sha1)
        pass
    if 'enc' in ts:
        d['dir'].add('enc')
    if 'dec' in ts:
        d['dir'].add('dec')
    if 'submit' in ts:
        d['op'].add('submit')
    if 'flush' in ts:
        d['op'].add('flush')
    return d


def dim_conflicts(a, b):
    """dimensions in which both names carry a value and the values differ"""
    da, db = dims(a), dims(b)
    out = []
    for k in ('key', 'digest', 'dir', 'op'):
        if da[k] and db[k] and da[k] != db[k]:
            out.append((k, sorted(da[k]), sorted(db[k])))
    return out


FAMILY_VOCAB = {'gcm', 'ccm', 'ecb', 'cbc', 'cbcs', 'cfb', 'ctr', 'pon', 'docsis', 'des', 'desthree', 'chachatwenty', 'polythirteen', 'zuc',
                'snowthreeg', 'kasumi', 'snowv', 'sgl', 'smfour', 'smthree', 'custom', 'aead', 'eea', 'eia', 'uea', 'uia', 'hmac', 'sha',
                'md', 'xcbc', 'cmac', 'gmac', 'ghash', 'crc', 'null'}


def family_tokens(name):
    return set(raw_tokens(name)) & FAMILY_VOCAB


def enum_family(enumerator):
    """family tokens named by an IMB_CIPHER_* / IMB_AUTH_* enumerator"""
    n = re.sub(r'^IMB_(CIPHER|AUTH)_', '', enumerator)
    t = set(raw_tokens(n))
    return (t & FAMILY_VOCAB), t


def collect_calls(P, tu, fn, env, depth=0, seen=None, out=None):
    """all calls reachable in fn under the constant environment env, descending into functions of the same TU with
    constant arguments propagated.  -> list of dict(name, macro, args, loc, via)"""
    if out is None:
        out = []
    if seen is None:
        seen = set()
    key = (fn, tuple(sorted((k, v) for k, v in env.items() if isinstance(v, int))))
    if key in seen or depth > 6:
        return out
    seen.add(key)
    f = P.func(tu, fn)
    for b in f.reachable(None, env):
        for ei, ev in enumerate(f.blocks[b]['ev']):
            if ev['k'] == 'assign' and ev['op'] == '=':
                # function address taken under this environment (function-pointer locals): counts as reached
                r = cf.strip_casts(ev.get('rhs'))
                if isinstance(r, dict) and r.get('k') == 'ref' and r.get('fn'):
                    out.append({'name': r['n'], 'macro': ev.get('macro'), 'args': [], 'loc': ev.get('sloc') or ev['loc'], 'in': fn,
                                'callee': None, 'bid': b, 'idx': ei, 'addr_taken': True})
                continue
            if ev['k'] != 'call':
                continue
            e = ev['e']
            name = e.get('fn')
            rec = {'name': name, 'macro': ev.get('macro'), 'args': e.get('a', []), 'loc': ev.get('sloc') or ev['loc'], 'in': fn,
                   'callee': e.get('callee'), 'bid': b, 'idx': ei, 'env': env}
            out.append(rec)
            if name and P.has(tu, name):
                g = P.func(tu, name)
                nenv = {}
                for i, p in enumerate(g.params):
                    if i < len(e.get('a', [])):
                        v = cf.evalc(e['a'][i], env)
                        if v is not None:
                            nenv[p['name']] = v
                collect_calls(P, tu, name, nenv, depth + 1, seen, out)
    return out
