"""Instruction-level facts read from the disassembly of every assembled unit (no execution), cached per NASM source key.
Currently: element-insert ladders — sequences of (v)pinsr{b,w,d,q} xmm, [base + disp], index that build one vector from consecutive
memory elements (nonce / IV / tag assembly).  Used by rules/clones.rule_insert_ladders."""
import json
import os
import re
import subprocess
from concurrent.futures import ThreadPoolExecutor

from . import build

_SYM = re.compile(r'^([0-9a-f]+) <([^>]+)>:$')
_PIN = re.compile(r'^\s*([0-9a-f]+):\s+(v?pinsr[bwdq])\s+(xmm\d+),(?:xmm\d+,)?(?:BYTE|WORD|DWORD|QWORD) PTR \[(\w+)(?:\+(0x[0-9a-f]+))?\],(0x[0-9a-f]+)\s*$')


def _scan(obj):
    dis = subprocess.run(['objdump', '-d', '-M', 'intel', '--no-show-raw-insn', obj], capture_output=True, text=True).stdout
    out = []
    func = None
    glob = set()
    for l in subprocess.run(['readelf', '-sW', obj], capture_output=True, text=True).stdout.splitlines():
        f = l.split()
        if len(f) >= 8 and f[3] == 'FUNC':
            glob.add(f[7])
    for l in dis.splitlines():
        m = _SYM.match(l)
        if m:
            if m.group(2) in glob:
                func = m.group(2)
            continue
        m = _PIN.match(l)
        if m:
            out.append({'fn': func, 'a': int(m.group(1), 16), 'mn': m.group(2), 'dst': m.group(3), 'base': m.group(4),
                        'disp': int(m.group(5), 16) if m.group(5) else 0, 'idx': int(m.group(6), 16)})
    return out


_INS = re.compile(r'^\s*([0-9a-f]+):\s+(\S+)\s*(.*)$')
_R64 = r'(r[a-z0-9]+)'


def _scan_tail_reads(obj):
    """`cmp L, T; jb small; ...; add P, L; load [P - K ...]`: reads of the last K bytes of a buffer of length L, with the threshold T that
    guards them"""
    dis = subprocess.run(['objdump', '-d', '-M', 'intel', '--no-show-raw-insn', obj], capture_output=True, text=True).stdout
    out = []
    func = None
    last_cmp = {}
    pending = None
    for l in dis.splitlines():
        m = _SYM.match(l)
        if m:
            if not m.group(2).startswith('..@') and '.' not in m.group(2):
                func = m.group(2)
            continue
        m = _INS.match(l)
        if not m:
            continue
        a, mn, ops = int(m.group(1), 16), m.group(2), m.group(3).split('#')[0].strip()
        if mn == 'cmp':
            mm = re.match(r'^%s,(0x[0-9a-f]+)$' % _R64, ops)
            if mm:
                last_cmp[mm.group(1)] = [int(mm.group(2), 16), None, a]
            continue
        if mn in ('jb', 'jl', 'jnae', 'jc') and last_cmp:
            for r_, c in last_cmp.items():
                if c[1] is None and a - c[2] <= 8:
                    c[1] = mn
            continue
        if mn == 'add':
            mm = re.match(r'^%s,%s$' % (_R64, _R64), ops)
            if mm:
                P_, L_ = mm.group(1), mm.group(2)
                c = last_cmp.get(L_)
                pending = {'fn': func, 'a': a, 'P': P_, 'L': L_, 'T': c[0] if c and c[1] else None, 'K': 0, 'n': 0}
                out.append(pending)
                continue
        if pending is not None:
            pending['n'] += 1
            mm = re.search(r'\[%s-(0x[0-9a-f]+)\]' % re.escape(pending['P']), ops)
            if mm and re.match(r'^v?mov', mn) and ops.split(',')[0].strip().startswith(('xmm', 'ymm', 'zmm')):
                pending['K'] = max(pending['K'], int(mm.group(1), 16))
            # the pointer or the length is redefined, or control leaves: the pattern ends
            dst = ops.split(',')[0].strip()
            if pending['n'] > 16 or mn.startswith('j') or mn in ('ret', 'call') or dst in (pending['P'], pending['L']):
                pending = None
        # any write to a compared register invalidates its comparison
        dst = ops.split(',')[0].strip()
        if dst in last_cmp and mn not in ('cmp', 'test'):
            last_cmp.pop(dst, None)
    return [x for x in out if x['K']]


def tail_reads():
    """{asm source: [facts]} — see _scan_tail_reads"""
    return _cached('tail', _scan_tail_reads)


def inserts():
    """{asm source relative to the tree: [insert facts]}"""
    return _cached('pins', _scan)


def _cached(kind, fn, procs=False):
    ents = build.asm_entries()
    cdir = build.CACHE_ROOT.rstrip('/') + '-insn'
    use = build.use_cache()
    if use:
        os.makedirs(cdir, exist_ok=True)
    res, todo = {}, []
    for e in ents:
        rel = os.path.relpath(e['file'], build.REPO)
        p = os.path.join(cdir, build.asm_source_key(e) + '.' + kind + '.json')
        if use and os.path.exists(p):
            try:
                res[rel] = json.load(open(p))
                continue
            except ValueError:
                pass
        todo.append((e, rel, p))
    if todo:
        objs = build.assemble([e for e, _, _ in todo], tag='insn_' + kind)
        if procs and len(todo) > 4:
            import multiprocessing
            with multiprocessing.Pool(build.NPROC) as pool:
                outs = pool.map(fn, [objs[t[0]['file']] for t in todo], chunksize=4)
        else:
            with ThreadPoolExecutor(build.NPROC) as ex:
                outs = list(ex.map(lambda t: fn(objs[t[0]['file']]), todo))
        for (e, rel, p), t in zip(todo, outs):
            res[rel] = t
            if use:
                tmp = p + '.%d' % os.getpid()
                json.dump(t, open(tmp, 'w'))
                os.replace(tmp, p)
        for o in objs.values():
            try:
                os.remove(o)
            except OSError:
                pass
    return res


# ---------------------------------------------------------------------------------------------------------------------------------------
# one unchanged vector register stored twice

_VST = re.compile(r'^v?mov(dqu|dqa|ups|aps|upd|apd|dqu8|dqu16|dqu32|dqu64|dqa32|dqa64|ntdq|ntps)$')
_VREG = re.compile(r'^([xyz])mm(\d+)$')


def _store_part(ins):
    """(vector register number, first byte, end byte) of the register bytes an instruction writes to memory, or None"""
    from .asmint import split_ops
    mn = ins['mn']
    ops = split_ops(ins['ops'])
    if len(ops) < 2 or '[' not in ops[0]:
        return None
    if '{' in ops[0]:
        return None             # masked store: which bytes is a run-time matter
    m = _VREG.match(ops[1].strip())
    if not m:
        return None
    n = int(m.group(2))
    if _VST.match(mn) and len(ops) == 2:
        return n, 0, {'x': 16, 'y': 32, 'z': 64}[m.group(1)]
    if mn in ('movq', 'vmovq', 'movlps', 'vmovlps', 'movlpd', 'vmovlpd') and len(ops) == 2:
        return n, 0, 8
    if mn in ('movd', 'vmovd', 'movss', 'vmovss') and len(ops) == 2:
        return n, 0, 4
    if mn in ('movhps', 'vmovhps', 'movhpd', 'vmovhpd') and len(ops) == 2:
        return n, 8, 16
    mm = re.match(r'^v?pextr([bwdq])$', mn)
    if mm and len(ops) == 3:
        w = {'b': 1, 'w': 2, 'd': 4, 'q': 8}[mm.group(1)]
        try:
            k = int(ops[2], 16)
        except ValueError:
            return None
        return n, k * w, k * w + w
    return None


def _def_class(ins):
    """how a vector register got its value: 'zero', 'const' (read-only table), 'load', 'compute'"""
    from .asmint import split_ops
    mn = ins['mn']
    ops = split_ops(ins['ops'])
    if re.match(r'^v?(pxor[dq]?|xorps|xorpd|psub[bwdq]|pandn)$', mn) and len(ops) >= 2 and len({o.strip() for o in ops[-2:]}) == 1 and '[' not in ops[-1]:
        return 'zero'
    if mn in ('vzeroall', 'vzeroupper'):
        return 'zero'
    if re.match(r'^v?pcmpeq[bwdq]$', mn) and len({o.strip() for o in ops[-2:]}) == 1:
        return 'const'
    if any('[' in o for o in ops[1:]) and re.match(r'^v?(mov|lddqu|pbroadcast|broadcast|pmov[sz]x|movddup)', mn):
        return 'const' if ('reloc' in ins or 'rip' in ins['ops']) else 'load'
    return 'compute'


def _mem_of(ins):
    from .asmint import split_ops, parse_mem
    try:
        m = parse_mem(split_ops(ins['ops'])[0])
    except Exception:
        return None
    if not m:
        return None
    return m


def _gpr_step(ins):
    """(register, constant) when the instruction adds a constant to a 64-bit register (add/sub/lea r,[r+c]/inc/dec), else None"""
    from .asmint import split_ops
    mn = ins['mn']
    ops = [o.strip() for o in split_ops(ins['ops'])]
    try:
        if mn in ('add', 'sub') and len(ops) == 2 and re.match(r'^r\w+$', ops[0]) and re.match(r'^(0x)?[0-9a-f]+$', ops[1]):
            c = int(ops[1], 16)
            if c >= 1 << 63:
                c -= 1 << 64
            return ops[0], c if mn == 'add' else -c
        if mn == 'lea' and len(ops) == 2:
            m = re.match(r'^\[(r\w+)([+-])(0x[0-9a-f]+)\]$', ops[1])
            if m and m.group(1) == ops[0]:
                c = int(m.group(3), 16)
                return ops[0], c if m.group(2) == '+' else -c
        if mn in ('inc', 'dec') and len(ops) == 1 and re.match(r'^r\w+$', ops[0]):
            return ops[0], 1 if mn == 'inc' else -1
    except ValueError:
        return None
    return None


def _gpr_const(ins):
    """(register, value) when the instruction loads a constant into a 64-bit register (xor r,r / mov r,imm), else None"""
    from .asmint import split_ops, SUB, WID
    mn = ins['mn']
    ops = [o.strip() for o in split_ops(ins['ops'])]
    if len(ops) != 2:
        return None
    r64 = SUB.get(ops[0])
    if r64 is None or WID.get(ops[0]) not in (4, 8):
        return None
    if mn in ('xor', 'sub') and ops[0] == ops[1]:
        return r64, 0
    if mn == 'mov' and re.match(r'^0x[0-9a-f]+$', ops[1]):
        return r64, int(ops[1], 16)
    return None


def _addr(ins, g):
    """(base, index, scale, displacement) of a store's address, an index register whose constant value is known folded in; base None when
    the address is not base-relative"""
    m = _mem_of(ins)
    if not m or m.get('base') in (None, 'rip') or m.get('disp') is None:
        return (None, None, 1, 0)
    base, idx, sc, disp = m['base'], m.get('index'), m.get('scale') or 1, m['disp']
    if idx is not None and idx in g:
        disp += g[idx] * sc
        idx, sc = None, 1
    return (base, idx, sc, disp)


def _scan_dupstores(obj):
    from . import asmint, asmdu
    insns, labels, funcs, syms = asmint.parse_obj(obj)
    out = []
    seen_pairs = set()
    for name, entry in sorted(funcs.items()):
        nodes = asmint.reachable_insns(entry, insns)
        if len(nodes) > 60000:
            continue
        succ = {a: asmdu.successors(a, insns) for a in nodes}
        du = {}
        for a in nodes:
            try:
                du[a] = asmdu.defuse(insns[a])[0]
            except Exception:
                du[a] = set('v%d' % i for i in range(32)) | set(asmdu.GPRS)
        # state: {vreg number: (frozenset(def sites), frozenset((site, lo, hi, base, index, scale, disp)))}; disp is kept relative to the
        # CURRENT value of the base register (constant steps of the base are folded in, any other redefinition forgets the address)
        state = {entry: {}}
        work = [entry]
        while work:
            a = work.pop()
            cur = state[a]
            ins = insns[a]
            new = cur
            sp = _store_part(ins)
            if ins['mn'] == 'call':
                new = {}
            elif sp is not None:
                n, lo, hi = sp
                d, st = cur.get(n, (frozenset(), frozenset()))
                ad = _addr(ins, cur.get('g') or {})
                new = dict(cur)
                new[n] = (d, st | {(a, lo, hi) + ad})
            else:
                ds = [int(r[1:]) for r in du[a] if r.startswith('v') and r[1:].isdigit()]
                gs = [r for r in du[a] if r in asmdu.GPRS]
                if ds or gs:
                    new = dict(cur)
                    for n in ds:
                        new[n] = (frozenset([a]), frozenset())
                    if gs:
                        step = _gpr_step(ins)
                        g = dict(cur.get('g') or {})
                        cst = _gpr_const(ins)
                        for r_ in gs:
                            if cst and cst[0] == r_:
                                g[r_] = cst[1]
                            elif step and step[0] == r_ and r_ in g and len(gs) == 1:
                                g[r_] = g[r_] + step[1]
                            else:
                                g.pop(r_, None)
                        new['g'] = g
                        for n, v_ in list(new.items()):
                            if n == 'g':
                                continue
                            d, st = v_
                            if not any(t[3] in gs or t[4] in gs for t in st):
                                continue
                            st2 = set()
                            for t in st:
                                if step and t[3] == step[0] and t[4] != step[0] and len(gs) == 1:
                                    st2.add(t[:6] + (t[6] - step[1],))
                                elif t[3] in gs or t[4] in gs:
                                    st2.add(t[:3] + (None, None, 1, 0))
                                else:
                                    st2.add(t)
                            new[n] = (d, frozenset(st2))
            for s in succ[a]:
                old = state.get(s)
                if old is None:
                    state[s] = new
                    work.append(s)
                    continue
                merged = None
                og = old.get('g') or {}
                ng = new.get('g') or {}
                keep = {k: v for k, v in og.items() if ng.get(k) == v}
                if keep != og:
                    merged = dict(old)
                    merged['g'] = keep
                for n, v_ in new.items():
                    if n == 'g':
                        continue
                    d, st = v_
                    od, ost = old.get(n, (frozenset(), frozenset()))
                    if not (d <= od and st <= ost):
                        if len(ost | st) > 64:
                            continue
                        if merged is None:
                            merged = dict(old)
                        merged[n] = (od | d, ost | st)
                if merged is not None:
                    state[s] = merged
                    work.append(s)
        for a in sorted(nodes):
            sp = _store_part(insns[a])
            if sp is None or a not in state:
                continue
            n, lo, hi = sp
            d, st = state[a].get(n, (frozenset(), frozenset()))
            here = _addr(insns[a], state[a].get('g') or {})
            if here[0] is None:
                continue
            for t in sorted(st, key=lambda t: tuple(str(x) for x in t)):
                b, lo2, hi2, base, idx, sc, disp = t
                if b == a or not (lo < hi2 and lo2 < hi) or base is None:
                    continue
                if (base, idx, sc) != here[:3]:
                    continue
                delta = here[3] - disp
                if (b, a) in seen_pairs:
                    continue
                seen_pairs.add((b, a))
                cls = sorted({_def_class(insns[x]) for x in d}) or ['entry']
                out.append({'fn': name, 'a': a, 'b': b, 'reg': n, 'first': insns[b]['txt'], 'second': insns[a]['txt'], 'defs': cls,
                            'delta': delta, 'w1': hi2 - lo2, 'w2': hi - lo, 'def_txt': [insns[x]['txt'] for x in sorted(d)][:3]})
    return out


def dupstores():
    """{asm source: [facts]}: pairs of stores of overlapping bytes of one vector register that no instruction redefined in between"""
    return _cached('dup4', _scan_dupstores, procs=True)


# ---------------------------------------------------------------------------------------------------------------------------------------
# Merkle-Damgard padding written by assembly: where the 0x80 marker goes decides whether the length field still fits

_MARK = re.compile(r'^BYTE PTR \[(\w+)\+(\w+)\*1(?:\+(0x[0-9a-f]+))?\],0x80$')
_CMPK = re.compile(r'^(\w+),(0x[0-9a-f]+)$')


def _scan_pad_threshold(obj):
    """facts about `mov BYTE [blk + r], 0x80` ... `cmp r', K; jcc` ... `mov [blk + L], <length>`: the marker offset register (or the register
    the copy loop compared it equal to), the comparison, which edge reaches the length store without running the compression function, and L"""
    from . import asmint
    insns, labels, funcs, syms = asmint.parse_obj(obj)
    order = sorted(insns)
    pos = {a: i for i, a in enumerate(order)}
    fn_of = {}
    cur = None
    starts = {a: n for n, a in funcs.items()}
    for a in order:
        if a in starts:
            cur = starts[a]
        fn_of[a] = cur
    out = []
    for a in order:
        ins = insns[a]
        if ins['mn'] != 'mov':
            continue
        m = _MARK.match(ins['ops'].strip())
        if not m:
            continue
        base, idx, disp = m.group(1), SUB64(m.group(2)), int(m.group(3), 16) if m.group(3) else 0
        # registers known equal to the marker offset: the index itself, and what a `cmp idx, y; je <here>` compared it with
        eq = {idx: 0}
        for b in order[max(0, pos[a] - 40):pos[a]]:
            i2 = insns[b]
            if i2['mn'] in ('je', 'jz') and i2['ops'].split()[0] == '%x' % a:
                c = insns[order[pos[b] - 1]]
                if c['mn'] == 'cmp':
                    o = [SUB64(x.strip()) for x in c['ops'].split(',')]
                    if len(o) == 2 and idx in o and None not in o:
                        eq[o[0] if o[1] == idx else o[1]] = 0
        # forward: adjust for inc/add of the equal registers, find the first cmp <eq reg>, K + unsigned jcc
        found = None
        for b in order[pos[a] + 1:pos[a] + 60]:
            i2 = insns[b]
            o = [x.strip() for x in i2['ops'].split(',')] if i2['ops'] else []
            if i2['mn'] in ('ret', 'call') or fn_of.get(b) != fn_of.get(a):
                break
            if i2['mn'] == 'cmp' and len(o) == 2 and SUB64(o[0]) in eq and re.match(r'^0x[0-9a-f]+$', o[1]):
                j = insns.get(order[pos[b] + 1]) if pos[b] + 1 < len(order) else None
                if j and j['mn'] in ('jb', 'jc', 'jnae', 'jbe', 'jna', 'ja', 'jnbe', 'jae', 'jnb', 'jnc') and SUB64(o[0]) != idx:
                    found = (b, SUB64(o[0]), int(o[1], 16) - eq[SUB64(o[0])], j)
                    break
                if j and j['mn'] in ('jb', 'jc', 'jnae', 'jbe', 'jna', 'ja', 'jnbe', 'jae', 'jnb', 'jnc') and SUB64(o[0]) == idx and eq[idx] == 0:
                    found = (b, idx, int(o[1], 16), j)
                    break
                continue
            if o and SUB64(o[0]) in eq and i2['mn'] not in ('cmp', 'test'):
                r_ = SUB64(o[0])
                if i2['mn'] == 'inc':
                    eq[r_] += 1
                elif i2['mn'] == 'add' and len(o) == 2 and re.match(r'^0x[0-9a-f]+$', o[1]):
                    eq[r_] += int(o[1], 16)
                elif i2['mn'] == 'mov' and '[' in o[0]:
                    pass
                elif '[' not in o[0]:
                    eq.pop(r_, None)            # redefined: no longer tied to the marker offset
        if not found:
            continue
        b, reg, K, j = found
        try:
            tgt = int(j['ops'].split()[0], 16)
        except (ValueError, IndexError):
            continue
        fall = order[pos[j['a']] + 1] if pos[j['a']] + 1 < len(order) else None

        def reaches_len(start):
            """displacement (relative to the block) of a store the edge reaches before any call: the length field"""
            x = start
            n = 0
            while x is not None and x in insns and n < 40:
                n += 1
                i3 = insns[x]
                if i3['mn'] in ('call', 'ret', 'jmp') or i3['mn'] in asmint.JCC:
                    return None
                mm = re.match(r'^(?:QWORD|DWORD) PTR \[(\w+)(?:\+(0x[0-9a-f]+))?\],\w+$', i3['ops'].strip()) if i3['mn'] in ('mov', 'movbe') else None
                if mm and mm.group(1) == base:
                    d3 = (int(mm.group(2), 16) if mm.group(2) else 0) - disp
                    prev = insns[order[pos[x] - 1]]
                    if prev['mn'] in ('bswap', 'movbe') or i3['mn'] == 'movbe' or d3 in (56, 112, 120):
                        return d3
                x = order[pos[x] + 1] if pos[x] + 1 < len(order) else None
            return None
        lt, lf = reaches_len(tgt), reaches_len(fall)
        if (lt is None) == (lf is None):
            continue
        L = lt if lt is not None else lf
        mn = j['mn']
        taken_if = {'jb': '<', 'jc': '<', 'jnae': '<', 'jbe': '<=', 'jna': '<=', 'ja': '>', 'jnbe': '>', 'jae': '>=', 'jnb': '>=', 'jnc': '>='}[mn]
        # the set of marker offsets r (0 <= r < block) for which the length-store edge is taken
        if lt is not None:
            fits = taken_if
        else:
            fits = {'<': '>=', '<=': '>', '>': '<=', '>=': '<'}[taken_if]
        # largest r that fits
        if fits == '<':
            rmax = K - 1
        elif fits == '<=':
            rmax = K
        else:
            rmax = None         # the length store is taken for LARGE offsets: upside down
        # the other edge compresses the block and re-uses it for the length alone: what it stores into [blk, blk + L) before the length
        nofit = fall if lt is not None else tgt
        cover = []
        x = nofit
        n = 0
        called = False
        while x is not None and x in insns and n < 80:
            n += 1
            i3 = insns[x]
            if i3['mn'] in ('ret', 'jmp') or i3['mn'] in asmint.JCC:
                break
            if i3['mn'] == 'call':
                called = True
            mm = re.match(r'^(?:(XMMWORD|QWORD|DWORD|WORD|BYTE) PTR )?\[(\w+)(?:\+(0x[0-9a-f]+))?\],(\w+)$', i3['ops'].strip()) \
                if re.match(r'^v?mov', i3['mn']) else None
            if mm and mm.group(2) == base and called:
                d3 = (int(mm.group(3), 16) if mm.group(3) else 0) - disp
                w3 = {'XMMWORD': 16, 'QWORD': 8, 'DWORD': 4, 'WORD': 2, 'BYTE': 1}.get(mm.group(1) or '', 8 if mm.group(4).startswith('r') else 16)
                if d3 == L:
                    break
                cover.append((d3, w3))
            x = order[pos[x] + 1] if pos[x] + 1 < len(order) else None
        gaps = sorted(set(range(L)) - {q for d3, w3 in cover for q in range(d3, d3 + w3)}) if called and cover else []
        out.append({'fn': fn_of.get(a), 'a': a, 'cmp': b, 'reg': reg, 'K': K, 'jcc': mn, 'L': L, 'rmax': rmax, 'gaps': gaps[:8],
                    'marker': ins['txt'], 'test': insns[b]['txt'] + '; ' + j['txt']})
    return out


def SUB64(r_):
    from .asmint import SUB
    return SUB.get(r_)


def pad_thresholds():
    """{asm source: [facts]} - see _scan_pad_threshold"""
    return _cached('padthr2', _scan_pad_threshold)


def dupstore_fixture():
    """assemble data/fixtures/dupstore.asm with the tree's own assembler and scan it: -> facts"""
    src = os.path.join(os.path.dirname(__file__), 'data', 'fixtures', 'dupstore.asm')
    outdir = os.path.join(build.scratch(), 'obj_fixture')
    os.makedirs(outdir, exist_ok=True)
    out = os.path.join(outdir, 'dupstore.%d.o' % os.getpid())
    nasm = build.asm_entries()[0]['args'][0]
    r = subprocess.run([nasm, '-f', 'elf64', '-o', out, src], capture_output=True, text=True)
    if r.returncode != 0:
        raise build.AnalysisBroken('cannot assemble the W6 fixture: ' + r.stderr[-300:])
    try:
        return _scan_dupstores(out)
    finally:
        try:
            os.remove(out)
        except OSError:
            pass


if __name__ == '__main__':
    import sys
    import collections
    r = dupstores()
    c = collections.Counter()
    for rel, fs in sorted(r.items()):
        for f in fs:
            near = 0 <= abs(f['delta']) <= 64
            c[tuple(f['defs']) + (near,)] += 1
            if (near and 'zero' not in f['defs'] and 'const' not in f['defs']) or '-v' in sys.argv:
                print(rel, f['fn'], hex(f['b']), f['first'], '|', hex(f['a']), f['second'], '|', f['delta'], f['defs'], f['def_txt'])
    print(c)



# ---------------------------------------------------------------------------------------------------------------------------------------
# the same store issued twice in a row

def _scan_repeat_stores(obj):
    """consecutive, textually identical store instructions (same mnemonic, address, mask and source register): the second one writes what the
    first just wrote - in an unrolled clear / copy loop the address was meant to advance"""
    from . import asmint
    insns, labels, funcs, syms = asmint.parse_obj(obj)
    order = sorted(insns)
    starts = {a: n for n, a in funcs.items()}
    cur = None
    out = []
    nstores = 0
    prev = None
    for a in order:
        if a in starts:
            cur = starts[a]
        ins = insns[a]
        ops = ins['ops'].split(',')
        is_store = bool(re.match(r'^v?mov', ins['mn'])) and len(ops) >= 2 and '[' in ops[0] and 'rip' not in ops[0]
        if is_store:
            nstores += 1
            if prev is not None and insns[prev]['txt'] == ins['txt'] and not labels.get(a):
                out.append({'fn': cur, 'a': a, 'txt': ins['txt']})
        prev = a if is_store else None
    return {'stores': nstores, 'repeats': out}


def repeat_stores():
    return _cached('rep1', _scan_repeat_stores)


def repeat_store_fixture():
    src = os.path.join(os.path.dirname(__file__), 'data', 'fixtures', 'repstore.asm')
    outdir = os.path.join(build.scratch(), 'obj_fixture')
    os.makedirs(outdir, exist_ok=True)
    out = os.path.join(outdir, 'repstore.%d.o' % os.getpid())
    nasm = build.asm_entries()[0]['args'][0]
    r = subprocess.run([nasm, '-f', 'elf64', '-o', out, src], capture_output=True, text=True)
    if r.returncode != 0:
        raise build.AnalysisBroken('cannot assemble the S14 fixture: ' + r.stderr[-300:])
    try:
        return _scan_repeat_stores(out)
    finally:
        try:
            os.remove(out)
        except OSError:
            pass


# ---------------------------------------------------------------------------------------------------------------------------------------
# a length known to be below a bound has a larger constant subtracted from it

def _scan_len_underflow(obj):
    """`cmp r, K; jb/jbe L` ... `L:` (reached by that jump only) ... `sub r, C` with C above what r can be at L: the unsigned length wraps to a
    huge value (and whatever is sized by it reads or writes far too much)"""
    from . import asmint
    insns, labels, funcs, syms = asmint.parse_obj(obj)
    order = sorted(insns)
    pos = {a: i for i, a in enumerate(order)}
    starts = {a: n for n, a in funcs.items()}
    fn_of = {}
    cur = None
    for a in order:
        if a in starts:
            cur = starts[a]
        fn_of[a] = cur
    # jump targets and who jumps there
    incoming = {}
    for a in order:
        ins = insns[a]
        if ins['mn'] == 'jmp' or ins['mn'] in asmint.JCC:
            try:
                t = int(ins['ops'].split()[0], 16)
            except (ValueError, IndexError):
                continue
            incoming.setdefault(t, []).append(a)
    out = []
    nsites = 0
    for t, srcs in incoming.items():
        if len(srcs) != 1 or t not in insns:
            continue
        j = srcs[0]
        if insns[j]['mn'] not in ('jb', 'jc', 'jnae', 'jbe', 'jna') or pos.get(j, 0) == 0:
            continue
        # the target must not be reachable by falling through from the instruction before it
        before = insns[order[pos[t] - 1]] if pos[t] > 0 else None
        if before is None or before['mn'] not in ('jmp', 'ret', 'rep_ret'):
            continue
        c = insns[order[pos[j] - 1]]
        m = re.match(r'^(\w+),(0x[0-9a-f]+)$', c['ops'].strip()) if c['mn'] == 'cmp' else None
        if not m or SUB64(m.group(1)) is None:
            continue
        reg = SUB64(m.group(1))
        bound = int(m.group(2), 16) - (1 if insns[j]['mn'] in ('jb', 'jc', 'jnae') else 0)      # largest value of reg at the target
        nsites += 1
        x = t
        n = 0
        while x is not None and x in insns and n < 60:
            n += 1
            i2 = insns[x]
            o = [y.strip() for y in i2['ops'].split(',')] if i2['ops'] else []
            if i2['mn'] in ('jmp', 'ret', 'call') or (x != t and x in incoming):
                break
            if i2['mn'] == 'sub' and len(o) == 2 and SUB64(o[0]) == reg and re.match(r'^0x[0-9a-f]+$', o[1]):
                cst = int(o[1], 16)
                if cst < (1 << 31) and cst > bound:
                    out.append({'fn': fn_of.get(x), 'a': x, 'reg': reg, 'bound': bound, 'sub': cst, 'cmp': c['txt'], 'txt': i2['txt']})
                break
            if o and SUB64(o[0]) == reg and i2['mn'] not in ('cmp', 'test') and '[' not in o[0]:
                break               # redefined
            x = order[pos[x] + 1] if pos[x] + 1 < len(order) else None
    return {'sites': nsites, 'findings': out}


def len_underflows():
    return _cached('lenuf1', _scan_len_underflow)


# ---------------------------------------------------------------------------------------------------------------------------------------
# unrolled per-lane sequences: displacements in arithmetic progression

def _scan_progressions(obj):
    """in the occurrences of one instruction form (same mnemonic and operands up to the displacement) within one routine, five consecutive
    displacements a, b, c, d, e with b - a == e - d == s and e - a == 4 s say the middle one is a + 2 s; a different middle one is the odd
    man out of an unrolled per-lane sequence (lane 13 loading lane 12's pointer)"""
    from . import asmint
    insns, labels, funcs, syms = asmint.parse_obj(obj)
    order = sorted(insns)
    starts = {a: n for n, a in funcs.items()}
    cur = None
    seqs = {}
    for a in order:
        if a in starts:
            cur = starts[a]
        ins = insns[a]
        if not re.match(r'^v?(mov|pinsr|pextr|padd|pxor|broadcast|pbroadcast)', ins['mn']) and ins['mn'] not in ('mov', 'lea', 'add', 'cmp'):
            continue
        m = re.search(r'\[(\w+)(?:\+(\w+)\*(\d))?([+-]0x[0-9a-f]+)\]', ins['ops'])
        if not m or 'rip' in m.group(0) or m.group(1) in ('rsp', 'rbp'):
            continue
        d = int(m.group(4), 16)
        tmpl = ins['mn'] + ' ' + ins['ops'][:m.start(4)] + '#' + ins['ops'][m.end(4):]
        seqs.setdefault((cur, tmpl), []).append((a, d, ins['txt']))
    out = []
    nwin = 0
    seen_f = set()
    for (fn, tmpl), occ0 in seqs.items():
        # one form may serve two or three interleaved progressions (keys and IVs of the same lanes): every 2nd / 3rd occurrence is looked
        # at as a sequence of its own as well
        for fac in (1, 2, 3):
            for off0 in range(fac):
                occ = occ0[off0::fac]
                if len(occ) < 6:
                    continue
                for i in range(len(occ) - 4):
                    w = [occ[i + k][1] for k in range(5)]
                    if w[4] == w[0] or (w[4] - w[0]) % 4:
                        continue
                    s_ = (w[4] - w[0]) // 4
                    off = [k for k in (1, 2, 3) if w[k] != w[0] + k * s_]
                    if not off:
                        nwin += 1
                    elif len(off) == 1 and abs(w[off[0]] - (w[0] + off[0] * s_)) < abs(s_):
                        k = off[0]
                        nwin += 1
                        if (fn, occ[i + k][0]) not in seen_f:
                            seen_f.add((fn, occ[i + k][0]))
                            out.append({'fn': fn, 'a': occ[i + k][0], 'txt': occ[i + k][2], 'want': w[0] + k * s_, 'got': w[k], 'step': s_})
    return {'windows': nwin, 'findings': out}


def progressions():
    return _cached('prog4', _scan_progressions)
