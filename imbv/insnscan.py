"""Instruction-level facts read from the disassembly of every assembled unit (no execution), cached per NASM source key.
Currently: element-insert ladders — sequences of (v)pinsr{b,w,d,q} xmm, [base + disp], index that build one vector from consecutive
memory elements (nonce / IV / tag assembly).  Used by rules/clones.rule_insert_ladders."""
import json
import os
import re
import subprocess
from concurrent.futures import ThreadPoolExecutor

from . import build

_SYM = re.compile(r'^([0-9a-f]+) <([^>]+)>:$')
_PIN = re.compile(r'^\s*([0-9a-f]+):\s+(v?pinsr[bwdq])\s+(xmm\d+),(?:xmm\d+,)?(?:BYTE|WORD|DWORD|QWORD) PTR \[(\w+)(?:\+(0x[0-9a-f]+))?\],(0x[0-9a-f]+)\s*$')


def _scan(obj):
    dis = subprocess.run(['objdump', '-d', '-M', 'intel', '--no-show-raw-insn', obj], capture_output=True, text=True).stdout
    out = []
    func = None
    glob = set()
    for l in subprocess.run(['readelf', '-sW', obj], capture_output=True, text=True).stdout.splitlines():
        f = l.split()
        if len(f) >= 8 and f[3] == 'FUNC':
            glob.add(f[7])
    for l in dis.splitlines():
        m = _SYM.match(l)
        if m:
            if m.group(2) in glob:
                func = m.group(2)
            continue
        m = _PIN.match(l)
        if m:
            out.append({'fn': func, 'a': int(m.group(1), 16), 'mn': m.group(2), 'dst': m.group(3), 'base': m.group(4),
                        'disp': int(m.group(5), 16) if m.group(5) else 0, 'idx': int(m.group(6), 16)})
    return out


_INS = re.compile(r'^\s*([0-9a-f]+):\s+(\S+)\s*(.*)$')
_R64 = r'(r[a-z0-9]+)'


def _scan_tail_reads(obj):
    """`cmp L, T; jb small; ...; add P, L; load [P - K ...]`: reads of the last K bytes of a buffer of length L, with the threshold T that
    guards them"""
    dis = subprocess.run(['objdump', '-d', '-M', 'intel', '--no-show-raw-insn', obj], capture_output=True, text=True).stdout
    out = []
    func = None
    last_cmp = {}
    pending = None
    for l in dis.splitlines():
        m = _SYM.match(l)
        if m:
            if not m.group(2).startswith('..@') and '.' not in m.group(2):
                func = m.group(2)
            continue
        m = _INS.match(l)
        if not m:
            continue
        a, mn, ops = int(m.group(1), 16), m.group(2), m.group(3).split('#')[0].strip()
        if mn == 'cmp':
            mm = re.match(r'^%s,(0x[0-9a-f]+)$' % _R64, ops)
            if mm:
                last_cmp[mm.group(1)] = [int(mm.group(2), 16), None, a]
            continue
        if mn in ('jb', 'jl', 'jnae', 'jc') and last_cmp:
            for r_, c in last_cmp.items():
                if c[1] is None and a - c[2] <= 8:
                    c[1] = mn
            continue
        if mn == 'add':
            mm = re.match(r'^%s,%s$' % (_R64, _R64), ops)
            if mm:
                P_, L_ = mm.group(1), mm.group(2)
                c = last_cmp.get(L_)
                pending = {'fn': func, 'a': a, 'P': P_, 'L': L_, 'T': c[0] if c and c[1] else None, 'K': 0, 'n': 0}
                out.append(pending)
                continue
        if pending is not None:
            pending['n'] += 1
            mm = re.search(r'\[%s-(0x[0-9a-f]+)\]' % re.escape(pending['P']), ops)
            if mm and re.match(r'^v?mov', mn) and ops.split(',')[0].strip().startswith(('xmm', 'ymm', 'zmm')):
                pending['K'] = max(pending['K'], int(mm.group(1), 16))
            # the pointer or the length is redefined, or control leaves: the pattern ends
            dst = ops.split(',')[0].strip()
            if pending['n'] > 16 or mn.startswith('j') or mn in ('ret', 'call') or dst in (pending['P'], pending['L']):
                pending = None
        # any write to a compared register invalidates its comparison
        dst = ops.split(',')[0].strip()
        if dst in last_cmp and mn not in ('cmp', 'test'):
            last_cmp.pop(dst, None)
    return [x for x in out if x['K']]


def tail_reads():
    """{asm source: [facts]} — see _scan_tail_reads"""
    return _cached('tail', _scan_tail_reads)


def inserts():
    """{asm source relative to the tree: [insert facts]}"""
    return _cached('pins', _scan)


def _cached(kind, fn):
    ents = build.asm_entries()
    cdir = build.CACHE_ROOT.rstrip('/') + '-insn'
    use = build.use_cache()
    if use:
        os.makedirs(cdir, exist_ok=True)
    res, todo = {}, []
    for e in ents:
        rel = os.path.relpath(e['file'], build.REPO)
        p = os.path.join(cdir, build.asm_source_key(e) + '.' + kind + '.json')
        if use and os.path.exists(p):
            try:
                res[rel] = json.load(open(p))
                continue
            except ValueError:
                pass
        todo.append((e, rel, p))
    if todo:
        objs = build.assemble([e for e, _, _ in todo], tag='insn_' + kind)
        with ThreadPoolExecutor(build.NPROC) as ex:
            outs = list(ex.map(lambda t: fn(objs[t[0]['file']]), todo))
        for (e, rel, p), t in zip(todo, outs):
            res[rel] = t
            if use:
                tmp = p + '.%d' % os.getpid()
                json.dump(t, open(tmp, 'w'))
                os.replace(tmp, p)
        for o in objs.values():
            try:
                os.remove(o)
            except OSError:
                pass
    return res
