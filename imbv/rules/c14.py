"""C14 — job descriptors come back unaltered; status and error code exact.
J1 library-writable job fields (C side)   J3 status values   J4 errno reset at entry of every C handler
J5 errno recorded in the manager (= C12-V8)   J6 error strings total   (J2 asm side: see c14 asm part)"""
import re
from .. import cf
from . import shared

JOBREC = ('IMB_JOB',)


def _recname(s):
    return re.sub(r'\b(struct|const|volatile)\b|\s+', '', s or '')


def job_field_write(lhs):
    """(dotted IMB_JOB field path, IMB_JOB-level mem node) if the assignment target is storage inside an IMB_JOB
    (only '.' member steps and array-member indexing between the target and the IMB_JOB member), else (None, None)"""
    e = cf.strip_casts(lhs)
    path = []
    while isinstance(e, dict):
        k = e.get('k')
        if k == 'mem':
            path.append(e['f'])
            if _recname(e['rec']) in JOBREC:
                return '.'.join(reversed(path)).lstrip('.'), e
            if e.get('arrow'):
                return None, None  # pointee of some other pointer
            e = cf.strip_casts(e['b'])
        elif k == 'idx':
            b = cf.strip_casts(e['b'])
            if not (isinstance(b, dict) and b.get('k') == 'mem' and '[' in b.get('ty', '')):
                return None, None  # indexing a pointer: pointee write
            e = b
        else:
            return None, None
    return None, None


def local_defs(func):
    """{local var: [rhs expr of every assignment/initialiser]}"""
    defs = {}
    for _, _, ev in func.events(('assign', 'decl')):
        if ev['k'] == 'decl':
            for d in ev['d']:
                defs.setdefault(d['n'], []).append(d.get('init'))
        else:
            l = cf.strip_casts(ev['lhs'])
            if l.get('k') == 'ref' and not l.get('g'):
                defs.setdefault(l['n'], []).append(ev.get('rhs') if ev['op'] == '=' else {'k': 'other'})
    return defs


CLIENT_HANDLERS = {'get_next_job', 'submit_job', 'submit_job_nocheck', 'flush_job', 'get_completed_job'}


def is_client_job_ptr(func, base, defs):
    """the job pointer is one the function obtained as an API *client* (IMB_GET_NEXT_JOB & friends through the
    manager's handler slots) or a function-local IMB_JOB object"""
    b = cf.strip_casts(base)
    if not isinstance(b, dict) or b.get('k') != 'ref' or b.get('g') or b.get('p'):
        return False
    ds = defs.get(b['n'])
    if not ds:
        return False
    for d in ds:
        d = cf.strip_casts(d)
        if not isinstance(d, dict):
            return False
        if d.get('k') == 'call' and 'callee' in d:
            c = cf.strip_casts(d['callee'])
            if c.get('k') == 'mem' and c['f'] in CLIENT_HANDLERS and _recname(c['rec']) == 'IMB_MGR':
                continue
        if cf.is_int(d, 0):
            continue
        return False
    return True


def same_job_len_bits(ev, node):
    """job->msg_len_to_hash_in_bits = job->msg_len_to_hash_in_bytes * 8 on the same job"""
    r = cf.strip_casts(ev.get('rhs'))
    if not (isinstance(r, dict) and r.get('k') == 'bin' and r['op'] in ('*', '<<')):
        return False
    l = cf.strip_casts(r['l'])
    k = cf.evalc(r['r'])
    if not (l.get('k') == 'mem' and l['f'] == 'msg_len_to_hash_in_bytes'):
        return False
    if (r['op'] == '*' and k != 8) or (r['op'] == '<<' and k != 3):
        return False
    lb, nb = cf.base_ref(l), cf.base_ref(node)
    return lb is not None and nb is not None and lb['n'] == nb['n'] and \
        [x for x in cf.chain(l)[1] if x][:-1] == [x for x in cf.chain(node['b'])[1] if x]


def run_j1(chk, P):
    r = chk.rule('J1', 'C code writes only library-owned fields of a caller-owned IMB_JOB (status; documented scratch)',
                 floor=150)
    seen = set()
    status_writes = []
    nwrites = 0
    for tu in P.tus():
        for f in P.funcs(tu):
            defs = None
            for bid, i, ev in f.events(('assign',)):
                fld, node = job_field_write(ev['lhs'])
                if not fld:
                    continue
                sk = (f.name, ev['loc'], ev.get('sloc'), fld)
                if sk in seen:
                    continue
                seen.add(sk)
                nwrites += 1
                key = '%s@%s' % (fld, f.name)
                # local IMB_JOB object
                b = cf.strip_casts(node['b'])
                if not node.get('arrow') and isinstance(b, dict) and b.get('k') == 'ref' and not b.get('g') and not b.get('p'):
                    r.ok(key + ':local', 'function-local IMB_JOB object')
                    continue
                if defs is None:
                    defs = local_defs(f)
                if is_client_job_ptr(f, node['b'], defs):
                    r.ok(key + ':client', 'job obtained through the public get-next-job handler (library acting as API client)')
                    continue
                if fld == 'status':
                    status_writes.append((f, ev, node))
                    r.ok(key)
                    continue
                if fld == 'msg_len_to_hash_in_bits' and same_job_len_bits(ev, node):
                    r.ok(key, 'documented CMAC scratch: bit length derived from the byte length in the same storage')
                    continue
                if fld.split('.')[-1] == 'reserved':
                    r.ok(key, 'field declared reserved for the library')
                    continue
                if fld == 'session_id' and f.name == 'imb_set_session':
                    r.ok(key, 'explicit caller request: imb_set_session')
                    continue
                r.bad(key, ev.get('sloc') or ev['loc'],
                      'library code in %s writes caller-owned job field %s (%s)' % (f.name, fld, cf.render(ev['lhs'])))
            # address escapes of job fields to non-const pointer parameters and whole-job memcpy/memset
            for bid, i, ev in f.calls():
                callee = ev['e'].get('fn')
                args = ev['e'].get('a', [])
                decl = P.decl(callee) if callee else None
                for ai, a in enumerate(args):
                    a0 = cf.strip_casts(a)
                    tgt = None
                    if isinstance(a0, dict) and a0.get('k') == 'un' and a0['op'] == '&':
                        tgt = a0['e']
                    elif isinstance(a0, dict) and a0.get('k') == 'mem' and '[' in a0.get('ty', ''):
                        tgt = a0
                    if tgt is None:
                        # whole-job destination of a mem* call
                        if callee in ('memcpy', 'memset', 'memmove', 'clear_mem', 'force_memset_zero', 'imb_clear_mem') and ai == 0 \
                                and isinstance(a0, dict) and a0.get('k') == 'ref' and _recname(a0.get('ty')) == 'IMB_JOB*' and a0.get('p'):
                            sk = (f.name, ev['loc'], 'whole')
                            if sk not in seen:
                                seen.add(sk)
                                r.bad('*@%s' % f.name, ev['loc'], '%s overwrites the caller-owned job through %s' % (callee, a0['n']))
                        continue
                    fld, node = job_field_write(tgt)
                    if not fld:
                        continue
                    pty = None
                    if decl and ai < len(decl['params']):
                        pty = decl['params'][ai]['type']
                    if pty is not None and re.match(r'^\s*const\b', pty):
                        continue
                    if pty is None and callee and callee.startswith(('__builtin', '_mm')):
                        continue
                    sk = (f.name, ev['loc'], ev.get('sloc'), fld, 'esc')
                    if sk in seen:
                        continue
                    seen.add(sk)
                    b = cf.strip_casts(node['b'])
                    if not node.get('arrow') and isinstance(b, dict) and b.get('k') == 'ref' and not b.get('p'):
                        continue
                    if defs is None:
                        defs = local_defs(f)
                    if is_client_job_ptr(f, node['b'], defs):
                        continue
                    key = '&%s@%s' % (fld, f.name)
                    if fld == 'suite_id' and f.name.startswith('set_suite_id'):
                        r.ok(key, 'explicit caller request: IMB_SET_SUITE_ID handler')
                        continue
                    if fld == 'status':
                        r.ok(key)
                        continue
                    r.bad(key, ev.get('sloc') or ev['loc'],
                          'address of caller-owned job field %s passed to %s as a non-const pointer in %s' % (fld, callee, f.name))
    chk.extra['job_field_write_sites'] = nwrites
    return status_writes


def run_j3(chk, P, status_writes):
    r = chk.rule('J3', 'status is only ever assigned an IMB_STATUS enumerator, OR-ed only with a COMPLETED_* stage bit; '
                       'INVALID_ARGS only on validation-failure edges', floor=100)
    st = P.enum_types.get('IMB_STATUS')
    if not st:
        chk.broken('enum IMB_STATUS not found')
        return
    byval = {v: k for k, v in st.items()}
    stage = {st['IMB_STATUS_COMPLETED_CIPHER'], st['IMB_STATUS_COMPLETED_AUTH']}
    seen = set()
    for f, ev, node in status_writes:
        key = '%s@%s' % (f.name, ev['loc'])
        if key in seen:
            continue
        seen.add(key)
        op = ev['op']
        v = cf.evalc(ev.get('rhs'))
        if op == '=':
            if v is None:
                rr = cf.strip_casts(ev.get('rhs'))
                # copying one job's status into another (burst bookkeeping) is not a constant
                r.bad(key, ev.get('sloc') or ev['loc'], 'status assigned a non-constant value %s in %s' % (cf.render(rr), f.name))
                continue
            if v not in byval:
                r.bad(key, ev.get('sloc') or ev['loc'], 'status assigned %d which is not an IMB_STATUS enumerator in %s' % (v, f.name))
                continue
            if v in stage:
                r.bad(key, ev.get('sloc') or ev['loc'],
                      'status overwritten with the partial value %s in %s (stage bits must be OR-ed in)' % (byval[v], f.name))
                continue
            if byval[v] == 'IMB_STATUS_INVALID_ARGS':
                ok = _on_invalid_edge(f, ev)
                r.check(ok, key, ev.get('sloc') or ev['loc'],
                        'IMB_STATUS_INVALID_ARGS assigned in %s on an edge that is not the failing edge of a validation call' % f.name)
                continue
            r.ok(key, byval[v])
        elif op == '|=':
            r.check(v in stage or v == st['IMB_STATUS_COMPLETED'], key, ev.get('sloc') or ev['loc'],
                    'status |= %s in %s: only the two stage bits may be OR-ed in' % (cf.render(ev.get('rhs')), f.name),
                    detail=byval.get(v))
        else:
            r.bad(key, ev.get('sloc') or ev['loc'], 'status modified with %s in %s' % (op, f.name))


VALIDATORS = ('is_job_invalid', 'is_job_invalid_light')


def _on_invalid_edge(f, ev):
    """every path from the entry to the block holding ev passes the failing edge of an is_job_invalid*() test or a
    call imb_set_errno(x, E != 0)"""
    bid_of = None
    for bid, b in f.blocks.items():
        if any(x is ev for x in b['ev']):
            bid_of = bid
            break
    if bid_of is None:
        return False
    stop = set()
    for bid, b in f.blocks.items():
        for x in b['ev']:
            if x is ev:
                break
            if x['k'] == 'call' and x['e'].get('fn') == 'imb_set_errno' and len(x['e']['a']) > 1 and \
                    cf.evalc(x['e']['a'][1]) not in (0, None):
                stop.add(bid)
        t = b.get('term')
        if not t or len(b['succ']) != 2:
            continue
        c = cf.strip_casts(t.get('cond'))
        # `if (run_check && is_job_invalid(...))`: the terminator of the block that evaluates the last operand carries the whole condition
        while isinstance(c, dict) and c.get('k') == 'bin' and c['op'] == '&&':
            c = cf.strip_casts(c['r'])
        if not isinstance(c, dict):
            continue
        succ = None
        if c.get('k') == 'call' and c.get('fn') in VALIDATORS:
            succ = b['succ'][0]
        elif c.get('k') == 'un' and c['op'] == '!' and cf.strip_casts(c['e']).get('fn') in VALIDATORS:
            succ = b['succ'][1]
        elif c.get('k') == 'bin' and c['op'] in ('!=', '==') and cf.strip_casts(c['l']).get('fn') in VALIDATORS and cf.is_int(c['r'], 0):
            succ = b['succ'][0] if c['op'] == '!=' else b['succ'][1]
        if succ is not None and f.pred[succ] == [bid]:
            stop.add(succ)
    if bid_of in stop:
        return True
    reach = f.reachable(stop=lambda b: b in stop)
    return bid_of not in reach or bid_of in stop


# ------------------------------------------------------------------------------------------- J4

def resets_errno_first(P, tu, f, memo, depth=0):
    """True iff on every path from the entry of f an `imb_set_errno(<mgr>, 0)` (directly, or as the first effect of a
    callee defined in the same TU) happens before any return other than on a manager==NULL edge and before
    any other call."""
    key = (tu, f.name)
    if key in memo:
        return memo[key]
    memo[key] = (False, 'recursion')
    mp = [p['name'] for p in f.params if shared.is_mgr_type(p['type'])]
    nullb = set()
    for p in mp:
        nullb |= shared.null_edge_blocks(f, p)
    res = (True, None)
    seen = set()
    st = [f.entry]
    while st:
        b = st.pop()
        if b in seen:
            continue
        seen.add(b)
        if b in nullb:
            continue
        hit = False
        for ev in f.blocks[b]['ev']:
            if ev['k'] == 'call':
                e = ev['e']
                fn = e.get('fn')
                if fn == 'imb_set_errno':
                    if len(e['a']) > 1 and cf.is_int(e['a'][1], 0) and not cf.is_int(e['a'][0], 0):
                        hit = True
                        break
                    res = (False, 'error code set before the reset at %s' % ev['loc'])
                    break
                if fn and fn.startswith(('__builtin', '_mm')):
                    continue
                if fn and P.has(tu, fn) and depth < 6:
                    sub, why = resets_errno_first(P, tu, P.func(tu, fn), memo, depth + 1)
                    if sub:
                        hit = True
                        break
                    res = (False, 'call to %s at %s before any errno reset (%s)' % (fn, ev['loc'], why))
                    break
                res = (False, 'call to %s at %s before any errno reset' % (fn or cf.render(e.get('callee')), ev['loc']))
                break
            if ev['k'] == 'return':
                res = (False, 'return at %s without errno reset' % ev['loc'])
                break
            if ev['k'] == 'assign':
                l = cf.base_ref(ev['lhs'])
                # writes to locals are not effects
                if l is not None and not l.get('g') and not l.get('p') and cf.strip_casts(ev['lhs']).get('k') == 'ref':
                    continue
                res = (False, 'store %s at %s before any errno reset' % (cf.render(ev['lhs']), ev['loc']))
                break
        if not res[0]:
            break
        if hit:
            continue
        if b == f.exit:
            res = (False, 'function end reached without errno reset')
            break
        for s in f.succ(b):
            st.append(s)
    memo[key] = res
    return res


def handler_assignments(P, tu):
    """{field: fn symbol} assigned in init_mb_mgr_*_internal of a variant TU"""
    out = {}
    for f in P.funcs(tu):
        if not re.match(r'init_mb_mgr_\w+_t\d_internal$', f.name):
            continue
        for _, _, ev in f.events(('assign',)):
            l = cf.strip_casts(ev['lhs'])
            rr = cf.strip_casts(ev.get('rhs'))
            if l.get('k') == 'mem' and _recname(l['rec']) == 'IMB_MGR' and isinstance(rr, dict) and rr.get('k') == 'ref' and rr.get('fn'):
                out[l['f']] = (rr['n'], ev['loc'])
    return out


def run_j4(chk, P):
    r = chk.rule('J4', 'every C function installed in an IMB_MGR handler slot that receives the manager resets the '
                       "manager's error code before any other effect", floor=100)
    exc = chk.rule('J4x', 'handlers that take the manager but are not expected to reset errno (reasoned list)', floor=0)
    NO_RESET = {
        # handler field -> reason
        'set_suite_id': 'pure helper that only fills job->suite_id; documented as not touching errno',
    }
    memo = {}
    nvar = 0
    for tu in P.variant_tus():
        ha = handler_assignments(P, tu)
        if not ha:
            continue
        nvar += 1
        for field, (sym, loc) in sorted(ha.items()):
            if not P.has(tu, sym):
                continue  # asm or other TU: covered at object level / in its own TU
            f = P.func(tu, sym)
            if not any(shared.is_mgr_type(p['type']) for p in f.params):
                continue
            ok, why = resets_errno_first(P, tu, f, memo)
            key = '%s:%s' % (tu.split('__')[0], field)
            if field in NO_RESET:
                exc.ok(key, NO_RESET[field])
                continue
            r.check(ok, key, f.loc, 'handler %s (%s) does not reset the manager error code first: %s' % (field, sym, why))
    if nvar < 8:
        chk.broken('only %d variant init functions found' % nvar)


def _sets_errno_somewhere(P, tu, f, memo, depth=0):
    k = (tu, f.name)
    if k in memo:
        return memo[k]
    memo[k] = False
    ok, _ = _every_return_after_errno(P, tu, f, memo, depth)
    memo[k] = ok
    return ok


def _every_return_after_errno(P, tu, f, memo, depth=0):
    def hit(ev):
        if ev['k'] != 'call':
            return False
        fn = ev['e'].get('fn')
        if fn == 'imb_set_errno':
            return True
        if fn and P.has(tu, fn) and depth < 5 and fn != f.name:
            return _sets_errno_somewhere(P, tu, P.func(tu, fn), memo, depth + 1)
        return False
    ok, wit = cf.walk_paths_must(f, f.entry, None, hit, lambda ev: ev['k'] == 'return')
    return ok, ('block %s' % wit if wit is not None else None)


# ------------------------------------------------------------------------------------------- J6

def run_j6(chk, P):
    r = chk.rule('J6', 'imb_get_strerror has a case for every IMB_ERR enumerator, a default and the >= IMB_ERR_MAX '
                       'pre-test; imb_errno_types[] lists every enumerator once', floor=50)
    errs = P.enum_types.get('IMB_ERR')
    if not errs:
        chk.broken('enum IMB_ERR not found')
        return
    lo, hi = errs['IMB_ERR_MIN'], errs['IMB_ERR_MAX']
    want = {n: v for n, v in errs.items() if lo < v < hi}
    fs = P.find('imb_get_strerror')
    if not fs:
        chk.broken('imb_get_strerror not found')
        return
    tu, f = fs[0]
    cases = {}
    has_default = False
    for bid, b in f.blocks.items():
        lab = b.get('label') or {}
        if lab.get('kind') == 'CaseStmt':
            v = cf.evalc(lab['case'])
            # the case must return a string
            rets = [ev for ev in b['ev'] if ev['k'] == 'return']
            cases[v] = (rets[0]['val'] if rets else None, bid)
        elif lab.get('kind') == 'DefaultStmt':
            has_default = True
    for n, v in sorted(want.items(), key=lambda x: x[1]):
        ok = v in cases
        val = cases.get(v, (None, None))[0]
        r.check(ok, n, f.loc, 'imb_get_strerror has no case for %s (%d)' % (n, v))
        if ok:
            s = cf.strip_casts(val) if val else None
            txt = s.get('v') if isinstance(s, dict) and s.get('k') == 'str' else None
            r.check(bool(txt) and txt.strip() != '' and 'Unknown' not in txt, n + ':text', f.loc,
                    'case %s of imb_get_strerror does not return a specific message (%r)' % (n, txt))
    r.check(0 in cases, 'case 0', f.loc, 'imb_get_strerror has no case for 0 (no error)')
    r.check(has_default, 'default', f.loc, 'imb_get_strerror switch has no default')
    # upper-bound pre-test
    pre = False
    for bid, b in f.blocks.items():
        t = b.get('term')
        c = cf.strip_casts(t.get('cond')) if t else None
        if isinstance(c, dict) and c.get('k') == 'bin' and c['op'] in ('>=', '>') and cf.evalc(c['r']) in (hi, hi - 1):
            pre = True
    r.check(pre, 'pretest', f.loc, 'imb_get_strerror lost the errnum >= IMB_ERR_MAX pre-test')
    # every string distinct
    texts = {}
    for v, (val, _) in cases.items():
        s = cf.strip_casts(val) if val else None
        if isinstance(s, dict) and s.get('k') == 'str':
            texts.setdefault(s.get('v'), []).append(v)
    for t, vs in texts.items():
        r.check(len(vs) == 1, 'distinct:%s' % t[:30], f.loc, 'error string %r is returned for several codes %s' % (t, vs))
    # imb_errno_types
    tab = None
    for t in P.tus():
        tt = P.table(t, 'imb_errno_types', required=False)
        if tt:
            tab = tt
    if tab is None:
        chk.broken('imb_errno_types not found')
        return
    vals = [cf.evalc(e['e']) for e in tab['elems']]
    r.check(sorted(vals) == sorted(want.values()), 'imb_errno_types', tab['loc'],
            'imb_errno_types[] does not list every IMB_ERR enumerator exactly once (missing %s, extra/dup %s)' % (
                sorted(set(want.values()) - set(vals)), sorted(v for v in vals if vals.count(v) > 1 or v not in want.values())))


def run_j2(chk, P):
    """asm side: a store whose address is a job pointer (+ constant) may only hit offsetof(IMB_JOB, status)"""
    from .. import asmtyped
    r = chk.rule('J2', 'assembly stores through a job pointer (IMB_JOB* argument, or pointer loaded from a job_in_lane slot) only hit '
                       'offsetof(IMB_JOB, status), with an IMB_STATUS value', floor=200)
    T = asmtyped.Typed(P)
    st = P.enum_types.get('IMB_STATUS', {})
    vals = set(st.values())
    n = 0
    for name, res in sorted(T.results.items()):
        for s_ in res['stores']:
            cl = T.classify_store(name, s_)
            if not cl:
                continue
            fld = None
            if cl['what'] == 'arg' and cl.get('type') == 'IMB_JOB':
                fld = cl.get('field') or ('+%s' % cl.get('off'))
            elif cl['what'] == 'loaded' and cl.get('ptype') and 'IMB_JOB' in cl['ptype'] and cl.get('from_field') and 'job_in_lane' in cl['from_field']:
                fa = T.field_at('IMB_JOB', s_['disp']) if s_['disp'] is not None else None
                fld = fa[0] if fa else '+%s' % s_['disp']
            if fld is None:
                continue
            n += 1
            key = '%s@%#x' % (name, s_['a'] - res['entry'])
            loc = res['lines'].get(s_['a'], T.rel[name])
            if not r.check(fld == 'status', key, loc, '%s writes job field `%s` (%s, %d bytes): caller-owned part of the descriptor' % (
                    name, fld, s_['kind'], s_['w'])):
                continue
            # the store must not be wider than the field: the bytes after `status` belong to the caller's session parameters
            sf = T.field_at('IMB_JOB', T.offset_of('IMB_JOB', 'status'))
            wide_ok = s_['w'] <= sf[2] if sf else True
            if sf and s_['kind'] == 'or' and s_.get('imm') is not None and 0 <= s_['imm'] < (1 << (8 * sf[2])):
                wide_ok = True   # a wider read-modify-write OR of a small constant rewrites the following bytes with their own value
            if sf and not r.check(wide_ok, key + ':width', loc,
                                  '%s writes %d bytes at job->status (a %d-byte field): the following caller-owned field is overwritten' % (
                                      name, s_['w'], sf[2])):
                continue
            if s_['kind'] == 'or':
                r.check(s_['imm'] in (st.get('IMB_STATUS_COMPLETED_CIPHER'), st.get('IMB_STATUS_COMPLETED_AUTH'), st.get('IMB_STATUS_COMPLETED')),
                        key + ':val', loc, '%s ORs %s into job->status' % (name, s_['imm']))
            elif s_['kind'] == 'mov' and s_['src'] is not None and s_['src'][0] == 'I' and s_['src'][1] == s_['src'][2]:
                r.check(s_['src'][1] in vals, key + ':val', loc, '%s stores %d into job->status' % (name, s_['src'][1]))
                # a single stage bit is OR-ed in: the other stage of a chained job may already have set its bit
                partial = (st.get('IMB_STATUS_COMPLETED_CIPHER'), st.get('IMB_STATUS_COMPLETED_AUTH'))
                r.check(s_['src'][1] not in partial, key + ':or', loc,
                        '%s overwrites job->status with the single stage bit %d instead of OR-ing it in: in the other chain order the bit of the '
                        'stage already done is lost and that stage runs again' % (name, s_['src'][1]))
    chk.extra['asm_job_stores'] = n


def run_j7(chk, P):
    """a handed-back job is never partial: shared with C05 (Q2/Q2b/Q4)"""
    from . import c05
    chk.rule_q2 = chk.rule('J7', 'single-job API hands the earliest job back only after a status >= COMPLETED test or complete_job() '
                                 '(never a partial status)', floor=50)
    chk.rule_q2b = chk.rule('J7b', 'burst API hands back only jobs that passed the COMPLETED test / completion', floor=50)
    COMPLETED = P.enum('IMB_STATUS_COMPLETED')
    for tu in P.variant_tus():
        ha = handler_assignments(P, tu)
        roles = {k: v[0] for k, v in ha.items() if k in c05.ROLE_FIELDS}
        c05.run_q2(chk, P, tu, roles, COMPLETED)
        c05.run_burst(chk, P, tu, roles, COMPLETED)


def run(chk):
    P = cf.Program()
    chk.explanation = ('C side: every assignment whose target is storage inside an IMB_JOB reached through a pointer, in every '
                       'function of every library TU, must name a library-owned field (status, the documented CMAC bit-length '
                       'scratch, a field declared "reserved") unless the job is a local object or one the function obtained as an '
                       'API client; status may only receive IMB_STATUS enumerators / stage bits; every C handler installed in the '
                       'manager resets the error code first; error strings are total. Asm side: stores through job pointers hit only '
                       'offsetof(IMB_JOB,status) (typed abstract interpretation of the assembled objects).')
    sw = run_j1(chk, P)
    run_j3(chk, P, sw)
    run_j4(chk, P)
    shared.rule_errno_target(chk, P, 'J5')
    run_j7(chk, P)
    # J9 (= C12-V9): each failure is reported with the code the reference tree gives it (the guard and its error code, per function)
    from . import c12 as _c12
    _c12.run_v9(chk, P, 'J9', None, 2000)
    # J8 (= C05-Q7): a job handed to the stage dispatch is stamped BEING_PROCESSED first
    from . import c05 as _c05
    j8 = chk.rule('J8', 'every path that hands a job to the stage dispatch first sets its status to BEING_PROCESSED (a ring slot keeps the status of its previous use)', floor=9)
    for tu_ in P.variant_tus():
        _c05.run_q7(j8, P, tu_, tu_.split('__')[0])
    run_j2(chk, P)
    run_j6(chk, P)
    # the per-manager error code is decided by the manager alone (shared with C17)
    from . import c17 as _c17
    _c17.run_g7(chk, cf.PROGRAM[0] or cf.Program(), 'G7')

