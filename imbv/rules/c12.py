"""C12 — invalid jobs are rejected untouched with the right error; valid ones accepted.
V1 guard discipline   V2 field<->error-code agreement   V3 validator purity   V4 validation gates processing
V6 bounded table index   V8 errors recorded in the manager   V9 guard catalogue vs confirmed baseline
V7 direct-API null discipline (contradiction rule)"""
import json, os, re
from .. import cf, guards
from . import shared, validation

VALIDATORS = ('is_job_invalid', 'is_job_invalid_light')
DATA = os.path.join(os.path.dirname(os.path.dirname(os.path.abspath(__file__))), 'data')

# which error codes may be reported for a guard whose condition mentions a given job field / parameter.
# Inferred from the ~350 guards of the two validators, read, and frozen with reasons.
FIELD_CODES = {
    # '22' = EINVAL: the in-place requirement of PON/DOCSIS is reported with the errno.h value
    'src': {'IMB_ERR_JOB_NULL_SRC', 'IMB_ERR_JOB_SRC_OFFSET', '22'},
    'dst': {'IMB_ERR_JOB_NULL_DST', 'IMB_ERR_JOB_SRC_OFFSET', '22'},
    'iv': {'IMB_ERR_JOB_NULL_IV'}, '_iv': {'IMB_ERR_JOB_NULL_IV'}, '_iv23': {'IMB_ERR_JOB_NULL_IV'},
    'next_iv': {'IMB_ERR_JOB_NULL_NEXT_IV'},
    'enc_keys': {'IMB_ERR_JOB_NULL_KEY'}, 'dec_keys': {'IMB_ERR_JOB_NULL_KEY'},
    'iv_len_in_bytes': {'IMB_ERR_JOB_IV_LEN'},
    'key_len_in_bytes': {'IMB_ERR_JOB_KEY_LEN'},
    'auth_tag_output': {'IMB_ERR_JOB_NULL_AUTH'},
    'auth_tag_output_len_in_bytes': {'IMB_ERR_JOB_AUTH_TAG_LEN'},
    'aad': {'IMB_ERR_JOB_NULL_AAD'},
    'aad_len_in_bytes': {'IMB_ERR_JOB_AAD_LEN', 'IMB_ERR_JOB_NULL_AAD'},
    'chain_order': {'IMB_ERR_JOB_CHAIN_ORDER'},
    'sgl_state': {'IMB_ERR_JOB_SGL_STATE'},
    'ctx': {'IMB_ERR_JOB_NULL_SGL_CTX'},
    # '14' = EFAULT (errno.h value used for the custom hooks)
    'cipher_func': {'14'}, 'hash_func': {'14'},
    # the wireless/CMAC algorithms report their authentication key with the generic key code
    '_key': {'IMB_ERR_JOB_NULL_AUTH_KEY', 'IMB_ERR_JOB_NULL_KEY'}, '_key_expanded': {'IMB_ERR_JOB_NULL_AUTH_KEY', 'IMB_ERR_JOB_NULL_KEY'},
    '_skey1': {'IMB_ERR_JOB_NULL_AUTH_KEY', 'IMB_ERR_JOB_NULL_KEY'}, '_skey2': {'IMB_ERR_JOB_NULL_AUTH_KEY', 'IMB_ERR_JOB_NULL_KEY'},
    '_k1_expanded': {'IMB_ERR_JOB_NULL_XCBC_K1_EXP'}, '_k2': {'IMB_ERR_JOB_NULL_XCBC_K2'}, '_k3': {'IMB_ERR_JOB_NULL_XCBC_K3'},
    '_hashed_auth_key_xor_ipad': {'IMB_ERR_JOB_NULL_HMAC_IPAD'}, '_hashed_auth_key_xor_opad': {'IMB_ERR_JOB_NULL_HMAC_OPAD'},
    '_init_tag': {'IMB_ERR_JOB_NULL_GHASH_INIT_TAG'},
}
LEN_C = {'IMB_ERR_JOB_CIPH_LEN', 'IMB_ERR_JOB_PON_PLI', 'IMB_ERR_JOB_SRC_OFFSET'}
LEN_H = {'IMB_ERR_JOB_AUTH_LEN', 'IMB_ERR_JOB_CIPH_LEN'}


def validator_tus(P):
    return [tu for tu in P.tus() if P.has(tu, 'is_job_invalid')]


# --------------------------------------------------------------------------------------------- V1

def run_v1(chk, P):
    r = chk.rule('V1', 'validators: every non-zero return is preceded on every path by imb_set_errno(state, E!=0) after the '
                       'last branch; return 0 by none', floor=300)
    done = set()
    for tu in P.tus():
        for fn in VALIDATORS:
            if not P.has(tu, fn):
                continue
            f = P.func(tu, fn)
            # forward may-analysis of "an error code was set since entry": states subset of {'Y','N'}
            st = {b: set() for b in f.blocks}
            st[f.entry] = {'N'}
            work = [f.entry]
            out_state = {}
            while work:
                b = work.pop()
                cur = set(st[b])
                for ev in f.blocks[b]['ev']:
                    if ev['k'] == 'call' and ev['e'].get('fn') == 'imb_set_errno':
                        v = cf.evalc(ev['e']['a'][1]) if len(ev['e']['a']) > 1 else None
                        cur = {'Y'} if v != 0 else {'N'}
                    if ev['k'] == 'return':
                        out_state[(b, id(ev))] = (set(cur), ev)
                for s in f.succ(b):
                    if not cur <= st[s]:
                        st[s] |= cur
                        work.append(s)
            for (b, _), (cur, ev) in out_state.items():
                v = cf.evalc(ev.get('val')) if ev.get('val') is not None else None
                loc = ev.get('sloc') or ev['loc']
                key = '%s@%s' % (fn, loc.split('/')[-1])
                if (tu.split('__')[0], key) in done:
                    pass
                if v is None:
                    r.bad(key, loc, '%s returns a non-constant value' % fn)
                elif v != 0:
                    r.check(cur == {'Y'}, key, loc, '%s returns %d (reject) on a path that did not set an error code' % (fn, v))
                else:
                    r.check(cur == {'N'}, key, loc, '%s returns 0 (accept) on a path that set an error code' % fn)
            if tu != validator_tus(P)[0]:
                continue


# --------------------------------------------------------------------------------------------- V2

def run_v2(chk, P, cats):
    r = chk.rule('V2', 'the error code of each guard names the field its condition tests', floor=250)
    for fn, cat in cats.items():
        for g in cat:
            if g['cond'] is None:
                # default: of the mode / algorithm switch
                want = None
                if any('cipher_mode' in k and 'default' in v for k, v in g['cases'].items()):
                    want = {'IMB_ERR_CIPH_MODE'}
                if any('hash_alg' in k and 'default' in v for k, v in g['cases'].items()):
                    want = (want or set()) | {'IMB_ERR_HASH_ALGO'}
                key = '%s:default@%s' % (fn, g['loc'].split(':')[-1])
                if any('sgl_state' in k and 'default' in v for k, v in g['cases'].items()):
                    want = (want or set()) | {'IMB_ERR_JOB_SGL_STATE'}
                if want is None:
                    r.bad(key, g['loc'], 'unconditional rejection outside a switch default in %s' % fn)
                else:
                    r.check(g['err'] in want, key, g['loc'], 'switch default in %s reports %s, expected one of %s' % (fn, g['err'], sorted(want)))
                continue
            cond = g['cond']
            fields = set(re.findall(r'(?:->|\.)([A-Za-z_][A-Za-z0-9_]*)(?![A-Za-z0-9_]*(?:->|\.))', cond))
            idents = set(re.findall(r'\b([A-Za-z_][A-Za-z0-9_]*)\b', cond))
            allowed = set()
            matched = []
            for fld, codes in FIELD_CODES.items():
                if fld in fields or (fld == 'key_len_in_bytes' and fld in idents):
                    allowed |= codes
                    matched.append(fld)
            if fields & {'msg_len_to_cipher_in_bytes', 'msg_len_to_cipher_in_bits', 'cipher_start_src_offset_in_bytes',
                         'cipher_start_offset_in_bits', 'cipher_start_src_offset_in_bits'} or 'total_sgl_len' in idents or 'pli' in idents:
                allowed |= LEN_C
                matched.append('cipher length/offset')
            if fields & {'msg_len_to_hash_in_bytes', 'msg_len_to_hash_in_bits', 'hash_start_src_offset_in_bytes'}:
                allowed |= LEN_H
                matched.append('hash length/offset')
            if 'cipher_direction' in idents and not matched:
                allowed |= {'IMB_ERR_JOB_CIPH_DIR'}
                matched.append('cipher_direction')
            if 'cipher_mode' in idents and not matched:
                allowed |= {'IMB_ERR_CIPH_MODE'}
                matched.append('cipher_mode')
            if 'hash_alg' in idents and not (set(matched) - {'cipher_mode'}):
                allowed |= {'IMB_ERR_HASH_ALGO', 'IMB_ERR_CIPH_MODE'}
                matched.append('hash_alg')
            if 'cipher_direction' in idents and not matched:
                allowed |= {'IMB_ERR_JOB_CIPH_DIR'}
                matched.append('cipher_direction')
            if 'seg' in idents or 'ks_ptr' in idents:
                allowed |= {'IMB_ERR_JOB_NULL_SRC', 'IMB_ERR_JOB_NULL_DST', 'IMB_ERR_JOB_NULL_KEY', 'IMB_ERR_JOB_NULL_SGL_CTX'}
                matched.append('segment/key-schedule pointer')
            key = '%s:%s@%s' % (fn, g['err'].replace('IMB_ERR_', ''), g['loc'].split(':')[-1])
            if not matched:
                r.note('guard with unclassified condition %s -> %s at %s' % (cond, g['err'], g['loc']))
                r.ok(key, 'unclassified')
                continue
            r.check(g['err'] in allowed, key, g['loc'],
                    'guard `%s` in %s reports %s; a condition on %s must report one of %s' % (cond, fn, g['err'], matched, sorted(allowed)))


# --------------------------------------------------------------------------------------------- V3

PURE_CALLEES = {'imb_set_errno', '__builtin_bswap64', 'BSWAP64', '__builtin_bswap32'}


def run_v3(chk, P):
    r = chk.rule('V3', 'validators are pure: no store except to locals, no call except imb_set_errno/bswap, job stays const',
                 floor=100)
    for tu in validator_tus(P)[:1] + [t for t in P.tus() if P.has(t, 'is_job_invalid_light') and not P.has(t, 'is_job_invalid')][:1]:
        todo = [(fn, fn) for fn in VALIDATORS]
        done = set()
        while todo:
            fn, root = todo.pop(0)
            if fn in done or not P.has(tu, fn):
                continue
            done.add(fn)
            f = P.func(tu, fn)
            for p in f.params:
                if 'IMB_JOB' in p['type']:
                    r.check('const' in p['type'], '%s:param %s' % (fn, p['name']), f.loc, 'job parameter of %s is no longer const' % fn)
            for bid, i, ev in f.events():
                loc = ev.get('sloc') or ev['loc']
                if ev['k'] == 'assign':
                    b = cf.base_ref(ev['lhs'])
                    l = cf.strip_casts(ev['lhs'])
                    local_scalar = b is not None and not b.get('g') and not b.get('p') and \
                        not any(n.get('k') == 'un' and n['op'] == '*' for n in cf.walk(l)) and \
                        not any(n.get('k') == 'mem' and n.get('arrow') for n in cf.walk(l))
                    r.check(local_scalar, '%s:store@%s' % (fn, loc.split(':')[-1]), loc,
                            'validator %s stores to %s' % (fn, cf.render(ev['lhs'])))
                elif ev['k'] == 'call':
                    c = ev['e'].get('fn')
                    if c and c not in PURE_CALLEES and P.has(tu, c) and len(done) < 40:
                        # a helper of the validator (checks factored out): it must be pure itself
                        todo.append((c, root))
                        r.ok('%s:helper %s' % (fn, c))
                    else:
                        r.check(c in PURE_CALLEES, '%s:call %s@%s' % (fn, c, loc.split(':')[-1]), loc,
                                'validator %s calls %s' % (fn, c or cf.render(ev['e'].get('callee'))))
                    for a in ev['e'].get('a', []):
                        for n in cf.walk(a):
                            if n.get('k') == 'cast' and 'const' in n.get('from', '') and 'const' not in n.get('ty', '') and '*' in n.get('ty', ''):
                                r.bad('%s:constcast@%s' % (fn, loc.split(':')[-1]), loc, 'const cast away in %s' % fn)


# --------------------------------------------------------------------------------------------- V4

NONPROC = {'ADV_JOBS', 'ADV_N_JOBS', 'JOBS', 'imb_set_errno', 'is_job_invalid', 'is_job_invalid_light', 'set_cipher_suite_id', 'calc_cipher_tab_index',
           'queue_sz', 'queue_sz_remaining', 'get_queue_sz_end', '__builtin_bswap64'}


def _validator_sites(f):
    """[(test block, fail successor, pass successor)] for `if (is_job_invalid(...))`"""
    out = []
    for bid, b in f.blocks.items():
        t = b.get('term')
        if not t or len(b['succ']) != 2 or t['kind'] != 'IfStmt':
            continue
        c = cf.strip_casts(t.get('cond'))
        if not isinstance(c, dict):
            continue
        if c.get('k') == 'call' and c.get('fn') in VALIDATORS:
            out.append((bid, b['succ'][0], b['succ'][1], c))
        elif c.get('k') == 'un' and c['op'] == '!' and cf.strip_casts(c['e']).get('fn') in VALIDATORS:
            out.append((bid, b['succ'][1], b['succ'][0], cf.strip_casts(c['e'])))
    return out


def run_v4(chk, P):
    r = chk.rule('V4', 'with checking on, a rejected job reaches no processing call and nothing but status/error is stored; '
                       'the validation loop covers exactly the jobs that are then processed', floor=400)
    tu = validator_tus(P)
    if not tu:
        chk.broken('no TU defines is_job_invalid')
        return
    nfun = 0
    for t in tu:
        for f in P.funcs(t):
            sites = validation.sites_of(P, t, f)
            if not sites or f.name in VALIDATORS:
                continue
            if validation.wrapper_info(P, t, f.name):
                is_wrapper = True   # validates only: the rules about processing apply to its callers
            else:
                is_wrapper = False
            nfun += 1
            env = {'run_check': 1} if f.param_index('run_check') is not None else {}
            dom = f.dominators_env(env)
            for tb, fail, ok, call, wrapf in sites:
                key = '%s:%s' % (t.split('__')[0], f.name)
                # (a) from the failing edge: no processing call, only status / jobs[0] stores
                reach = f.reachable(fail, env, stop=lambda b: b == f.exit)
                # blocks shared with the accepting path after a join are not "reject-only"; restrict to blocks
                # dominated by the failing successor (plus goto targets reached only from reject edges)
                rej = {b for b in reach if fail in dom.get(b, ())}
                # goto return_invalid_job: label blocks reachable only from rejecting blocks
                changed = True
                while changed:
                    changed = False
                    for b in reach - rej:
                        ps = f.pred[b]
                        if ps and all(p in rej or _is_errno_guard(f, p) for p in ps) and b != f.exit:
                            rej.add(b)
                            changed = True
                bad = None
                for b in rej:
                    for ev in f.blocks[b]['ev']:
                        if ev['k'] == 'call' and ev['e'].get('fn') not in NONPROC:
                            bad = 'processing call %s at %s on the rejected-job path' % (ev['e'].get('fn') or cf.render(ev['e'].get('callee')), ev['loc'])
                        if ev['k'] == 'assign':
                            l = cf.strip_casts(ev['lhs'])
                            okst = (l.get('k') == 'mem' and l['f'] == 'status') or (l.get('k') == 'idx' and cf.is_int(l['i'], 0)) or \
                                   (l.get('k') == 'ref' and not l.get('g'))
                            if not okst:
                                bad = 'store to %s at %s on the rejected-job path' % (cf.render(l), ev['loc'])
                            if l.get('k') == 'mem' and l['f'] == 'status' and cf.evalc(ev.get('rhs')) != P.enum('IMB_STATUS_INVALID_ARGS'):
                                bad = 'rejected job gets status %s at %s' % (cf.render(ev.get('rhs')), ev['loc'])
                r.check(bad is None, key + ':reject-path', f.loc, '%s: %s' % (f.name, bad))
                # rejected path must set INVALID_ARGS before returning
                okk, wit = cf.walk_paths_must(
                    f, fail, env,
                    lambda ev: ev['k'] == 'assign' and cf.strip_casts(ev['lhs']).get('f') == 'status' and
                    cf.evalc(ev.get('rhs')) == P.enum('IMB_STATUS_INVALID_ARGS'),
                    lambda ev: ev['k'] == 'return')
                if call.get('fn') == 'is_job_invalid_light':
                    okk = True  # session query: nothing is handed back
                if wrapf is not None:
                    okk = True  # the wrapper marks the rejected job (checked on the wrapper itself)
                    # the wrapper validates the caller's whole job array: array and count are handed through unchanged
                    pn = {p['name'] for p in f.params}
                    wcall = None
                    for ev in f.blocks[tb]['ev']:
                        if ev['k'] == 'call' and ev['e'].get('fn') == wrapf.name:
                            wcall = ev['e']
                    c_ = cf.strip_casts(f.blocks[tb]['term'].get('cond'))
                    if wcall is None:
                        wcall = c_ if c_.get('k') == 'call' else cf.strip_casts(c_.get('e'))
                    for i_, p_ in enumerate(wrapf.params):
                        if ('IMB_JOB' in p_['type'] or p_['name'].startswith('n_')) and i_ < len(wcall.get('a', [])):
                            a_ = cf.strip_casts(wcall['a'][i_])
                            r.check(a_.get('k') == 'ref' and a_.get('n') in pn, key + ':pass-through:' + p_['name'], f.loc,
                                    '%s hands `%s` to %s as %s: the wrapper no longer validates the jobs that are processed' % (
                                        f.name, cf.render(a_), wrapf.name, p_['name']))
                r.check(okk, key + ':status', f.loc, '%s: a rejected job can be handed back without IMB_STATUS_INVALID_ARGS' % f.name)
                # (b) every processing call is dominated by the validation (the test block, or its enclosing loop head)
                head = _enclosing_loop_head(f, tb, dom)
                anchor = head if head is not None else tb
                if head is not None:
                    t_ = f.blocks[head]['term']
                    c = guards.canon(t_.get('fullcond')) if t_.get('fullcond') else None
                    pnames = {p['name'] for p in f.params}
                    m = re.match(r'^(\w+) < (\w+)$', c or '')
                    okb = bool(m) and m.group(2) in pnames
                    r.check(okb, key + ':loop-bound', t_['loc'],
                            '%s: validation loop condition `%s` does not run over the whole job-count parameter' % (f.name, c))
                    # loop must start at 0
                    init_ok = _loop_starts_at_zero(f, head, m.group(1) if m else None)
                    r.check(init_ok, key + ':loop-init', t_['loc'], '%s: validation loop does not start at job 0' % f.name)
                if is_wrapper:
                    r.ok(key + ':wrapper', 'validation wrapper')
                    continue
                allr = f.reachable(None, env)
                nproc = 0
                for b in allr:
                    for ev in f.blocks[b]['ev']:
                        if ev['k'] == 'call' and ev['e'].get('fn') not in NONPROC and not (ev['e'].get('fn') or '').startswith('__builtin'):
                            nproc += 1
                            if anchor not in dom.get(b, ()):
                                r.bad(key + ':order', ev.get('sloc') or ev['loc'],
                                      '%s: processing call %s is reachable without passing the validation of the jobs' % (
                                          f.name, ev['e'].get('fn') or cf.render(ev['e'].get('callee'))))
                r.check(nproc > 0, key + ':proc', f.loc, '%s has no processing call after validation' % f.name)
                # constants passed to the validator agree with the kernels: checked under C09
    chk.extra['functions_with_validation'] = nfun


def _is_errno_guard(f, bid):
    b = f.blocks[bid]
    return any(ev['k'] == 'call' and ev['e'].get('fn') == 'imb_set_errno' and cf.evalc(ev['e']['a'][1]) not in (0, None)
               for ev in b['ev'])


def _enclosing_loop_head(f, bid, dom):
    """nearest dominating block with a For/While terminator whose body (true successor) dominates bid"""
    best = None
    for d in dom.get(bid, ()):
        t = f.blocks[d].get('term')
        if t and t['kind'] in ('ForStmt', 'WhileStmt') and len(f.blocks[d]['succ']) == 2:
            body = f.blocks[d]['succ'][0]
            if body is not None and body in dom.get(bid, ()):
                if best is None or best in dom.get(d, ()):
                    best = d
    return best


def _loop_starts_at_zero(f, head, var):
    if var is None:
        return False
    # the non-back-edge predecessor(s) of the head end with `var = 0`
    dom = f.dominators()
    ok = False
    for p in f.pred[head]:
        if head in dom.get(p, ()):
            continue  # back edge
        # search backwards through straight-line predecessors for the last assignment to var
        b = p
        seen = set()
        while b is not None and b not in seen:
            seen.add(b)
            found = None
            for ev in reversed(f.blocks[b]['ev']):
                if ev['k'] == 'assign' and cf.strip_casts(ev['lhs']).get('n') == var:
                    found = ev
                    break
                if ev['k'] == 'decl':
                    for d in ev['d']:
                        if d['n'] == var and d.get('init') is not None:
                            found = {'op': '=', 'rhs': d['init']}
                    if found:
                        break
            if found:
                if found['op'] == '=' and cf.evalc(found.get('rhs')) == 0:
                    ok = True
                else:
                    return False
                break
            ps = f.pred[b]
            b = ps[0] if len(ps) == 1 else None
    return ok


# --------------------------------------------------------------------------------------------- V6

def run_v6(chk, P):
    r = chk.rule('V6', 'every subscript of the tag-length tables by hash_alg lies under case labels below the table length',
                 floor=10)
    tu = validator_tus(P)[0]
    f = P.func(tu, 'is_job_invalid')
    sizes = {}
    for _, _, ev in f.events(('decl',)):
        for d in ev['d']:
            m = re.search(r'\[(\d+)\]', d['ty'])
            if m and d['n'].startswith('auth_tag_len'):
                sizes[d['n']] = int(m.group(1))
    if len(sizes) < 2:
        chk.broken('auth_tag_len_* tables not found in is_job_invalid')
        return
    cctx = guards.case_contexts(f)
    for bid, b in f.blocks.items():
        nodes = []
        t = b.get('term')
        if t and t.get('cond'):
            nodes.extend(cf.walk(t['cond']))
        for ev in b['ev']:
            for k in ('e', 'lhs', 'rhs', 'val'):
                if ev.get(k):
                    nodes.extend(cf.walk(ev[k]))
        for n in nodes:
            if n.get('k') != 'idx':
                continue
            base = cf.strip_casts(n['b'])
            if not (isinstance(base, dict) and base.get('k') == 'ref' and base['n'] in sizes):
                continue
            idx = guards.lv(n['i'])
            cases = None
            for sexpr, vals in cctx.get(bid, {}).items():
                if sexpr == idx:
                    cases = vals
            key = '%s[%s]@b%d' % (base['n'], idx, bid)
            loc = (t or {}).get('loc') or f.loc
            if cases is None:
                r.bad(key, loc, '%s indexed by %s outside a switch on it' % (base['n'], idx))
                continue
            mx = max((v for v in cases if v != 'default'), default=None)
            r.check('default' not in cases and mx is not None and mx < sizes[base['n']], key, loc,
                    '%s[%d entries] indexed by %s under case labels %s' % (base['n'], sizes[base['n']], idx, sorted(map(str, cases))))


# --------------------------------------------------------------------------------------------- V9

BASELINE = os.path.join(DATA, 'guards_baseline.json')


def guard_tuples(P, tu, f, cat=None):
    """the reject guards of f as semantic tuples [error code, sorted atoms of the rejecting conjunction]: names of locals are not
    facts (single-definition locals are replaced by their initialisers, others by their type); switch labels, enclosing
    conditions and the guard's own condition are folded into one conjunction, a disjunction is one guard per disjunct, checks
    factored out into helpers are attributed to the caller"""
    out = set()
    cat = guards.catalogue(f, abstract=True) if cat is None else cat
    for g in cat:
        for conj in guards.normal_forms(g):
            out.add(json.dumps([g['err'], list(conj)]))
    return out


def all_guard_functions(P):
    """{(tu, fn): set(tuples)} for every function of every TU that contains a reject guard"""
    res = {}
    for tu in P.tus():
        direct = {f.name for f in P.funcs(tu) if any(True for _ in f.calls('imb_set_errno'))}
        for f in P.funcs(tu):
            # its own reject guards, or those of a helper it delegates to
            has = f.name in direct or any(ev['e'].get('fn') in direct for _, _, ev in f.calls())
            if not has:
                continue
            tups = guard_tuples(P, tu, f)
            if tups:
                res[(tu, f.name)] = tups
    return res


def run_v9(chk, P, rid='V9', select=None, floor=2000):
    r = chk.rule(rid, 'every parameter guard confirmed on the reference tree (function, mode/algorithm context, canonical '
                      'condition, error code) is still present' + (' [queue and burst functions]' if select else ''), floor=floor)
    if not os.path.exists(BASELINE):
        chk.broken('guard baseline missing (imbv/data/guards_baseline.json)')
        return
    with open(BASELINE) as fjs:
        base = json.load(fjs)
    cur = all_guard_functions(P)
    nmiss = 0
    reported = set()
    for key, tl in sorted(base['functions'].items()):
        tu, fn = key.split('::')
        if select is not None and not select(fn):
            continue
        if tu not in P.facts:
            r.note('TU %s of the baseline is not built now' % tu)
            continue
        have = cur.get((tu, fn), set())
        if not P.has(tu, fn):
            # the function was renamed or merged into another one: its guards may live in a function the baseline does not know
            have = set()
            for (tu2, fn2), tups in cur.items():
                if tu2 == tu and ('%s::%s' % (tu2, fn2)) not in base['functions']:
                    have |= tups
        for tjs in tl:
            err, conj = json.loads(tjs)
            ctxa = [a for a in conj if a.startswith(('cipher_mode ==', 'hash_alg ==', '(cipher_mode ==', '(hash_alg =='))]
            ik = '%s:%s %s -> %s' % (tu.split('__')[0], fn, ' && '.join(conj)[:160], str(err).replace('IMB_ERR_', ''))
            if tjs in have:
                r.ok(ik)
            else:
                if (fn, tjs) in reported:
                    r.instances += 1  # same guard missing from the same inline function in another TU
                    continue
                reported.add((fn, tjs))
                nmiss += 1
                if nmiss <= 40:
                    # say what is there instead
                    near = [json.loads(x) for x in have if json.loads(x)[0] == err and set(ctxa) <= set(json.loads(x)[1])]
                    loc = (P.func(tu, fn).loc if P.has(tu, fn) else tu)
                    r.bad(ik, loc,
                          'guard no longer present in %s: `%s` must be rejected with %s%s' % (
                              fn, ' && '.join(conj), err,
                              ('; guards with this error code now: ' + ' | '.join(' && '.join(n[1]) for n in near[:3])) if near else ''))
                else:
                    r.instances += 1
    chk.extra['baseline_guards'] = sum(len(v) for v in base['functions'].values())
    chk.extra['current_guards'] = sum(len(v) for v in cur.values())


def write_baseline(P):
    cur = all_guard_functions(P)
    os.makedirs(DATA, exist_ok=True)
    with open(BASELINE, 'w') as f:
        json.dump({'note': 'guard catalogue of the reference tree (after the fix: commits), generated by '
                           '`python3 -m imbv.rules.c12 --write-baseline`; semantic tuples, no source text or positions',
                   'functions': {'%s::%s' % k: sorted(v) for k, v in sorted(cur.items())}}, f, indent=0)
    return sum(len(v) for v in cur.values())


# --------------------------------------------------------------------------------------------- V10

def gating_params(P, tu, fname, memo={}):
    """parameters of a function that switch its reject guards on: some guard holds only under `<param> != 0`"""
    key = (tu, fname)
    if key not in memo:
        f = P.func(tu, fname)
        pn = {p['name'] for p in f.params}
        out = set()
        if any(True for _ in f.calls('imb_set_errno')):
            for g in guards.catalogue(f):
                for c in g['ctx']:
                    m = re.match(r'^(\w+) != 0$', c)
                    if m and m.group(1) in pn:
                        out.add(m.group(1))
        memo[key] = out
    return memo[key]


def run_v10(chk, P):
    """sibling rule: the functions bound to one handler slot of IMB_MGR by the nine variants are implementations of one entry point;
    where they call a shared helper whose parameter checks are switched by a parameter, they all pass the same value for it"""
    from .c14 import handler_assignments
    r = chk.rule('V10', 'the variants\' implementations of one entry point (functions bound to the same IMB_MGR handler slot) pass the same '
                        'value for every parameter that switches a shared helper\'s parameter checks on', floor=10)
    slots = {}
    for tu in P.variant_tus():
        for fld, (sym, loc) in handler_assignments(P, tu).items():
            slots.setdefault(fld, {})[tu.split('__')[0]] = sym
    for fld, impls in sorted(slots.items()):
        sigs = {}
        for vt, sym in sorted(impls.items()):
            found = P.find(sym)
            if not found:
                continue   # assembly routine
            tu2, f = found[0]
            sig = []
            for _, _, ev in f.events(('call',)):
                cal = ev['e'].get('fn')
                if not cal or not P.has(tu2, cal):
                    continue
                gp = gating_params(P, tu2, cal)
                if not gp:
                    continue
                g = P.func(tu2, cal)
                for i, prm in enumerate(g.params):
                    if prm['name'] in gp and i < len(ev['e'].get('a', [])):
                        a = cf.strip_casts(ev['e']['a'][i])
                        v = cf.evalc(a)
                        sig.append((cal, prm['name'], v if v is not None else ('param' if a.get('p') else cf.render(a))))
            if sig:
                sigs[(vt, sym)] = (sorted(set(sig), key=str), f.loc)
        if len(sigs) < 2:
            continue
        vals = {}
        for (vt, sym), (sig, loc) in sigs.items():
            for cal, prm, v in sig:
                vals.setdefault((cal, prm), {}).setdefault(str(v), []).append((vt, sym, loc))
        for (cal, prm), byv in sorted(vals.items()):
            key = '%s:%s(%s)' % (fld, cal, prm)
            if len(byv) == 1:
                r.ok(key, {'value': list(byv)[0], 'variants': sum(len(x) for x in byv.values())})
                continue
            major = max(byv, key=lambda k_: len(byv[k_]))
            for v, lst in sorted(byv.items()):
                if v == major:
                    continue
                for vt, sym, loc in lst:
                    r.bad('%s:%s' % (key, vt), loc,
                          '%s (bound to state->%s by %s) calls %s with %s = %s; the other variants\' implementations pass %s: the parameter '
                          'checks of this entry point are switched differently in this variant' % (sym, fld, vt, cal, prm, v, major))


# --------------------------------------------------------------------------------------------- V7

def run_v7(chk, P):
    """contradiction rule: a pointer parameter that is NULL-tested with an error exit somewhere in a function is not
    dereferenced (or handed to a callee) on a path that has not passed that test"""
    r = chk.rule('V7', 'a pointer parameter that a function NULL-checks (reject + error code) is never used before that check',
                 floor=60)
    seen = set()
    for tu in P.tus():
        for f in P.funcs(tu):
            if f.name in seen:
                continue
            ptrs = [p['name'] for p in f.params if '*' in p['type']]
            if not ptrs:
                continue
            cat = None
            for pn in ptrs:
                # guard blocks testing `pn == 0`
                tests = []
                for bid, b in f.blocks.items():
                    t = b.get('term')
                    if not t or t['kind'] != 'IfStmt' or 'fullcond' not in t:
                        continue
                    c = guards.canon(t['fullcond'])
                    if c == '%s == 0' % pn and b['succ'][0] is not None and guards.is_guard_block(f.blocks[b['succ'][0]]):
                        tests.append(bid)
                if not tests:
                    continue
                seen.add(f.name)
                # any use (deref / call argument) of pn reachable from entry without passing a test block; a check
                # that sits under `if (run_check)` / `if (check_param)` is deliberately absent in the no-check entry
                env = {}
                for tb_ in tests:
                    env.update(f.guarding_param_env(tb_))
                reach = f.reachable(None, env, stop=lambda b: b in tests)
                bad = None
                for b in reach:
                    if b in tests:
                        continue
                    for ev in f.blocks[b]['ev']:
                        if _uses_ptr(ev, pn):
                            bad = ev
                            break
                    if bad:
                        break
                r.check(bad is None, '%s(%s)' % (f.name, pn), (bad or {}).get('loc', f.loc),
                        '%s: parameter %s is used at %s before the NULL check that rejects it' % (f.name, pn, (bad or {}).get('loc')))


def _uses_ptr(ev, pn):
    def deref(e):
        for n in cf.walk(e):
            if n.get('k') == 'mem' and n.get('arrow'):
                b = cf.strip_casts(n['b'])
                if isinstance(b, dict) and b.get('k') == 'ref' and b['n'] == pn:
                    return True
            if n.get('k') == 'un' and n['op'] == '*':
                b = cf.strip_casts(n['e'])
                if isinstance(b, dict) and b.get('k') == 'ref' and b['n'] == pn:
                    return True
            if n.get('k') == 'idx':
                b = cf.strip_casts(n['b'])
                if isinstance(b, dict) and b.get('k') == 'ref' and b['n'] == pn:
                    return True
        return False
    if ev['k'] == 'call':
        if ev['e'].get('fn') == 'imb_set_errno':
            return False
        for a in ev['e'].get('a', []):
            a0 = cf.strip_casts(a)
            if isinstance(a0, dict) and a0.get('k') == 'ref' and a0['n'] == pn:
                return True
            if deref(a):
                return True
        return False
    for k in ('lhs', 'rhs', 'val'):
        if ev.get(k) and deref(ev[k]):
            return True
    if ev['k'] == 'decl':
        for d in ev['d']:
            if d.get('init') and deref(d['init']):
                return True
    return False



def run_v11(chk, P):
    """V11: a synchronous burst helper named for one direction validates its jobs with that direction: is_job_invalid() applies direction-
    specific rules (which key pointer must be non-NULL, the 16-bit length limit of multi-buffer CBC encrypt), so a decrypt helper that
    validates as encrypt rejects valid jobs and lets a NULL dec_keys through to the kernel"""
    from . import validation
    r = chk.rule('V11', 'a burst helper named ..._enc / ..._dec validates its jobs with IMB_DIR_ENCRYPT / IMB_DIR_DECRYPT respectively', floor=20)
    ENC, DEC = P.enum('IMB_DIR_ENCRYPT'), P.enum('IMB_DIR_DECRYPT')
    for tu in P.variant_tus():
        vt = tu.split('__')[0]
        for f in P.funcs(tu):
            toks = set(re.split(r'_+', f.name))
            want = ENC if toks & {'enc', 'encrypt'} else DEC if toks & {'dec', 'decrypt'} else None
            if want is None or 'burst' not in f.name:
                continue
            for c in validation.validator_calls(P, tu, f):
                if c.get('fn') != 'is_job_invalid' or len(c.get('a', [])) < 5:
                    continue
                d = cf.evalc(c['a'][4])
                if d is None:
                    continue
                r.check(d == want, '%s:%s' % (vt, f.name), f.loc, '%s validates its jobs with direction %s' % (
                    f.name, 'IMB_DIR_ENCRYPT' if d == ENC else 'IMB_DIR_DECRYPT' if d == DEC else d))


def run(chk):
    P = cf.Program()
    chk.explanation = ('Guard catalogue of is_job_invalid / is_job_invalid_light and of every other C function with reject guards '
                       '(extracted from the clang CFG of every library TU, canonicalised): discipline (V1), field/error agreement '
                       '(V2), purity (V3), gating of processing by validation in the job, async-burst and every synchronous burst '
                       'entry point (V4), bounded table index (V6), NULL-check-before-use (V7), errors recorded in the manager (V8), '
                       'and presence of every guard confirmed on the reference tree (V9). Not decided: completeness against the '
                       'prose documentation; that asm direct-API functions leave buffers untouched.')
    tu0 = validator_tus(P)
    if not tu0:
        chk.broken('is_job_invalid not found')
        return
    cats = {fn: guards.catalogue(P.func(tu0[0], fn)) for fn in VALIDATORS if P.has(tu0[0], fn)}
    chk.extra['validator_guards'] = {k: len(v) for k, v in cats.items()}
    run_v1(chk, P)
    run_v2(chk, P, cats)
    run_v3(chk, P)
    run_v4(chk, P)
    run_v6(chk, P)
    run_v7(chk, P)
    shared.rule_errno_target(chk, P, 'V8')
    run_v9(chk, P)
    run_v10(chk, P)
    run_v11(chk, P)


if __name__ == '__main__':
    import sys
    if '--write-baseline' in sys.argv:
        print(write_baseline(cf.Program()))
