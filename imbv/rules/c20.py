"""C20 — power-up self-test gates initialisation.
F1 init runs and honours the self-test (and runs it only on an initialised manager)
F2 the pass result is a conjunction: no dropped result of any test call
F3 every KAT compares every expected output, failing edge rejects
F4 corruption hook precedes processing; START / PASS|FAIL around each vector
F5 every vector of every table is visited; the documented algorithm list is covered"""
import copy, re
from .c14 import _recname
from .. import cf, guards
from . import shared

TU = 'x86_64__self_test.c'
# algorithm descriptions announced on the reference tree (README section "self-test"); a superset is fine
REQUIRED_DESCRIPTIONS = [
    'AES128-CBC', 'AES192-CBC', 'AES256-CBC', 'AES128-CTR', 'AES192-CTR', 'AES256-CTR', 'AES128-ECB', 'AES192-ECB',
    'AES256-ECB', 'AES128-CFB', 'AES192-CFB', 'AES256-CFB', 'TDES-EDE-CBC',
    'HMAC-SHA1', 'HMAC-SHA2-224', 'HMAC-SHA2-256', 'HMAC-SHA2-384', 'HMAC-SHA2-512', 'SHA1', 'SHA2-224', 'SHA2-256',
    'SHA2-384', 'SHA2-512',
    'AES128-CMAC', 'AES256-CMAC', 'AES128-GMAC', 'AES192-GMAC', 'AES256-GMAC',
    'AES128-GCM', 'AES192-GCM', 'AES256-GCM', 'AES128-CCM', 'AES256-CCM',
]


def norm_desc(s):
    return re.sub(r'[^A-Z0-9]', '', s.upper())


def const_return(fname, args):
    """the constant a function of the self-test TU returns when called with the given (partly constant) arguments, if all returns
    reachable under those constants agree — lets a verdict pass through a reporting helper such as `report_result(mgr, pass)`"""
    P = cf.PROGRAM[0]
    if P is None or not P.has(TU, fname):
        return None
    g = P.func(TU, fname)
    env = {}
    for i, prm in enumerate(g.params):
        if i < len(args) and args[i] is not None:
            env[prm['name']] = args[i]
    if not env:
        return None
    vals = set()
    for b in g.reachable(None, env):
        for ev in g.blocks[b]['ev']:
            if ev['k'] == 'return':
                vals.add(cf.evalc(ev.get('val'), env) if ev.get('val') is not None else None)
    return vals.pop() if len(vals) == 1 and None not in vals else None


def subst_eval(cond, match, value, env=None):
    """evaluate cond with every sub-node satisfying match() replaced by the constant value"""
    def rec(e):
        if not isinstance(e, dict):
            return e
        if match(e):
            return {'k': 'int', 'v': value}
        n = dict(e)
        for k in ('b', 'i', 'e', 'l', 'r', 'c', 't', 'f'):
            if isinstance(n.get(k), dict):
                n[k] = rec(n[k])
        if n.get('k') == 'call' and n.get('fn') and isinstance(n.get('a'), list):
            n['a'] = [rec(a) if isinstance(a, dict) else a for a in n['a']]
            v = const_return(n['fn'], [cf.evalc(a, env) for a in n['a']])
            if v is not None:
                return {'k': 'int', 'v': v}
        return n
    return cf.evalc(rec(cond), env)


def fail_edge(f, bid, match):
    """successor of block bid taken when the sub-expression matched by match() evaluates to 0 (None if undecidable)"""
    b = f.blocks[bid]
    t = b.get('term')
    if not t or len(b['succ']) != 2 or t.get('cond') is None:
        return None
    c = t.get('fullcond') or t['cond']
    if not any(match(n) for n in cf.walk(c)):
        return None
    v = subst_eval(c, match, 0)
    if v is None:
        return None
    return b['succ'][0] if v else b['succ'][1]


def ok_edge(f, bid, match):
    b = f.blocks[bid]
    fe = fail_edge(f, bid, match)
    if fe is None:
        return None
    return b['succ'][1] if b['succ'][0] == fe else b['succ'][0]


def result_tested(f, bid, idx, ev):
    """(test block, matcher) where the value of call event ev is tested: directly in the terminator condition of its block
    (or a following block for && chains), or through a local initialised/assigned from it"""
    call = ev['e']

    def is_call(n):
        return n.get('k') == 'call' and n.get('fn') == call.get('fn') and cf.render(n) == cf.render(call)
    t = f.blocks[bid].get('term')
    if t and t.get('cond') is not None and any(is_call(n) for n in cf.walk(t['cond'])):
        return bid, is_call
    # assigned to a local?
    var = None
    for ev2 in f.blocks[bid]['ev'][idx + 1:]:
        if ev2['k'] == 'decl':
            for d in ev2['d']:
                if d.get('init') and any(is_call(n) for n in cf.walk(d['init'])) and cf.strip_casts(d['init']).get('k') == 'call':
                    var = d['n']
        if ev2['k'] == 'assign' and ev2['op'] == '=' and any(is_call(n) for n in cf.walk(ev2.get('rhs') or {})):
            l = cf.strip_casts(ev2['lhs'])
            if l.get('k') == 'ref' and cf.strip_casts(ev2['rhs']).get('k') == 'call':
                var = l['n']
        if var:
            break
    if var is None:
        return None, None

    def is_var(n):
        return n.get('k') == 'ref' and n['n'] == var
    # first block (in forward order from bid) whose terminator tests var, without reassignment in between
    seen = set()
    st = [bid]
    while st:
        b = st.pop(0)
        if b in seen:
            continue
        seen.add(b)
        t = f.blocks[b].get('term')
        if t and t.get('cond') is not None and any(is_var(n) for n in cf.walk(t['cond'])):
            return b, is_var
        if len(f.succ(b)) == 1:
            st.extend(f.succ(b))
    return None, None


def must_fail(f, start, resvars):
    """from block start every path sets a result variable to 0 or returns 0 before returning anything else"""
    def hit(ev):
        if ev['k'] == 'assign' and ev['op'] == '=' and cf.strip_casts(ev['lhs']).get('n') in resvars and cf.evalc(ev.get('rhs')) == 0:
            return True
        if ev['k'] == 'return' and ev.get('val') is not None and cf.evalc(ev['val']) == 0:
            return True
        return False
    ok, _ = cf.walk_paths_must(f, start, None, hit, lambda ev: ev['k'] == 'return')
    return ok


def result_vars(f):
    rv = set()
    for _, _, ev in f.events(('return',)):
        v = cf.strip_casts(ev.get('val'))
        if isinstance(v, dict) and v.get('k') == 'ref':
            rv.add(v['n'])
    return rv


def run_f2(chk, P):
    r = chk.rule('F2', 'no result of a self-test / process_job call is dropped: its zero value reaches `ret = 0` / `return 0` '
                       'on every path; result variables start at 1 and are only ever assigned 0', floor=25)
    local_int = {f.name for f in P.funcs(TU) if f.raw['ret'] == 'int'}
    ncalls = 0
    for f in P.funcs(TU):
        if f.name in ('imb_self_test_set_cb', 'imb_self_test_get_cb', 'make_callback'):
            continue
        rv = result_vars(f)
        # result variables: initialised to 1, only assigned 0
        for var in rv:
            inits = []
            for _, _, ev in f.events(('decl', 'assign')):
                if ev['k'] == 'decl':
                    for d in ev['d']:
                        if d['n'] == var:
                            inits.append(('init', cf.evalc(d.get('init')) if d.get('init') else None, ev['loc']))
                else:
                    l = cf.strip_casts(ev['lhs'])
                    if l.get('k') == 'ref' and l['n'] == var:
                        inits.append((ev['op'], cf.evalc(ev.get('rhs')), ev['loc']))
            for kind, v, loc in inits:
                if kind == 'init':
                    r.check(v == 1, '%s:%s init' % (f.name, var), loc, 'result variable %s of %s starts at %s, not 1' % (var, f.name, v))
                else:
                    r.check(kind == '=' and v == 0, '%s:%s@%s' % (f.name, var, loc.split(':')[-1]), loc,
                            'result variable %s of %s is assigned %s %s (only `= 0` is allowed)' % (var, f.name, kind, v))
        for bid, i, ev in list(f.calls()):
            fn = ev['e'].get('fn')
            if fn not in local_int or fn in ('make_callback',):
                continue
            ncalls += 1
            key = '%s->%s@%s' % (f.name, fn, ev['loc'].split(':')[-1])
            tb, m = result_tested(f, bid, i, ev)
            if tb is None:
                r.bad(key, ev['loc'], 'result of %s() is not tested in %s' % (fn, f.name))
                continue
            fe = fail_edge(f, tb, m)
            if fe is None:
                r.bad(key, ev['loc'], 'cannot decide which edge is taken when %s() fails in %s' % (fn, f.name))
                continue
            r.check(must_fail(f, fe, rv), key, ev['loc'],
                    'a failing %s() does not force the result of %s to 0 on every path' % (fn, f.name))
    chk.extra['self_test_calls_checked'] = ncalls


def _sets_errno(P, tu, fn, depth=0):
    if fn == 'imb_set_errno':
        return True
    if depth > 2 or not P.has(tu, fn):
        return False
    g = P.func(tu, fn)
    for _, _, ev in g.calls():
        c = ev['e'].get('fn')
        if not c:
            return True                 # an indirect call: may be any entry point
        if _sets_errno(P, tu, c, depth + 1):
            return True
    return False


def run_f1(chk, P):
    r = chk.rule('F1', 'each public init runs self_test() only on a successfully initialised manager and reports '
                       'IMB_ERR_SELFTEST exactly on its failing edge; the PASS bit is cleared first and set only on success', floor=12)
    st_err = P.enum('IMB_ERR_SELFTEST')
    for arch in ('sse', 'avx2', 'avx512'):
        name = 'init_mb_mgr_' + arch
        fs = P.find(name)
        if not fs:
            chk.broken('%s not found' % name)
            continue
        tu, f = fs[0]
        calls = list(f.calls('self_test'))
        inits = list(f.calls(name + '_internal'))
        r.check(len(calls) >= 1, name + ':calls self_test', f.loc, '%s does not call self_test()' % name)
        r.check(len(inits) >= 1, name + ':calls internal', f.loc, '%s does not call %s_internal()' % (name, name))
        if not calls or not inits:
            continue
        dom = f.dominators()
        ib = inits[0][0]
        for bid, i, ev in calls:
            # self_test reachable on the success path: not unreachable
            r.check(bid in f.reachable(), name + ':reachable', ev['loc'], 'self_test() call unreachable in %s' % name)
            # R3b: control-dependent on a test evaluated after the internal init
            gated = False
            nullchk = False
            for d in dom.get(bid, ()):
                if d == bid:
                    continue
                t = f.blocks[d].get('term')
                if not t or t['kind'] not in ('IfStmt', 'BinaryOperator') or ib not in dom.get(d, ()):
                    continue
                c = t.get('fullcond') or t.get('cond')
                txt = guards.canon(c)
                if 'imb_errno' in txt or 'used_arch' in txt or 'imb_get_errno' in txt:
                    gated = True
                if re.search(r'\bstate == 0|\bstate != 0', txt):
                    nullchk = True
            r.check(gated, name + ':gated', ev['loc'],
                    '%s runs self_test() even when %s_internal() failed (missing CPU flags / untouched manager)' % (name, name))
            r.check(nullchk, name + ':null', ev['loc'],
                    '%s passes a possibly-NULL manager to self_test(), which dereferences it unconditionally' % name)
            # failing edge sets IMB_ERR_SELFTEST
            tb, m = result_tested(f, bid, i, ev)
            fe = fail_edge(f, tb, m) if tb is not None else None
            ok = False
            if fe is not None:
                mgr = f.params[0]['name'] if f.params else None
                ok, _ = cf.walk_paths_must(
                    f, fe, None,
                    lambda e: e['k'] == 'call' and e['e'].get('fn') == 'imb_set_errno' and cf.evalc(e['e']['a'][1]) == st_err and
                    cf.strip_casts(e['e']['a'][0]).get('n') == mgr,
                    lambda e: e['k'] == 'return')
                oe = ok_edge(f, tb, m)
                # success edge must not set an error
                if oe is not None:
                    bad = [e for b in f.reachable(oe) if fe not in dom.get(b, ()) or True for e in f.blocks[b]['ev']
                           if b != fe and fe not in dom.get(b, ()) and e['k'] == 'call' and e['e'].get('fn') == 'imb_set_errno' and
                           cf.evalc(e['e']['a'][1]) not in (0, None)]
                    r.check(not bad, name + ':success-clean', ev['loc'], '%s sets an error code on the self-test success path' % name)
            r.check(ok, name + ':errno', ev['loc'], '%s does not record IMB_ERR_SELFTEST in the manager when self_test() fails' % name)
            # ... and the recorded code is still there when the init returns: every job-API entry point (and anything else that calls
            # imb_set_errno) starts by resetting the manager's error code
            for b2, i2, e2 in f.calls('imb_set_errno'):
                if cf.evalc(e2['e']['a'][1]) != st_err:
                    continue
                wipes = []
                seenb, stack = set(), [(b2, i2 + 1)]
                while stack:
                    bb, i0 = stack.pop()
                    if (bb, i0 > 0) in seenb:
                        continue
                    seenb.add((bb, i0 > 0))
                    for e3 in f.blocks[bb]['ev'][i0:]:
                        if e3['k'] != 'call':
                            continue
                        c3 = e3['e']
                        if not c3.get('fn'):
                            wipes.append((e3, 'a call through a manager slot'))
                        elif _sets_errno(P, tu, c3['fn']):
                            wipes.append((e3, '%s()' % c3['fn']))
                    stack.extend((s_, 0) for s_ in f.succ(bb))
                r.check(not wipes, name + ':errno-kept', (wipes[0][0] if wipes else e2)['loc'],
                        '%s records IMB_ERR_SELFTEST and then makes %s at %s, which resets the manager\'s error code: the failed self-test is '
                        'reported with errno 0' % (name, wipes[0][1] if wipes else '', wipes[0][0]['loc'] if wipes else ''))
    # init_mb_mgr_auto reaches one of them for every accepted feature set
    fs = P.find('init_mb_mgr_auto')
    if fs:
        tu, f = fs[0]
        callees = {ev['e'].get('fn') for _, _, ev in f.calls()}
        for arch in ('sse', 'avx2', 'avx512'):
            r.check('init_mb_mgr_' + arch in callees, 'auto->' + arch, f.loc,
                    'init_mb_mgr_auto no longer initialises through init_mb_mgr_%s (self-test would be skipped)' % arch)
        # whatever the architecture init recorded (IMB_ERR_SELFTEST included) is still there when init_mb_mgr_auto returns
        for b2, i2, e2 in f.calls():
            if not re.match(r'^init_mb_mgr_(sse|avx2|avx512)$', e2['e'].get('fn') or ''):
                continue
            wipes = []
            seenb, stack = set(), [(b2, i2 + 1)]
            while stack:
                bb, i0 = stack.pop()
                if (bb, i0 > 0) in seenb:
                    continue
                seenb.add((bb, i0 > 0))
                for e3 in f.blocks[bb]['ev'][i0:]:
                    if e3['k'] == 'call' and (not e3['e'].get('fn') or _sets_errno(P, tu, e3['e']['fn'])):
                        wipes.append(e3)
                stack.extend((s_, 0) for s_ in f.succ(bb))
            r.check(not wipes, 'auto:%s:errno-kept' % e2['e']['fn'], (wipes[0] if wipes else e2)['loc'],
                    'init_mb_mgr_auto calls %s and then, at %s, something that resets the manager\'s error code: a failed self-test (or missing CPU '
                    'flags) is reported with errno 0' % (e2['e']['fn'], wipes[0]['loc'] if wipes else ''))
    else:
        chk.broken('init_mb_mgr_auto not found')
    # self_test(): PASS bit protocol
    f = P.func(TU, 'self_test')
    passbit = P.facts[TU] and None
    PASS = 1 << 63
    # find constant of IMB_FEATURE_SELF_TEST_PASS through the events: `features |= C` / `features &= ~C`
    sets, clears, execs = [], [], []
    for bid, i, ev in f.events():
        if ev['k'] == 'assign' and cf.strip_casts(ev['lhs']).get('f') == 'features':
            v = cf.evalc(ev.get('rhs'))
            if ev['op'] == '|=':
                sets.append((bid, i, v, ev))
            elif ev['op'] == '&=':
                clears.append((bid, i, v, ev))
        if ev['k'] == 'call' and ev['e'].get('fn') == 'self_test_exec':
            execs.append((bid, i, ev))
    r.check(len(execs) == 1, 'self_test:exec', f.loc, 'self_test() must call self_test_exec() exactly once')
    if execs and sets and clears:
        eb, ei, eev = execs[0]
        dom = f.dominators()
        # the bit set after the exec call = PASS bit
        after = [(b, i, v, ev) for b, i, v, ev in sets if (b == eb and i > ei) or (b != eb and eb in dom.get(b, ()))]
        r.check(len(after) >= 1, 'self_test:pass-set', f.loc, 'self_test() never sets the PASS bit after running the tests')
        if after:
            pv = after[0][2]
            before_clear = [1 for b, i, v, ev in clears if v is not None and (~v) & pv and ((b == eb and i < ei) or (b != eb and b in dom.get(eb, ())))]
            r.check(bool(before_clear), 'self_test:pass-cleared-first', f.loc,
                    'self_test() does not clear the PASS bit before running the tests')
            for b, i, v, ev in sets:
                if v is not None and v & pv:
                    early = (b == eb and i < ei) or (b != eb and b in dom.get(eb, ()) )
                    r.check(not early, 'self_test:pass-not-early@%s' % ev['loc'].split(':')[-1], ev['loc'],
                            'self_test() sets the PASS bit before self_test_exec() ran')
                    if not early:
                        # must be on the success path only: the block is not reachable from the fail edge of the exec test
                        tb, m = result_tested(f, eb, ei, eev)
                        fe = fail_edge(f, tb, m) if tb is not None else None
                        rv = result_vars(f)
                        okk = fe is not None and must_fail(f, fe, rv)
                        # PASS set must be guarded by the result variable
                        guarded = any(
                            (f.blocks[d].get('term') or {}).get('cond') is not None and
                            any(n.get('k') == 'ref' and n['n'] in rv for n in cf.walk(f.blocks[d]['term']['cond'])) and
                            f.blocks[d]['succ'][0] in dom.get(b, ())
                            for d in dom.get(b, ()) if d != b)
                        r.check(okk and guarded, 'self_test:pass-only-on-success', ev['loc'],
                                'the PASS bit can be set although self_test_exec() failed')
    else:
        r.bad('self_test:shape', f.loc, 'PASS-bit protocol not recognised in self_test()')


def vec_field_refs(e, vname):
    out = set()
    for n in cf.walk(e):
        if n.get('k') == 'mem' and n.get('arrow'):
            b = cf.strip_casts(n['b'])
            if isinstance(b, dict) and b.get('k') == 'ref' and b['n'] == vname:
                out.add(n['f'])
    return out


def run_f3_f4(chk, P):
    r3 = chk.rule('F3', 'after every process_job() the expected outputs of the vector (tag and/or text) are memcmp-ed and a '
                        'mismatch returns 0', floor=20)
    r4 = chk.rule('F4', 'each KAT makes the CORRUPT callback and flips an input bit on its 0 edge before the first '
                        'process_job(); each vector is announced with START and closed with exactly one of PASS/FAIL', floor=12)
    kats = []
    for f in P.funcs(TU):
        if len(f.params) == 2 and 'self_test_' in f.params[1]['type'] and '_vector' in f.params[1]['type']:
            kats.append(f)
    if len(kats) < 4:
        chk.broken('expected >= 4 KAT functions taking a vector, found %d' % len(kats))
    for f in kats:
        vname = f.params[1]['name']
        rec = re.sub(r'\bconst\b|\bstruct\b|\*|\s+', '', f.params[1]['type'])
        fields = {x['name'] for x in P.record(rec, TU)['fields']}
        dom = f.dominators()
        pjs = list(f.calls('process_job'))
        r3.check(len(pjs) >= 1, f.name + ':process_job', f.loc, '%s never calls process_job()' % f.name)
        memcmps = list(f.calls('memcmp'))
        rv = result_vars(f)

        def buf_of(e):
            b = cf.base_ref(e)
            return b['n'] if b is not None and not b.get('g') and not b.get('p') else None
        # compare buffers: local buffers compared against a field of the vector
        cmpbufs = {}
        good_memcmp = set()
        for mb, mi, mev in memcmps:
            a = mev['e']['a']
            flds = vec_field_refs(a[0], vname) | vec_field_refs(a[1], vname)
            buf = buf_of(a[0]) or buf_of(a[1])
            if not flds or buf is None or buf == vname:
                continue
            cmpbufs.setdefault(buf, set()).update(flds)
            tbm, mm = result_tested(f, mb, mi, mev)
            ne = None
            if tbm is not None:
                fe0 = fail_edge(f, tbm, mm)  # edge taken when memcmp == 0 (match)
                su = f.blocks[tbm]['succ']
                ne = su[1] if su[0] == fe0 else su[0]
            okm = ne is not None and must_fail(f, ne, rv)
            r3.check(okm, '%s:memcmp(%s,%s)@%s' % (f.name, buf, ','.join(sorted(flds)), mev['loc'].split(':')[-1]), mev['loc'],
                     '%s: a mismatch of %s against %s does not make the KAT fail' % (f.name, buf, sorted(flds)))
            if okm:
                good_memcmp.add(id(mev))
        r3.check(bool(cmpbufs), f.name + ':compares', f.loc, '%s compares no output against its vector' % f.name)
        if 'tag' in fields:
            r3.check(any('tag' in v for v in cmpbufs.values()), f.name + ':tag', f.loc, '%s never compares the expected tag' % f.name)
        if 'cipher_text' in fields:
            r3.check(any('cipher_text' in v for v in cmpbufs.values()), f.name + ':cipher_text', f.loc,
                     '%s never compares the expected cipher text' % f.name)
            r3.check(any('plain_text' in v for v in cmpbufs.values()), f.name + ':plain_text', f.loc,
                     '%s never compares the recovered plain text' % f.name)
        # producers: process_job (all compare buffers) and direct-API calls through manager handlers taking the buffer
        producers = []
        for bid, i, ev in f.calls():
            e = ev['e']
            if e.get('fn') == 'process_job':
                for buf in cmpbufs:
                    producers.append((bid, i, ev, buf, 'process_job'))
            elif 'callee' in e:
                c = cf.strip_casts(e['callee'])
                if c.get('k') == 'mem' and 'IMB_MGR' in c.get('rec', '') and c['f'] not in (
                        'get_next_job', 'submit_job', 'flush_job', 'self_test_cb_fn'):
                    for a in e['a']:
                        bn = buf_of(a)
                        if bn in cmpbufs and cf.strip_casts(a).get('k') in ('ref', 'un', 'idx'):
                            producers.append((bid, i, ev, bn, c['f']))
        for bid, i, ev, buf, what in producers:
            def hit(e2, buf=buf):
                if e2['k'] == 'call' and e2['e'].get('fn') == 'memcmp' and id(e2) in good_memcmp and \
                        (buf_of(e2['e']['a'][0]) == buf or buf_of(e2['e']['a'][1]) == buf):
                    return True
                if e2['k'] == 'return' and e2.get('val') is not None and cf.evalc(e2['val']) == 0:
                    return True
                return False

            def end(e2, buf=buf):
                if e2['k'] == 'return':
                    return True
                if e2['k'] == 'call' and e2['e'].get('fn') in ('memset', 'memcpy') and buf_of(e2['e']['a'][0]) == buf:
                    return True
                if e2['k'] == 'call' and e2['e'].get('fn') == 'process_job':
                    return True
                return False
            okp, wit = cf.walk_paths_must(f, bid, None, hit, end, start_idx=i + 1)
            r3.check(okp, '%s:%s->%s@%s' % (f.name, what, buf, ev['loc'].split(':')[-1]), ev['loc'],
                     '%s: output buffer `%s` produced by %s at %s can reach a success return / be overwritten without being '
                     'compared against the vector' % (f.name, buf, what, ev['loc']))
        # job status tested for COMPLETED happens in process_job
        # F4: corrupt callback
        cbs = [(b, i, ev) for b, i, ev in f.calls('make_callback')
               if len(ev['e']['a']) > 1 and cf.strip_casts(ev['e']['a'][1]).get('v') == 'CORRUPT']
        r4.check(len(cbs) >= 1, f.name + ':corrupt-cb', f.loc, '%s makes no CORRUPT callback' % f.name)
        if cbs and pjs:
            cb, ci, cev = cbs[0]
            pb = pjs[0][0]
            before = cb in dom.get(pb, ()) and (cb != pb or ci < pjs[0][1])
            r4.check(before, f.name + ':corrupt-before-process', cev['loc'],
                     '%s: the CORRUPT callback does not precede the first process_job()' % f.name)
            tb, m = result_tested(f, cb, ci, cev)
            fe = fail_edge(f, tb, m) if tb is not None else None
            flips = False
            if fe is not None:
                for ev in f.blocks[fe]['ev']:
                    if ev['k'] == 'assign' and ev['op'] in ('^=', '+=', '|=', '-=') or \
                            (ev['k'] == 'assign' and ev['op'] == '=' and cf.strip_casts(ev['lhs']).get('k') == 'idx'):
                        flips = True
                flips = flips and f.pred[fe] == [tb] and pb not in f.reachable(fe, stop=lambda b: b == pb) - {pb} or flips
            r4.check(flips, f.name + ':corrupt-flips', cev['loc'],
                     '%s: a 0 from the CORRUPT callback does not corrupt the input before processing' % f.name)
    # group functions: START before, exactly one of PASS/FAIL after
    ngroups = 0
    for f in P.funcs(TU):
        kat_calls = [(b, i, ev) for b, i, ev in f.calls() if ev['e'].get('fn') in {k.name for k in kats}]
        if not kat_calls or f in kats:
            continue
        dom = f.dominators()
        for bid, i, ev in kat_calls:
            ngroups += 1
            key = '%s->%s' % (f.name, ev['e']['fn'])
            starts = [(b, j) for b, j, e in f.calls('make_callback')
                      if cf.strip_casts(e['e']['a'][1]).get('v') == 'START' and b in dom.get(bid, ()) and (b != bid or j < i)]
            r4.check(bool(starts), key + ':START', ev['loc'], '%s: no START callback before %s()' % (f.name, ev['e']['fn']))
            tb, m = result_tested(f, bid, i, ev)
            fe = fail_edge(f, tb, m) if tb is not None else None
            oe = ok_edge(f, tb, m) if tb is not None else None

            def phases(start, value):
                out = []
                # a reporting helper called with the KAT's verdict in the tested condition: the callbacks it makes for that verdict
                if tb is not None:
                    tcond = (f.blocks[tb].get('term') or {}).get('fullcond') or (f.blocks[tb].get('term') or {}).get('cond')
                    for nd in cf.walk(tcond or {}):
                        if nd.get('k') == 'call' and nd.get('fn') and P.has(TU, nd['fn']) and nd['fn'] != ev['e']['fn']:
                            g = P.func(TU, nd['fn'])
                            env = {}
                            for ai, a in enumerate(nd.get('a', [])):
                                if m(cf.strip_casts(a)) and ai < len(g.params):
                                    env[g.params[ai]['name']] = value
                            if env:
                                for b_ in g.reachable(None, env):
                                    for e in g.blocks[b_]['ev']:
                                        if e['k'] == 'call' and e['e'].get('fn') == 'make_callback':
                                            out.append(cf.strip_casts(e['e']['a'][1]).get('v'))
                if start is None:
                    return out
                for e in f.blocks[start]['ev']:
                    if e['k'] == 'call' and e['e'].get('fn') == 'make_callback':
                        out.append(cf.strip_casts(e['e']['a'][1]).get('v'))
                return out
            pf, po = phases(fe, 0), phases(oe, 1)
            r4.check(pf == ['FAIL'], key + ':FAIL', ev['loc'], '%s: failing %s() is not followed by exactly one FAIL callback (%s)' % (f.name, ev['e']['fn'], pf))
            r4.check(po == ['PASS'], key + ':PASS', ev['loc'], '%s: passing %s() is not followed by exactly one PASS callback (%s)' % (f.name, ev['e']['fn'], po))
    if ngroups < 4:
        chk.broken('expected >= 4 KAT call sites in group functions, found %d' % ngroups)


def run_f5(chk, P):
    r = chk.rule('F5', 'every element of every vector table is visited (loop from 0 to the table length) and the announced '
                       'algorithm list covers the documented one', floor=35)
    tables = [t for t in P.facts[TU]['tables'] if 'self_test_' in t.get('elemty', '') and '_vector' in t.get('elemty', '')]
    if len(tables) < 4:
        chk.broken('expected >= 4 vector tables, found %d' % len(tables))
    descs = set()
    for t in tables:
        n = t.get('count', len(t['elems']))
        for el in t['elems']:
            for sub in cf.walk(el['e']):
                if sub.get('k') == 'str' and sub.get('v'):
                    descs.add(norm_desc(sub['v']))
        # find the loop that walks it
        found = False
        for f in P.funcs(TU):
            for bid, b in f.blocks.items():
                uses = False
                for ev in b['ev']:
                    for k in ('e', 'rhs'):
                        pass
                    if ev['k'] == 'decl':
                        for d in ev['d']:
                            if d.get('init') and any(x.get('k') == 'ref' and x['n'] == t['name'] for x in cf.walk(d['init'])):
                                uses = (d['init'], ev)
                if not uses:
                    continue
                init, ev = uses
                dom = f.dominators()
                head = None
                for d in dom.get(bid, ()):
                    tt = f.blocks[d].get('term')
                    if tt and tt['kind'] == 'ForStmt' and f.blocks[d]['succ'][0] in dom.get(bid, ()):
                        head = d
                if head is None:
                    continue
                found = True
                c = guards.canon(f.blocks[head]['term'].get('fullcond'))
                m = re.match(r'^(\w+) < (\d+)$', c or '')
                r.check(bool(m) and int(m.group(2)) == n, '%s:bound' % t['name'], f.blocks[head]['term']['loc'],
                        'loop over %s runs while `%s`, table has %d vectors' % (t['name'], c, n))
                # element = &table[i]
                idx = [x for x in cf.walk(init) if x.get('k') == 'idx']
                okidx = bool(m) and any(cf.strip_casts(x['i']).get('n') == m.group(1) for x in idx)
                r.check(okidx, '%s:index' % t['name'], ev['loc'], 'loop over %s does not index it with the loop counter' % t['name'])
                # counter starts at 0 and steps by 1
                inc_ok = False
                init_ok = False
                for b2 in f.blocks.values():
                    for e2 in b2['ev']:
                        if m and e2['k'] == 'assign' and cf.strip_casts(e2['lhs']).get('n') == m.group(1):
                            if e2['op'] == '++':
                                inc_ok = True
                            elif e2['op'] not in ('++',):
                                inc_ok = inc_ok and False
                        if m and e2['k'] == 'decl':
                            for d in e2['d']:
                                if d['n'] == m.group(1) and d.get('init') is not None and cf.evalc(d['init']) == 0:
                                    init_ok = True
                r.check(inc_ok and init_ok, '%s:step' % t['name'], f.blocks[head]['term']['loc'],
                        'loop over %s does not visit every vector (start 0, step 1)' % t['name'])
        if not found:
            # pointer-walking form: `v = table; v_end = v + <rows>; for (; v != v_end; v++)`
            for f in P.funcs(TU):
                cur = None
                for _, _, ev in f.events(('decl', 'assign')):
                    if ev['k'] == 'decl':
                        for d in ev['d']:
                            i_ = cf.strip_casts(d.get('init')) if d.get('init') is not None else None
                            if isinstance(i_, dict) and i_.get('k') == 'ref' and i_.get('n') == t['name']:
                                cur = d['n']
                if cur is None:
                    continue
                # end pointer: a local initialised with <cur or table> + n
                ends = {}
                for _, _, ev in f.events(('decl',)):
                    for d in ev['d']:
                        i_ = cf.strip_casts(d.get('init')) if d.get('init') is not None else None
                        if isinstance(i_, dict) and i_.get('k') == 'bin' and i_['op'] == '+':
                            l_, r_ = cf.strip_casts(i_['l']), cf.strip_casts(i_['r'])
                            if isinstance(l_, dict) and l_.get('k') == 'ref' and l_.get('n') in (cur, t['name']) and cf.evalc(r_) is not None:
                                ends[d['n']] = cf.evalc(r_)
                head = None
                for bid, b in f.blocks.items():
                    tt = b.get('term')
                    if tt and tt['kind'] in ('ForStmt', 'WhileStmt') and tt.get('fullcond') is not None:
                        c = guards.canon(tt['fullcond'])
                        for en, cnt in ends.items():
                            if c in ('%s != %s' % (cur, en), '%s != %s' % (en, cur), '%s < %s' % (cur, en)):
                                head = (bid, en, cnt, c)
                if head is None:
                    continue
                found = True
                bid, en, cnt, c = head
                r.check(cnt == n, '%s:bound' % t['name'], f.blocks[bid]['term']['loc'],
                        'loop over %s stops at %s = start + %d, the table has %d vectors' % (t['name'], en, cnt, n))
                steps = [e2['op'] for _, _, e2 in f.events(('assign',)) if cf.strip_casts(e2['lhs']).get('n') == cur]
                r.check(steps == ['++'], '%s:step' % t['name'], f.blocks[bid]['term']['loc'],
                        'loop over %s does not visit every vector (pointer modified by %s)' % (t['name'], steps))
                r.ok('%s:index' % t['name'])
        r.check(found, '%s:visited' % t['name'], t['loc'], 'vector table %s is never walked' % t['name'])
    for d in REQUIRED_DESCRIPTIONS:
        r.check(norm_desc(d) in descs, 'desc:' + d, P.func(TU, 'self_test').loc,
                'no self-test vector announces the documented algorithm %s' % d)
    chk.extra['announced'] = sorted(descs)


PAIRS = (('msg_len_to_hash_in_bytes', 'hash_start_src_offset_in_bytes'), ('msg_len_to_hash_in_bits', 'hash_start_src_offset_in_bytes'),
         ('msg_len_to_cipher_in_bytes', 'cipher_start_src_offset_in_bytes'), ('msg_len_to_cipher_in_bits', 'cipher_start_src_offset_in_bits'),
         ('auth_tag_output', 'auth_tag_output_len_in_bytes'), ('iv', 'iv_len_in_bytes'), ('enc_keys', 'key_len_in_bytes'),
         ('dec_keys', 'key_len_in_bytes'), ('cipher_mode', 'cipher_direction'), ('cipher_mode', 'chain_order'), ('cipher_mode', 'hash_alg'))


def rule_job_setup(chk, P, rid, floor=20):
    """the job ring is not cleared by init and IMB_GET_NEXT_JOB hands out slots that hold earlier jobs: library code that builds a job
    itself (the self-tests) must assign every field of a group it uses — a length without its start offset, a buffer without its
    length, a key without its size leaves the stale value of an earlier job in force"""
    r = chk.rule(rid, 'library code that fills a job obtained from the ring assigns the companion field of every field group it uses (length '
                      'and start offset, buffer and length, key and key size, mode and direction/order/hash): nothing of the slot\'s earlier job '
                      'stays in force', floor=floor)
    n = 0
    for tu in P.tus():
        for f in P.funcs(tu):
            gets = [ev for _, _, ev in f.events(('call', 'decl', 'assign'))
                    if any(nd.get('k') == 'call' and ((nd.get('fn') or '') == 'IMB_GET_NEXT_JOB' or
                                                      (nd.get('callee') is not None and cf.strip_casts(nd['callee']).get('f') == 'get_next_job'))
                           for k in ('e', 'rhs') for nd in cf.walk(ev.get(k) or {})) or
                    (ev['k'] == 'decl' and any(nd.get('k') == 'call' and nd.get('callee') is not None and
                                               cf.strip_casts(nd['callee']).get('f') == 'get_next_job'
                                               for d in ev['d'] for nd in cf.walk(d.get('init') or {})))]
            if not gets or (f.name, f.loc) in _seen_setup:
                continue
            _seen_setup.add((f.name, f.loc))
            flds = {}
            for _, _, ev in f.events(('assign',)):
                l = cf.strip_casts(ev['lhs'])
                if l.get('k') == 'mem' and ('IMB_JOB' in (l.get('rec') or '') or not l.get('rec')) and l.get('f'):
                    flds.setdefault(l['f'], ev.get('sloc') or ev['loc'])
            for a, b in PAIRS:
                if a in flds:
                    n += 1
                    r.check(b in flds, '%s:%s->%s' % (f.name, a, b), flds[a],
                            '%s sets job->%s of a job taken from the ring but never job->%s: the value left by the slot\'s previous job is used' % (
                                f.name, a, b))
    _seen_setup.clear()
    return r


_seen_setup = set()


def run(chk):
    P = cf.Program()
    if TU not in P.facts:
        chk.broken('self_test.c not in the compile database')
        return
    chk.explanation = ('CFG rules over self_test.c and the three public init functions: self_test() runs only on an initialised '
                       'manager and its failure sets IMB_ERR_SELFTEST; no result of any KAT / process_job call is dropped on the way to '
                       'the PASS bit; every KAT compares the expected tag/text after every processed job and rejects on mismatch; the '
                       'corruption hook precedes processing; START and exactly one PASS/FAIL surround each vector; each vector table '
                       'is walked completely and announces the documented algorithms. Not decided: the KAT values themselves.')
    run_f1(chk, P)
    run_f2(chk, P)
    run_f3_f4(chk, P)
    run_f5(chk, P)
    rule_job_setup(chk, P, 'F6', floor=20)
    rule_vector_rows(chk, P, 'F7')


def rule_vector_rows(chk, P, rid='F7'):
    """F7: each row of the self-test vector tables is one test case: the key, IV, text and tag arrays it names and the description string
    it announces belong together (same algorithm stem and size token), and a loop over one table indexes only that table"""
    r = chk.rule(rid, 'each row of a self-test vector table names arrays of ONE test case and the description that goes with them (size tokens '
                      '128/192/256/224/384/512 and algorithm stem agree), and each announcing loop indexes only the table it iterates over', floor=30)
    tu = 'x86_64__self_test.c'
    if tu not in P.facts:
        chk.broken('self_test.c not built')
        return
    SIZE = re.compile(r'(?<![0-9])(128|192|224|256|384|512)(?![0-9])')
    tabs = [t for t in P.facts[tu]['tables'] if t['name'].endswith('_vectors')]
    if not tabs:
        chk.broken('no *_vectors tables in self_test.c')
        return
    for t in tabs:
        for el in t['elems']:
            e = el['e']
            if e.get('k') != 'initlist':
                continue
            ids = [a['n'] for a in e.get('a', []) if a.get('k') == 'ref' and a.get('g')]
            strs = [a['v'] for a in e.get('a', []) if a.get('k') == 'str']
            sizes = set()
            for n in ids + strs:
                sizes |= set(SIZE.findall(n))
            stems = {re.sub(r'_(key|iv|plain_text|cipher_text|message|digest|tag|aad|nonce|text)$', '', n) for n in ids}
            # the 3DES vectors use three key arrays: accept stems differing only in a trailing key index
            stems = {re.sub(r'_?k(ey)?[123]$', '', s_) for s_ in stems}
            key = '%s@%s' % (t['name'], el['loc'].split('/')[-1])
            # arrays shared between rows (null_iv, sha_message) make the stems differ legitimately: the size tokens decide
            r.check(len(sizes) <= 1, key, el['loc'],
                    'row of %s mixes test cases: arrays %s announced as %s (size tokens %s)' % (t['name'], sorted(ids), strs, sorted(sizes)))
    # loops: the body of a loop bounded by the size of table X indexes no other vector table
    names = {t['name'] for t in tabs}
    for f in P.funcs(tu):
        dom = None
        for hid, hb in f.blocks.items():
            t_ = hb.get('term')
            if not t_ or t_['kind'] != 'ForStmt':
                continue
            bound = None
            for nd in cf.walk(t_.get('cond') or {}):
                if nd.get('k') == 'int' and 'text' in nd:
                    for nm in names:
                        if re.search(r'\b%s\b' % re.escape(nm), nd['text']):
                            bound = nm
            if not bound:
                continue
            dom = dom or f.dominators()
            body = [b for b in f.blocks if hid in dom.get(b, ()) and b != hid and hid in f.reachable(b)]
            used = set()
            for b in body:
                for ev in f.blocks[b]['ev']:
                    exprs = [ev.get(k) for k in ('e', 'rhs', 'val') if ev.get(k)]
                    if ev['k'] == 'decl':
                        exprs += [d['init'] for d in ev['d'] if d.get('init') is not None]
                    for x in exprs:
                        for nd in cf.walk(x):
                            if nd.get('k') == 'ref' and nd.get('g') and nd['n'] in names:
                                used.add(nd['n'])
            r.check(used <= {bound}, '%s:loop over %s' % (f.name, bound), t_.get('loc') or f.loc,
                    '%s: the loop over %s also reads %s' % (f.name, bound, sorted(used - {bound})))
