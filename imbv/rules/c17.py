"""C17 — distinct managers share no mutable state.
G1 inventory of mutable globals / function-local statics (source level, every lib TU) and of writable
   sections in the assembled objects; G2 every writer / address-escape of such an object is on the
   reasoned allow-list; G3 the allow-listed ones are used as documented; G4 manager errors are
   recorded in the manager (shared with C12/C14); G5 no stateful libc / hidden channel."""
import os
import re
from .. import cf, guards, build
from . import shared

# name -> (reason, functions allowed to write or take the address)
ALLOW = {
    'imb_errno': ('process-wide mirror of the last error, documented; per-manager code lives in IMB_MGR',
                  {'imb_set_errno'}),
    'cpuid_1_0': ('idempotent cache of CPUID leaf 1', {'detect_sse42', 'cpu_feature_detect'}),
    'cpuid_7_0': ('idempotent cache of CPUID leaf 7.0', {'cpu_feature_detect'}),
    'cpuid_7_1': ('idempotent cache of CPUID leaf 7.1', {'cpu_feature_detect'}),
    'counter': ('session id generator, advanced only with the lock cmpxchg helper', {'imb_set_session'}),
}
STATEFUL_LIBC = {'rand', 'srand', 'random', 'srandom', 'rand_r', 'drand48', 'time', 'clock', 'getenv', 'setenv',
                 'putenv', 'strtok', 'localtime', 'gmtime', 'asctime', 'ctime', 'setlocale', 'signal', 'fopen',
                 'open', 'getpid', 'pthread_self', 'pthread_mutex_lock', 'tmpnam', 'mmap', 'shmget', 'shm_open',
                 'dlopen', 'malloc', 'calloc', 'realloc'}
ALLOC_FUNCS = {'alloc_aligned_mem', 'free_mem'}


def classify_refs(func, mutable):
    """yield (kind, global name, loc) for every write / escape of a mutable global in func"""
    for bid, i, ev in func.events():
        k = ev['k']
        if k == 'assign':
            br = cf.base_ref(ev['lhs'])
            if br is not None and br.get('g') and br['n'] in mutable:
                yield 'write', br['n'], ev['loc']
            rhs = ev.get('rhs')
            for kind, n in _escapes(rhs, mutable):
                yield kind, n, ev['loc']
        elif k == 'call':
            for a in ev['e'].get('a', []):
                for kind, n in _escapes(a, mutable):
                    yield kind, n, ev['loc']
        elif k == 'decl':
            for d in ev['d']:
                for kind, n in _escapes(d.get('init'), mutable):
                    yield kind, n, ev['loc']
        elif k == 'return':
            for kind, n in _escapes(ev.get('val'), mutable):
                yield kind, n, ev['loc']


def _escapes(e, mutable):
    """address of a mutable global taken (explicit & or array decay) inside expression e"""
    if not isinstance(e, dict):
        return
    for n in cf.walk(e):
        if n.get('k') == 'un' and n['op'] == '&':
            br = cf.base_ref(n['e'])
            if br is not None and br.get('g') and br['n'] in mutable:
                yield 'escape', br['n']
    # array decay: a bare ref to an array-typed global that is not the base of an index expression
    indexed = set()
    for n in cf.walk(e):
        if n.get('k') == 'idx':
            b = cf.strip_casts(n['b'])
            if isinstance(b, dict) and b.get('k') == 'ref':
                indexed.add(id(b))
        if n.get('k') == 'mem':
            b = cf.strip_casts(n['b'])
            if isinstance(b, dict) and b.get('k') == 'ref':
                indexed.add(id(b))
    for n in cf.walk(e):
        if n.get('k') == 'ref' and n.get('g') and n['n'] in mutable and '[' in n.get('ty', '') and id(n) not in indexed:
            yield 'escape', n['n']


def run_g7(chk, P, rid='G7'):
    # ---- G7: the per-manager half of the error code does not depend on the process-wide half
    g7 = chk.rule(rid, 'in the error-code accessors the store to / the return of mb_mgr->imb_errno is decided by the manager alone: no condition '
                        'on its path reads the process-wide imb_errno (which other managers write)', floor=2)
    for fname in ('imb_set_errno', 'imb_get_errno'):
        done = False
        for tu, f in P.find(fname):
            if done:
                break
            done = True
            dom = f.dominators()
            with guards.in_function(f):
                for b, i, ev in f.events(('assign', 'return')):
                    x = ev['lhs'] if ev['k'] == 'assign' else (ev.get('val') or ev.get('e') or {})
                    if not any(nd.get('k') == 'mem' and nd.get('f') == 'imb_errno' and 'IMB_MGR' in (nd.get('rec') or '') for nd in cf.walk(x)):
                        continue
                    # every branch condition this block is control dependent on (dominating ifs whose one side only leads here)
                    conds = []
                    for d in dom.get(b, ()):
                        t = f.blocks[d].get('term')
                        if d != b and t and t['kind'] in ('IfStmt', 'BinaryOperator', 'ConditionalOperator') and any(
                                s_ is not None and s_ not in dom.get(b, ()) or True for s_ in f.blocks[d]['succ']):
                            pd_all = all(s_ is not None and (s_ == b or s_ in dom.get(b, ())) for s_ in f.blocks[d]['succ'])
                            if not pd_all:
                                conds.append(t.get('fullcond') or t.get('cond') or {})
                    reads_global = any(nd.get('k') == 'ref' and nd.get('g') and nd['n'] == 'imb_errno' for c in conds for nd in cf.walk(c))
                    g7.check(not reads_global, '%s:%s@%s' % (fname, ev['k'], ev['loc'].split('/')[-1]), ev['loc'],
                             '%s: the %s of mb_mgr->imb_errno is conditional on the process-wide imb_errno: what one manager reports or records '
                             'depends on the last error of any other manager' % (fname, 'store' if ev['k'] == 'assign' else 'return'))
        if not done:
            chk.broken('%s not found' % fname)


def run(chk):
    P = cf.Program()
    chk.explanation = ('Inventory of every non-const global and function-local static defined in any library C '
                       'translation unit (type-checked AST of all %d TUs in the regenerated compile database) and of '
                       'writable sections in every assembled object; every write to / address-escape of such an '
                       'object anywhere in the library must be on a reasoned allow-list; manager errors must be '
                       'recorded in the manager, not only in the process-wide mirror; no stateful libc call.' % len(P.tus()))
    # ---- G1 / G2
    g1 = chk.rule('G1', 'mutable globals/static locals are the allow-listed ones or are never written', floor=5)
    mutable = {}
    for tu in P.tus():
        for g in P.facts[tu]['globals']:
            if g['const']:
                continue
            if not (g['def'] or g['static_local']) or g['extern']:
                continue
            mutable.setdefault(g['name'], g)
    # the session-id generator is whatever function-local static imb_set_session hands to the lock-cmpxchg helper (its name is not a fact)
    allow = dict(ALLOW)
    ctr = 'counter'
    for tu_, f_ in P.find('imb_set_session')[:1]:
        for _, _, ev in f_.calls('atomic_uint64_inc'):
            for a in ev['e'].get('a', []):
                for n_ in cf.walk(a):
                    if n_.get('k') == 'un' and n_['op'] == '&':
                        br = cf.base_ref(n_['e'])
                        if br is not None and br.get('g') and mutable.get(br['n'], {}).get('static_local'):
                            ctr = br['n']
    if ctr != 'counter':
        allow[ctr] = allow.pop('counter')
    writers = {}
    g2 = chk.rule('G2', 'every writer / address-taker of a mutable global is allow-listed', floor=5)
    nfun = 0
    for tu in P.tus():
        for f in P.funcs(tu):
            nfun += 1
            for kind, n, loc in classify_refs(f, mutable):
                writers.setdefault(n, set()).add((f.name, kind, loc))
    for n, g in sorted(mutable.items()):
        ws = writers.get(n, set())
        if g.get('tls'):
            g1.bad(n, g['loc'], 'thread-local library state %s (%s)' % (n, g['type']))
            continue
        if n in allow:
            g1.ok(n, {'type': g['type'], 'reason': allow[n][0]})
            for fn, kind, loc in sorted(ws):
                g2.check(fn in allow[n][1], '%s<-%s' % (n, fn), loc,
                         '%s of library-global %s in %s, which is not one of its documented writers %s' % (
                             kind, n, fn, sorted(allow[n][1])), detail=kind)
        elif not ws:
            g1.ok(n, {'type': g['type'], 'note': 'non-const but never written nor address-taken'})
            g1.note('%s (%s) is non-const but never written' % (n, g['loc']))
        else:
            fn, kind, loc = sorted(ws)[0]
            g1.bad(n, g['loc'], 'library-owned mutable %s %s (%s) is written/escapes in %s (%s at %s): state shared '
                                'by all managers and threads' % ('function-local static' if g['static_local'] else 'global',
                                                                 n, g['type'], fn, kind, loc),
                   facts={'writers': sorted(ws)[:10]})
    chk.extra['functions_scanned'] = nfun
    chk.extra['mutable_objects'] = sorted(mutable)
    # ---- G3 documented use
    g3 = chk.rule('G3', 'counter only advanced through atomic_uint64_inc; imb_errno read only by imb_get_errno', floor=2)
    for tu, f in P.find('imb_set_session'):
        uses = [ev for _, _, ev in f.events() if any(n.get('k') == 'ref' and n['n'] == ctr for n in
                                                     cf.walk(ev.get('e') or ev.get('lhs') or ev.get('val') or {}))]
        for _, _, ev in f.events(('assign',)):
            br = cf.base_ref(ev['lhs'])
            if br is not None and br['n'] == ctr:
                g3.bad(ctr, ev['loc'], 'session counter written without the atomic helper')
        for _, _, ev in f.calls():
            for a in ev['e'].get('a', []):
                if any(n.get('k') == 'ref' and n['n'] == ctr for n in cf.walk(a)):
                    g3.check(ev['e'].get('fn') == 'atomic_uint64_inc', ctr + '@' + str(ev['e'].get('fn')), ev['loc'],
                             'session counter passed to %s, not the lock-cmpxchg helper' % ev['e'].get('fn'))
    readers = set()
    for tu in P.tus():
        for f in P.funcs(tu):
            for _, _, ev in f.events():
                for key in ('e', 'lhs', 'rhs', 'val'):
                    for n in cf.walk(ev.get(key) or {}):
                        if n.get('k') == 'ref' and n.get('g') and n['n'] == 'imb_errno':
                            readers.add((f.name, ev['loc']))
    for fn, loc in sorted(readers):
        if fn == 'imb_set_errno':
            g3.ok('imb_errno@' + fn, 'writer compares before storing')
            continue
        # imb_get_errno(NULL) may legitimately return the mirror; returning it for a non-NULL manager makes the
        # answer depend on other managers
        g3.bad('imb_errno@' + fn, loc,
               'process-wide imb_errno consulted in %s: the per-manager answer depends on what other managers/threads did' % fn)
    # ---- G9: a process-wide cache is written by ONE site of its writer: a second write on the way (clear, then refill) gives other threads a
    # transient value, where rewriting the same final value is a benign race
    g9 = chk.rule('G9', 'each allow-listed process-wide object is written (or handed out for writing) at one site of its writer function only: '
                        'no transient value between a clear and a refill is visible to other threads', floor=4)
    import collections as _col
    sites = _col.Counter()
    where = {}
    # a site is a store to the object, or a call that receives its address through a pointer-to-non-const parameter (taking the address
    # for reading - a const table of feature-bit locations, a const accessor - is not a write)
    seen_here = set()
    for tu in P.tus():
        protos = {d['name']: d.get('params') or [] for d in P.facts[tu]['decls']}
        for f in P.funcs(tu):
            for bid, i, ev in f.events(('assign', 'call')):
                hits = []
                if ev['k'] == 'assign':
                    br = cf.base_ref(ev['lhs'])
                    if br is not None and br.get('g') and br['n'] in allow:
                        hits.append(br['n'])
                else:
                    pr = protos.get(ev['e'].get('fn') or '')
                    for ai, a in enumerate(ev['e'].get('a', [])):
                        if pr is not None and ai < len(pr) and re.match(r'^const\b[^*]*\*', pr[ai].get('type') or ''):
                            continue
                        hits.extend(n for _, n in _escapes(a, mutable) if n in allow)
                for n in hits:
                    if (n, f.name, ev['loc']) in seen_here:
                        continue
                    seen_here.add((n, f.name, ev['loc']))
                    sites[(n, f.name)] += 1
                    where.setdefault((n, f.name), []).append(ev['loc'])
    for (n, fn), k in sorted(sites.items()):
        if n not in allow:
            continue
        limit = 2 if n == ctr else 1      # the session counter is read and advanced through the atomic helper (two hand-outs of its address)
        g9.check(k <= limit, '%s<-%s' % (n, fn), sorted(where[(n, fn)])[-1],
                 '%s writes / hands out %s at %d sites (%s): between them other threads see a value that is neither the old nor the final one' % (
                     fn, n, k, ', '.join(x.split('/')[-1] for x in sorted(where[(n, fn)]))))
    # ---- G6 who-may-call: the fallback of imb_get_errno() (K6) makes its answer for a manager whose own status is 0 depend on what any
    # other manager recorded; library code that decides anything on it couples managers.  Library code reads mb_mgr->imb_errno.
    g6 = chk.rule('G6', 'no library function other than the accessor itself calls imb_get_errno(): its answer falls back to the '
                        'process-wide error (K6), so a decision taken on it depends on other managers', floor=1)
    ndef = 0
    for tu in P.tus():
        for f in P.funcs(tu):
            if f.name == 'imb_get_errno':
                ndef += 1
                g6.ok('imb_get_errno:defined', f.loc)
                continue
            for _, _, ev in f.calls():
                if ev['e'].get('fn') == 'imb_get_errno':
                    g6.bad('imb_get_errno@' + f.name, ev['loc'],
                           '%s() consults imb_get_errno(): for a manager whose own status is 0 this is the process-wide error another '
                           'manager/thread may have recorded; read mb_mgr->imb_errno instead' % f.name)
    if not ndef:
        chk.broken('imb_get_errno not found in the library')
    run_g7(chk, P)
    # ---- G8: the session counter is advanced with a LOCKed instruction
    g8 = chk.rule('G8', 'atomic_uint64_inc advances the counter with a LOCK-prefixed read-modify-write (two managers on two threads draw '
                        'distinct session ids)', floor=1)
    try:
        from .. import asmfacts
        found = False
        for rel, name, res in asmfacts.all_functions():
            if name != 'atomic_uint64_inc':
                continue
            found = True
            rmw = [t for t in res.get('lines', {}).values() if re.search(r'\b(cmpxchg|xadd|inc|add)\b', t) and '[' in t]
            locked = [t for t in rmw if re.search(r'\block\b', t)]
            g8.check(bool(rmw) and len(locked) == len(rmw), 'atomic_uint64_inc', rel,
                     'atomic_uint64_inc updates memory with %s: without LOCK two threads can draw the same session id' % (
                         '; '.join(t.split('  [')[0].strip() for t in rmw if t not in locked)[:200] or 'no read-modify-write instruction'))
            # a compare-exchange only succeeds if nobody else advanced the counter in between: it has to be retried
            from .. import build as _build, asmint as _asmint
            ent = [e for e in _build.asm_entries() if e['file'].endswith('/' + rel) or e['file'].endswith(rel)]
            if ent:
                objs = _build.assemble(ent[:1], tag='g8')
                insns, labels, funcs, syms = _asmint.parse_obj(objs[ent[0]['file']])
                order = sorted(insns)
                for k, a_ in enumerate(order):
                    if insns[a_]['mn'] == 'cmpxchg':
                        retry = False
                        for a2 in order[k + 1:k + 4]:
                            if insns[a2]['mn'] in ('jnz', 'jne'):
                                try:
                                    retry = retry or int(insns[a2]['ops'].split()[0], 16) <= a_
                                except (ValueError, IndexError):
                                    pass
                        g8.check(retry, 'atomic_uint64_inc:retry', rel,
                                 'atomic_uint64_inc does not retry its compare-exchange when another thread advanced the counter in between: '
                                 'that thread\'s value is returned again (two sessions with one id)')
                for o in objs.values():
                    try:
                        os.remove(o)
                    except OSError:
                        pass
        if not found:
            chk.broken('atomic_uint64_inc not found among the assembled functions')
    except Exception as ex:      # noqa
        chk.broken('G8: %s' % ex)
    # ---- G4
    shared.rule_errno_target(chk, P, 'G4')
    # ---- G5
    g5 = chk.rule('G5', 'no stateful libc / hidden-channel call in library code', floor=1)
    libdecl = set()
    for tu in P.tus():
        for d in P.facts[tu]['decls']:
            libdecl.add(d['name'])
    ext = {}
    for tu in P.tus():
        for f in P.funcs(tu):
            for _, _, ev in f.calls():
                n = ev['e'].get('fn')
                if n and n not in libdecl and not n.startswith(('__builtin_', '_mm')):
                    ext.setdefault(n, []).append((f.name, ev['loc']))
    for n, sites in sorted(ext.items()):
        for fn, loc in sites:
            bad = n in STATEFUL_LIBC and fn not in ALLOC_FUNCS
            g5.check(not bad, '%s@%s' % (n, fn), loc, 'call to stateful libc function %s in %s' % (n, fn))
    chk.extra['external_callees'] = sorted(ext)
    # ---- G1 object half: writable sections in asm objects
    shared.rule_asm_writable_sections(chk, 'G1asm')
