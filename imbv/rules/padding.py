"""Merkle-Damgard padding built in C (the SHA one-shot functions of sha_generic.h and the C multi-buffer SHA managers of
sha_mb_mgr.h): message tail, the 0x80 marker directly behind it, zero fill, the 64-bit big-endian BIT length in the last eight
bytes of the last block, and a second block exactly when tail + marker + length field do not fit.  Each rule is a necessary
condition read off the FIPS 180 padding definition, decided on the shape of the code; none evaluates a digest.

A padding routine is recognised structurally: it copies `r` bytes into a byte buffer B and then stores a constant into B[r].

  P1  the constant stored behind the copied tail is 0x80 and the copy has exactly the length of the marker's index
  P2  whenever B is zeroed, nothing written into it before survives (symbolic intervals: a copy of r bytes dirties [0,r), the marker
      [r,r+1); a memset of n bytes cleans [0,n)): a re-used scratch block is re-established from zero
  P3  the length is stored by one call at B[<block multiple> - 8] and its value is a byte count times 8
  P4  the routines that decide on the extra block agree: `r >= blk_size - pad_size` (same operator at every site)
"""
import re

from .. import cf, guards

COPY = {'memcpy', 'var_memcpy', 'safe_memcpy', 'memmove'}


def _arr_size(ty):
    m = re.search(r'\[(\d+)\]\s*$', ty or '')
    return int(m.group(1)) if m else None


def _lin(e):
    """(symbol, constant) of an expression of the form sym, sym + k, sym - k, k; None otherwise"""
    e = cf.strip_casts(e)
    v = cf.evalc(e)
    if v is not None:
        return ('', int(v))
    if isinstance(e, dict) and e.get('k') == 'bin' and e['op'] in ('+', '-'):
        kl, kr = cf.evalc(e['l']), cf.evalc(e['r'])
        if kr is not None:
            b = _lin(e['l'])
            if b and b[0]:
                return (b[0], b[1] + (int(kr) if e['op'] == '+' else -int(kr)))
        if kl is not None and e['op'] == '+':
            b = _lin(e['r'])
            if b and b[0]:
                return (b[0], b[1] + int(kl))
        return None
    s = guards.lv(e)
    return (s, 0) if s and s != '?' else None


def _base_lv(e):
    """lv string of the buffer an expression designates: B, &B, &B[0], B + 0"""
    e = cf.strip_casts(e)
    if isinstance(e, dict) and e.get('k') == 'un' and e.get('op') == '&':
        x = cf.strip_casts(e['e'])
        if isinstance(x, dict) and x.get('k') == 'idx' and cf.evalc(x['i']) == 0:
            return guards.lv(x['b']).lstrip('&')
        return guards.lv(x).lstrip('&')
    return guards.lv(e).lstrip('&')


def _elem(e):
    """(buffer lv, index expr) of B[i] / &B[i]"""
    e = cf.strip_casts(e)
    if isinstance(e, dict) and e.get('k') == 'un' and e.get('op') == '&':
        e = cf.strip_casts(e['e'])
    if isinstance(e, dict) and e.get('k') == 'idx':
        return guards.lv(e['b']).lstrip('&'), e['i'], (e['b'].get('ty') if isinstance(e['b'], dict) else None)
    return None


def padding_routines(P):
    """yield (func, buffer lv, array size, marker event, copy event)"""
    seen = set()
    for tu in P.tus():
        for f in P.funcs(tu):
            if (f.name, f.loc) in seen:
                continue
            seen.add((f.name, f.loc))
            with guards.in_function(f):
                copies = {}
                for b, i, ev in f.events(('call',)):
                    if ev['e'].get('fn') in COPY and len(ev['e'].get('a', [])) == 3:
                        copies.setdefault(_base_lv(ev['e']['a'][0]), []).append((b, i, ev))
                if not copies:
                    continue
                for b, i, ev in f.events(('assign',)):
                    el = _elem(ev['lhs'])
                    if not el or el[0] not in copies or cf.evalc(ev.get('rhs') or {}) in (None, 0):
                        continue
                    idx = _lin(el[1])
                    if not idx or not idx[0]:
                        continue
                    ty = el[2] or ''
                    if not re.match(r'^(const )?(uint8_t|unsigned char|char)\b', ty):
                        continue
                    # the copy that fills the bytes in front of the marker: same block, earlier, or a dominating block
                    cands = [c for c in copies[el[0]] if (c[0] == b and c[1] < i)]
                    if not cands:
                        continue
                    yield f, el[0], _arr_size(ty), (b, i, ev), cands[-1]


def _dirty_after(f, buf, size):
    """forward may-analysis: for every zeroing memset of buf, the symbolic intervals written before it that it does not cover"""
    IN = {b: None for b in f.blocks}
    order = sorted(f.blocks, reverse=True)
    entry = max(f.blocks)
    IN[entry] = frozenset()
    findings = {}
    changed = True
    rounds = 0
    while changed and rounds < 50:
        changed = False
        rounds += 1
        for b in order:
            if IN[b] is None:
                continue
            d = set(IN[b])
            for i, ev in enumerate(f.blocks[b]['ev']):
                if ev['k'] == 'call':
                    fn = ev['e'].get('fn')
                    a = ev['e'].get('a', [])
                    if fn == 'memset' and len(a) == 3 and _base_lv(a[0]) == buf and cf.evalc(a[1]) == 0:
                        n = _lin(a[2])
                        full = n is not None and not n[0] and size is not None and n[1] >= size
                        if n is not None and n[0] and re.search(r'\bblk_size\b|block_size|BLOCK_SIZE', n[0]) and n[1] >= 0:
                            full = True         # the block size of the hash in use: everything a block routine reads
                        left = set()
                        for lo, hi in d:
                            if full:
                                continue
                            if n is not None and hi is not None and hi[0] == n[0] and hi[1] <= n[1]:
                                continue
                            left.add((lo, hi))
                        findings[(b, i)] = (ev, frozenset(left), frozenset(d))
                        d = left
                    elif fn in COPY and len(a) == 3 and _base_lv(a[0]) == buf:
                        d.add((('', 0), _lin(a[2])))
                    else:
                        for x in a:
                            el = _elem(x)
                            s = cf.strip_casts(x)
                            if el and el[0] == buf and isinstance(s, dict) and s.get('k') == 'un' and s.get('op') == '&':
                                d.add((_lin(el[1]), None))      # a callee writes from this element on (extent unknown)
                elif ev['k'] == 'assign':
                    el = _elem(ev['lhs'])
                    if el and el[0] == buf and cf.evalc(ev.get('rhs') or {}) != 0:
                        lo = _lin(el[1])
                        d.add((lo, (lo[0], lo[1] + 1) if lo else None))
            out = frozenset(d)
            for s in f.blocks[b]['succ']:
                if s is None:
                    continue
                new = out if IN[s] is None else IN[s] | out
                if new != IN[s]:
                    IN[s] = new
                    changed = True
    return findings


def _show(iv):
    def one(x):
        if x is None:
            return '?'
        return (x[0] + ('%+d' % x[1] if x[1] else '')) if x[0] else str(x[1])
    return '[%s, %s)' % (one(iv[0]), one(iv[1]))


def rule_sha_padding(chk, P, prefix='P'):
    p1 = chk.rule(prefix + '1', 'C padding routines store the marker 0x80 directly behind the copied message tail (copy length = marker index)', floor=4)
    p2 = chk.rule(prefix + '2', 'whenever a C padding routine zeroes its block buffer nothing written before survives (a re-used scratch block is '
                                're-established from zero before the length-only block is built)', floor=4)
    p3 = chk.rule(prefix + '3', 'C padding routines store the message length once, at <block multiple> - 8, as a bit count (bytes * 8)', floor=4)
    p4 = chk.rule(prefix + '4', 'the C routines deciding on an extra padding block agree on `tail >= blk_size - pad_size`', floor=4)
    seenf = set()
    for f, buf, size, (mb, mi, mev), (cb_, ci, cev) in padding_routines(P):
        if (f.name, buf) in seenf:
            continue
        seenf.add((f.name, buf))
        with guards.in_function(f):
            key = '%s:%s' % (f.name, buf)
            el = _elem(mev['lhs'])
            idx = _lin(el[1])
            cl = _lin(cev['e']['a'][2])
            val = cf.evalc(mev['rhs'])
            p1.check(val == 0x80 and cl == idx, key, mev['loc'],
                     '%s: marker %#x stored at %s[%s] after a copy of %s bytes: FIPS 180 padding puts 0x80 directly behind the message' % (
                         f.name, val or 0, buf, guards.lv(el[1]), guards.lv(cev['e']['a'][2])))
            fin = _dirty_after(f, buf, size)
            if not fin:
                p2.bad(key, f.loc, '%s never zeroes its padding buffer %s' % (f.name, buf))
            for (b, i), (ev, left, before) in sorted(fin.items()):
                p2.check(not left, '%s@%s' % (key, ev['loc'].split('/')[-1]), ev['loc'],
                         '%s: memset(%s, 0, %s) at %s leaves %s of the block as written before (the block routine reads the whole block): '
                         'stale padding bytes enter the hash' % (f.name, buf, guards.lv(ev['e']['a'][2]), ev['loc'],
                                                                ', '.join(sorted(_show(x) for x in left))))
            stores = []
            for b, i, ev in f.events(('call',)):
                a = ev['e'].get('a', [])
                if ev['e'].get('fn') in COPY or ev['e'].get('fn') == 'memset' or len(a) != 2:
                    continue
                e0 = _elem(a[0])
                s0 = cf.strip_casts(a[0])
                if e0 and e0[0] == buf and isinstance(s0, dict) and s0.get('k') == 'un':
                    stores.append((ev, e0))
            ok = len(stores) == 1
            why = '%d length stores into %s' % (len(stores), buf)
            if ok:
                ev, e0 = stores[0]
                ix = cf.strip_casts(e0[1])
                v = cf.strip_casts(ev['e']['a'][1])
                ok_ix = isinstance(ix, dict) and ix.get('k') == 'bin' and ix['op'] == '-' and cf.evalc(ix['r']) == 8 and cf.evalc(ix['l']) is None
                ok_v = isinstance(v, dict) and v.get('k') == 'bin' and ((v['op'] == '*' and 8 in (cf.evalc(v['l']), cf.evalc(v['r']))) or
                                                                        (v['op'] == '<<' and cf.evalc(v['r']) == 3))
                ok = ok_ix and ok_v
                why = '%s(&%s[%s], %s)' % (ev['e'].get('fn'), buf, guards.lv(e0[1]), guards.lv(ev['e']['a'][1]))
            p3.check(ok, key, stores[0][0]['loc'] if stores else f.loc,
                     '%s: the length field is not one store of (byte length * 8) at (block multiple - 8): %s' % (f.name, why))
    # P4: sites comparing against (blk_size - pad_size)
    sites = []
    seen = set()
    for tu in P.tus():
        for f in P.funcs(tu):
            if (f.name, f.loc) in seen:
                continue
            seen.add((f.name, f.loc))
            with guards.in_function(f):
                for bid, b in f.blocks.items():
                    t = b.get('term')
                    if not t or t['kind'] != 'IfStmt':
                        continue
                    e = cf.strip_casts(t.get('fullcond') or t.get('cond') or {})
                    if not (isinstance(e, dict) and e.get('k') == 'bin' and e['op'] in ('<', '<=', '>', '>=')):
                        continue
                    for side, other, flip in ((e['r'], e['l'], False), (e['l'], e['r'], True)):
                        s = cf.strip_casts(side)
                        if isinstance(s, dict) and s.get('k') == 'bin' and s['op'] == '-' and all(
                                isinstance(cf.strip_casts(x), dict) and cf.strip_casts(x).get('k') == 'ref' and cf.strip_casts(x).get('p')
                                for x in (s['l'], s['r'])) and re.search(r'pad', guards.lv(s['r'])):
                            op = e['op']
                            if flip:
                                op = {'<': '>', '<=': '>=', '>': '<', '>=': '<='}[op]
                            sites.append((f, t, op, guards.lv(other)))
    for f, t, op, other in sites:
        p4.check(op == '>=', '%s@%s' % (f.name, (t.get('loc') or '').split('/')[-1]), t.get('loc') or f.loc,
                 '%s decides on the extra padding block with `%s %s blk_size - pad_size`; the tail plus marker plus length field no longer fit '
                 'from tail == blk_size - pad_size on (`>=`)' % (f.name, other, op))


DIGEST_WORDS = {1: 5, 224: 7, 256: 8, 384: 6, 512: 8}      # FIPS 180-4: words of the (truncated) digest


def rule_digest_words(chk, P, rid='P5'):
    """the C routines that write a digest out copy exactly the number of words FIPS 180-4 gives for the selected SHA variant: under
    `sha_type == K` the word count handed to the byte-swapping copy is DIGEST_WORDS[K] (SHA-224 writes 7 words, not the 8 of SHA-256)"""
    from . import callctx
    r = chk.rule(rid, 'under `sha_type == K` a digest is written out with the word count of that SHA variant (1:5, 224:7, 256:8, 384:6, 512:8): '
                      'a count copied from the sibling arm writes past a truncated digest', floor=8)
    seen = set()
    for tu in P.tus():
        for f in P.funcs(tu):
            if (f.name, f.loc) in seen:
                continue
            seen.add((f.name, f.loc))
            if not any(p['name'] == 'sha_type' for p in (f.raw.get('params') or [])):
                continue
            dom = f.dominators()
            with guards.in_function(f):
                for bid, b in f.blocks.items():
                    for ev in b['ev']:
                        if ev['k'] != 'call' or not re.search(r'copy_bswap\d_array', ev['e'].get('fn') or ''):
                            continue
                        a = ev['e'].get('a', [])
                        if len(a) < 3 or cf.evalc(a[2]) is None:
                            continue
                        ctx = callctx._full_ctx(f, dom, bid)
                        ks = [int(m.group(1)) for c in ctx for m in [re.match(r'^sha_type == (\d+)$', c)] if m]
                        if len(ks) != 1 or ks[0] not in DIGEST_WORDS:
                            continue
                        n = int(cf.evalc(a[2]))
                        r.check(n == DIGEST_WORDS[ks[0]], '%s:%d' % (f.name, ks[0]), ev['loc'],
                                '%s writes %d digest words for sha_type %d; the digest of that variant has %d words' % (f.name, n, ks[0], DIGEST_WORDS[ks[0]]))


def rule_asm_pad_threshold(chk, rid='P6', floor=1):
    """the same layout rule for padding written in assembly: the 0x80 marker sits at offset r of the block (the number of tail bytes), the
    big-endian bit length at offset L (56 of a 64-byte block); the branch that goes on to store the length WITHOUT first compressing the block
    must be taken exactly for r + 1 <= L.  Read from the object code: the marker store, the register the copy loop left equal to its index,
    the compare-and-branch on that register, and which edge reaches the length store before any call."""
    from .. import insnscan
    r = chk.rule(rid, 'assembly padding: the branch that stores the message length into the block that already holds the 0x80 marker at offset r is '
                      'taken exactly when r + 1 <= L (L = offset of the length field), i.e. `cmp r, L; jb` or an equivalent form', floor=floor)
    for rel, fs in sorted(insnscan.pad_thresholds().items()):
        for f in fs:
            r.check(f['rmax'] == f['L'] - 1, '%s:%s' % (rel, f['fn']), rel,
                    '%s (%s): marker `%s`, then `%s`: the length field at block offset %d is written without a further compression for marker '
                    'offsets up to %s, but a marker at offset %d leaves no room for it (and one at %d does)' % (
                        f['fn'], rel, ' '.join(f['marker'].split()), ' '.join(f['test'].split()), f['L'],
                        f['rmax'] if f['rmax'] is not None else 'the top of the block', f['L'], f['L'] - 1))
            r.check(not f.get('gaps'), '%s:%s:clear' % (rel, f['fn']), rel,
                    '%s (%s): when the length does not fit, the block is compressed and re-used for the length alone, but bytes %s.. of it are not '
                    'overwritten before the length is stored at offset %d: message bytes of the previous block are hashed as padding' % (
                        f['fn'], rel, f.get('gaps', [])[:1], f['L']))
    return r
