"""C01 — cipher output equals the published algorithm (NOT decided).  Decided: the necessary clause that every variant runs
the kernel its name says: B1 binding agreement for cipher kernels, B2 dispatch cells of the cipher modes."""
import re
from .. import cf
from . import inits, c06

AEAD_MODES = {'IMB_CIPHER_GCM', 'IMB_CIPHER_GCM_SGL', 'IMB_CIPHER_CCM', 'IMB_CIPHER_CHACHA20_POLY1305', 'IMB_CIPHER_CHACHA20_POLY1305_SGL',
              'IMB_CIPHER_SNOW_V_AEAD', 'IMB_CIPHER_SM4_GCM', 'IMB_CIPHER_PON_AES_CNTR'}
AEAD_ALGS = {'IMB_AUTH_AES_GMAC', 'IMB_AUTH_AES_CCM', 'IMB_AUTH_CHACHA20_POLY1305', 'IMB_AUTH_CHACHA20_POLY1305_SGL', 'IMB_AUTH_SNOW_V_AEAD',
             'IMB_AUTH_SM4_GCM', 'IMB_AUTH_GCM_SGL', 'IMB_AUTH_PON_CRC_BIP', 'IMB_AUTH_DOCSIS_CRC32'}
HASH_TOK = re.compile(r'sha|hmac|md5|xcbc|cmac|gmac|ghash|poly|eia|uia|f9|sm3|crc|hec', re.I)
AEAD_TOK = re.compile(r'gcm|ccm|chacha.*poly|snow_?v_aead|pon|docsis.*crc', re.I)


def run(chk):
    P = cf.Program()
    import re as _re
    from . import clones
    chk.explanation = ('NOT decided: equality of output bytes with the published cipher specifications (value-level semantics of '
                       'hand-written SIMD). Decided: the structural necessary clause that each of the nine variants, for every cipher mode, '
                       'key size and direction validation accepts, dispatches to kernels whose names carry that mode, key size and '
                       'direction, and that every macro->kernel binding of cipher kernels agrees in key size / direction.')
    inits.rule_bindings(chk, P, 'B1', select=lambda k, v: not HASH_TOK.search(k) and not AEAD_TOK.search(k), floor=300)
    c06.run(chk, mode_filter=lambda m: m not in AEAD_MODES and m != 'IMB_CIPHER_NULL', only_cells=True, ids=('B2', 'B2h', 'B2o'))
    clones.rule_clones(chk, 'N1', select=lambda s: not _re.search(r'gcm|ccm|cmac|xcbc|ghash|gmac|pon|docsis.*crc', s), floor=20)
    clones.rule_const_width(chk, 'N2', floor=100)
    clones.rule_threshold_tests(chk, 'N3', floor=20)
    clones.rule_defuse(chk, 'D1', 'D2', ('cipher',), floor=50)
    clones.rule_tables(chk, 'N5', ('cipher',), floor=20)
    from . import callctx as _cc
    _Pc = cf.PROGRAM[0] or cf.Program()
    _vt = set(_Pc.variant_tus())
    _cc.rule_call_contexts(chk, _Pc, 'T10', lambda tu, fn, callee, cargs, atoms: tu in _vt, 1000)
    clones.rule_unreachable(chk, 'U1', ('cipher',), floor=20)
    clones.rule_insert_ladders(chk, 'N6', ('cipher',), floor=100)
    clones.rule_dup_stores(chk, 'W6', ('cipher',), floor=1)
    clones.rule_byte_order(chk, 'N7', ('cipher',), floor=20)
    from . import twins as _tw
    _tw.rule_copy_siblings(chk, cf.PROGRAM[0] or cf.Program(), 'X5', floor=100)
    _tw.rule_field_copies(chk, cf.PROGRAM[0] or cf.Program(), 'X4', floor=40)
    _tw.rule_lane_suffix(chk, cf.PROGRAM[0] or cf.Program(), 'X7', floor=60)
    from . import twins
    twins.rule_token_agreement(chk, cf.PROGRAM[0] or cf.Program(), 'K1', floor=150)
    from . import srcdst
    srcdst.rule_out_reads(chk, cf.PROGRAM[0] or cf.Program(), 'O1', floor=150)
    srcdst.rule_src_offset(chk, cf.PROGRAM[0] or cf.Program(), 'O2', floor=60)
