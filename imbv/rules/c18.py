"""C18 — all entry points obey the calling convention on every path (SysV x86-64, object level).
A1 callee-saved GPRs and rsp restored at every exit of every C-callable asm function (summaries for helpers)
A2 direction flag clear at every exit     A3 no MXCSR / x87 control-word writer anywhere
A4 frame sanity: no write below rsp outside push / own frame (interpreter assumption list)"""
import re
from .. import cf, asmfacts, asmint, build


def c_referenced_functions(P):
    """names of functions referenced (called or address taken) anywhere in library C code"""
    out = set()
    for tu in P.tus():
        for f in P.funcs(tu):
            for _, _, ev in f.events():
                for k in ('e', 'lhs', 'rhs', 'val'):
                    for n in cf.walk(ev.get(k) or {}):
                        if n.get('k') == 'ref' and n.get('fn'):
                            out.add(n['n'])
                        if n.get('k') == 'call' and n.get('fn'):
                            out.add(n['fn'])
                if ev['k'] == 'decl':
                    for d in ev['d']:
                        for n in cf.walk(d.get('init') or {}):
                            if n.get('k') == 'ref' and n.get('fn'):
                                out.add(n['n'])
        for t in P.facts[tu]['tables']:
            for el in t['elems']:
                for n in cf.walk(el['e']):
                    if n.get('k') == 'ref' and n.get('fn'):
                        out.add(n['n'])
    return out


def callable_set(P):
    """{asm function: reason} — exported (GLOBAL DEFAULT) or referenced from C"""
    cref = c_referenced_functions(P)
    res = {}
    st = asmfacts.stage()
    for rel, syms in st['symbols'].items():
        for n, s in syms.items():
            if s['type'] != 'FUNC' or s['ndx'] == 'UND':
                continue
            if s['vis'] == 'DEFAULT':
                res[n] = 'exported'
            elif n in cref:
                res[n] = 'called from C'
    return res


def fmt(v):
    if v is None:
        return 'unknown'
    if v[0] == 'E':
        return 'entry %s%+d' % (v[1], v[2]) if v[2] else 'entry ' + v[1]
    if v[0] == 'SP':
        return 'entry rsp%+d' % v[1]
    if v[0] == 'F':
        return 'aligned frame@%x%+d' % (v[1], v[2])
    if v[0] == 'I':
        return '[%d..%d]' % (v[1], v[2])
    return str(v)


def run(chk):
    P = cf.Program()
    st = asmfacts.stage()
    ccall = callable_set(P)
    chk.explanation = ('Every assembled library object (nasm command of the regenerated compile database) is disassembled; an exact '
                       'CFG is recovered (there are no indirect jumps/calls); an abstract interpreter (entry-value / stack-offset / '
                       'aligned-frame / interval+stride domain with stack-slot tracking and branch refinement; callee summaries to a '
                       'fixpoint) decides at every ret / tail-jump of every C-callable function that rsp and rbx,rbp,r12-r15 hold '
                       'their entry values and DF is clear; no instruction that writes MXCSR/x87 control state exists. C code is '
                       'compiler-generated. Windows ABI paths and avx2_t4 assembly are not assembled here.')
    a1 = chk.rule('A1', 'rsp and callee-saved GPRs hold their entry values at every exit of every C-callable asm function', floor=700)
    a2 = chk.rule('A2', 'direction flag clear at every exit of every C-callable asm function', floor=700)
    a5 = chk.rule('A5', 'CFG recovery exact: no indirect jump/call, no fall-off, interpreter terminated', floor=800)
    nfun = 0
    nexit = 0
    ninsn = 0
    assumed = []
    for rel, name, r in asmfacts.all_functions():
        ninsn += r['ninsn']
        iss = [i for i in r['issues']]
        a5.check(not iss, name, rel, 'control flow of %s not fully recovered: %s' % (name, iss[:3]))
        for a in r['assumed']:
            assumed.append('%s %s' % (name, r['lines'].get(a, hex(a))))
        if name not in ccall:
            continue
        nfun += 1
        if not r['exits']:
            a1.bad(name, rel, '%s (%s) has no reachable exit' % (name, ccall[name]))
        for e in r['exits']:
            nexit += 1
            loc = r['lines'].get(e['a'], rel)
            key = '%s@%s+%#x' % (name, e['kind'], e['a'] - r['entry'])
            if e['bad']:
                what = ', '.join('%s = %s' % (reg, fmt(v)) for reg, v in e['bad'])
                a1.bad(key, loc, '%s (%s): at this %s %s instead of the entry value%s' % (
                    name, ccall[name], e['kind'], what, (' (tail call to %s)' % e['target']) if e.get('target') else ''),
                    facts={'exit': e, 'function': name, 'object': rel})
            else:
                a1.ok(key)
            a2.check(e['df'] == 0, key, loc, '%s: direction flag %s at exit' % (name, 'set' if e['df'] == 1 else 'not provably clear'))
    chk.extra.update({'c_callable_functions': nfun, 'exits_checked': nexit, 'instruction_states': ninsn,
                      'asm_functions_total': sum(1 for _ in asmfacts.all_functions()),
                      'summary_iterations': st['iterations'],
                      'internal_helpers_with_nonabi_exits': sum(1 for rel, n, r in asmfacts.all_functions()
                                                                if n not in ccall and any(e['bad'] for e in r['exits']))})
    if nfun < 650:
        chk.broken('only %d C-callable asm functions found (expected >= 650)' % nfun)
    # A3
    a3 = chk.rule('A3', 'no instruction writing MXCSR / x87 control state in any asm object; no such intrinsic/inline asm in C',
                  floor=800)
    for rel, name, r in asmfacts.all_functions():
        a3.check(not r['special'], name, r['lines'].get(r['special'][0][0], rel) if r['special'] else rel,
                 '%s contains %s' % (name, ', '.join(m for _, m in r['special'])))
    BADC = {'_mm_setcsr', '__builtin_ia32_ldmxcsr', 'fesetround', 'fesetenv', 'feholdexcept', '_MM_SET_ROUNDING_MODE',
            '_MM_SET_FLUSH_ZERO_MODE', '_MM_SET_DENORMALS_ZERO_MODE', '_mm_empty'}
    for tu in P.tus():
        for f in P.funcs(tu):
            for _, _, ev in f.events(('call', 'asm')):
                if ev['k'] == 'asm':
                    a3.bad('%s:asm' % f.name, ev['loc'], 'inline assembly in %s: %s' % (f.name, ev.get('text', '')[:60]))
                elif ev['e'].get('fn') in BADC:
                    a3.bad('%s:%s' % (f.name, ev['e']['fn']), ev['loc'], '%s calls %s' % (f.name, ev['e']['fn']))
    # A4: assumption list (stores into the own frame with an index the interval domain cannot bound)
    a4 = chk.rule('A4', 'own-frame stores with an unbounded index (assumed not to hit the register save area) stay within the '
                        'confirmed set size', floor=0)
    chk.assume('stores through non-stack pointers do not alias the function frame')
    chk.assume('%d own-frame stores with an index the interval domain cannot bound are assumed not to hit the save area: %s' % (
        len(assumed), '; '.join(assumed[:40])))
    chk.extra['unbounded_frame_index_sites'] = len(assumed)
    a4.check(len(assumed) <= 40, 'unbounded-sites', 'asm', 'the number of unbounded own-frame index sites grew to %d' % len(assumed))
    # positive fixtures (zero-expected rules must still be able to fire)
    run_fixtures(chk)


def run_fixtures(chk):
    import os, subprocess, tempfile
    fx = chk.rule('FX', 'positive fixtures: a clobbering function / std / ldmxcsr are flagged by the engine', floor=3)
    fdir = os.path.join(os.path.dirname(os.path.dirname(os.path.dirname(os.path.abspath(__file__)))), 'fixtures')
    src = os.path.join(fdir, 'abi_bad.asm')
    if not os.path.exists(src):
        chk.broken('fixture abi_bad.asm missing')
        return
    obj = os.path.join(build.scratch(), 'abi_bad.o')
    r = subprocess.run(['nasm', '-felf64', '-o', obj, src], capture_output=True, text=True)
    if r.returncode != 0:
        chk.broken('fixture does not assemble: ' + r.stderr[:200])
        return
    insns, labels, funcs, syms = asmint.parse_obj(obj)
    th = asmint.thresholds_for(insns)
    res = {n: asmint.analyse_func(n, e, insns, {}, th) for n, e in funcs.items()}
    fx.check(any(reg == 'rbx' for e in res['fx_clobber_rbx']['exits'] for reg, _ in e['bad']), 'fx_clobber_rbx', src,
             'engine failed to flag the rbx clobber fixture')
    fx.check(any(reg == 'rsp' for e in res['fx_unbalanced']['exits'] for reg, _ in e['bad']), 'fx_unbalanced', src,
             'engine failed to flag the unbalanced-stack fixture')
    fx.check(any(e['df'] != 0 for e in res['fx_std']['exits']), 'fx_std', src, 'engine failed to flag the std fixture')
    fx.check(bool(res['fx_ldmxcsr']['special']), 'fx_ldmxcsr', src, 'engine failed to flag the ldmxcsr fixture')
    fx.check(not any(e['bad'] for e in res['fx_good']['exits']) and all(e['df'] == 0 for e in res['fx_good']['exits']), 'fx_good', src,
             'engine flags the well-behaved fixture')
