"""Permutation well-formedness: the direct-API N-buffer calls sort their packets by length, swapping the parallel arrays
(sources, destinations, IVs, lengths) element by element.  An exchange `t = A[p]; A[p] = A[q]; A[q] = t` keeps A a permutation of
its input only if the temporary is loaded from the element that is overwritten first; and the parallel arrays stay aligned only
if every array exchanged in the block uses the same index pair.  Structural necessary condition: a malformed exchange
duplicates one element and loses another (a packet processed with another packet's IV / length / buffer)."""
from .. import cf


def _idx(e):
    e = cf.strip_casts(e)
    if isinstance(e, dict) and e.get('k') == 'idx':
        return cf.render(cf.strip_casts(e['b'])), cf.render(cf.strip_casts(e['i']))
    return None


def exchanges(func):
    """per block: list of dict(array, p, q, temp, src=(array, index) the temp was loaded from, loc)"""
    out = []
    for bid, b in func.blocks.items():
        evs = b['ev']
        # definitions of scalars from array elements in this block: name -> (pos, (array, index))
        defs = {}
        moves = []
        for pos, ev in enumerate(evs):
            if ev['k'] == 'decl':
                for d in ev['d']:
                    if d.get('init') is not None and _idx(d['init']):
                        defs.setdefault(d['n'], []).append((pos, _idx(d['init'])))
            elif ev['k'] == 'assign' and ev.get('op') == '=':
                l = cf.strip_casts(ev['lhs'])
                li, ri = _idx(ev['lhs']), _idx(ev.get('rhs'))
                if isinstance(l, dict) and l.get('k') == 'ref' and ri:
                    defs.setdefault(l['n'], []).append((pos, ri))
                elif li and ri and li[0] == ri[0] and li[1] != ri[1]:
                    moves.append((pos, li[0], li[1], ri[1], ev))
        for pos, arr, p, q, ev in moves:
            # the closing store A[q] = t later in the block
            for pos2 in range(pos + 1, len(evs)):
                e2 = evs[pos2]
                if e2['k'] != 'assign' or e2.get('op') != '=':
                    continue
                l2 = _idx(e2['lhs'])
                r2 = cf.strip_casts(e2.get('rhs'))
                if l2 == (arr, q) and isinstance(r2, dict) and r2.get('k') == 'ref':
                    t = r2['n']
                    src = None
                    for dpos, s in defs.get(t, []):
                        if dpos < pos:
                            src = s
                    if src is not None:
                        out.append({'block': bid, 'array': arr, 'p': p, 'q': q, 'temp': t, 'src': src,
                                    'loc': ev.get('sloc') or ev['loc']})
                    break
    return out


def rule_swaps(chk, P, rid='E6', floor=8):
    r = chk.rule(rid, 'element exchanges in the length-sorting code of the N-buffer calls are well formed (temporary loaded from the '
                      'element overwritten first, same array) and all parallel arrays of a block are exchanged with the same index pair',
                 floor=floor)
    for tu in P.tus():
        for f in P.funcs(tu):
            ex = exchanges(f)
            if not ex:
                continue
            byblock = {}
            for x in ex:
                byblock.setdefault(x['block'], []).append(x)
            for bid, xs in byblock.items():
                pairs = {(x['p'], x['q']) for x in xs}
                for x in xs:
                    key = '%s:%s:%s[%s<->%s]' % (tu.split('__')[0], f.name, x['array'], x['p'], x['q'])
                    ok = x['src'] == (x['array'], x['p'])
                    r.check(ok, key, x['loc'], '%s: exchange of %s[%s] and %s[%s] saves %s[%s] in `%s`: element %s[%s] is lost and %s[%s] duplicated' % (
                        f.name, x['array'], x['p'], x['array'], x['q'], x['src'][0], x['src'][1], x['temp'], x['array'], x['p'], x['array'], x['q']))
                r.check(len(pairs) == 1, '%s:%s:b%s:pairs' % (tu.split('__')[0], f.name, bid), xs[0]['loc'],
                        '%s: parallel arrays exchanged with different index pairs %s: the arrays no longer describe the same packets' % (
                            f.name, sorted(pairs)))
    return r
