"""Clone consistency of key-size siblings: the 128/192/256 instances of one assembly kernel are generated from one source
with a different number of AES rounds, so their instruction mixes may differ only in round-dependent instructions
(AES rounds, round-key loads/broadcasts/extracts, alignment padding).  A mutation inside one sibling (a changed add width, a
dropped mask, an extra branch) shows up as a mnemonic-count difference against its siblings.  Necessary condition only."""
import re
from .. import asmfacts

ROUND = re.compile(r'^(v?aes(enc|dec)(last)?|v?movdq[au](8|16|32|64)?|v?mov[au]ps|vbroadcast[if]\d+x\d|vbroadcasti128|vextracti64x2|'
                   r'v?pxor[dq]?|vpternlogq|nop|jmp|xchg)$')
EXCEPT = {
    re.compile(r'^aes_keyexp_N'): 'the AES key schedule itself differs per key size (FIPS-197)',
    re.compile(r'^submit_job_aesN_cfb_enc_vaes_avx512$'): 'INSERT_KEYS copies round keys in groups whose structure depends on the key count',
}


def groups():
    hist = {}
    rel = {}
    for r_, name, r in asmfacts.all_functions():
        hist[name] = r.get('hist', {})
        rel[name] = r_
    g = {}
    for n in hist:
        m = re.search(r'(?<![0-9])(128|192|256)(?![0-9])', n)
        if m:
            stem = n[:m.start()] + 'N' + n[m.end():]
            g.setdefault(stem, {})[m.group(1)] = n
    return {k: v for k, v in g.items() if len(v) >= 2}, hist, rel


def rule_clones(chk, rid, select=None, floor=20):
    r = chk.rule(rid, 'key-size siblings (128/192/256) of one assembly kernel differ only in round-dependent instructions', floor=floor)
    gs, hist, rel = groups()
    for stem, mem in sorted(gs.items()):
        if select and not select(stem):
            continue
        exc = next((why for pat, why in EXCEPT.items() if pat.match(stem)), None)
        if exc:
            r.ok(stem + ':exception', exc)
            continue
        names = [mem[k] for k in sorted(mem)]
        keys = set()
        for n in names:
            keys |= set(hist[n])
        diff = {k: [hist[n].get(k, 0) for n in names] for k in keys if not ROUND.match(k) and len({hist[n].get(k, 0) for n in names}) > 1}
        if diff:
            # name the odd one out
            odd = None
            for i, n in enumerate(names):
                others = [hist[m].get(k, 0) for k in diff for j, m in enumerate(names) if j != i]
                if len(names) == 3 and all(len({hist[m].get(k, 0) for j, m in enumerate(names) if j != i}) == 1 for k in diff):
                    odd = n
            r.bad(stem, rel[odd or names[0]], 'siblings %s differ outside the AES rounds: %s%s' % (
                names, ', '.join('%s %s' % (k, v) for k, v in sorted(diff.items())[:6]),
                ('; the odd one out is %s' % odd) if odd else ''), facts={'diff': diff, 'members': names})
        else:
            r.ok(stem, {'members': names})
    return r
