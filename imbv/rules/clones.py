"""Clone consistency of key-size siblings: the 128/192/256 instances of one assembly kernel are generated from one source
with a different number of AES rounds, so their instruction mixes may differ only in round-dependent instructions
(AES rounds, round-key loads/broadcasts/extracts, alignment padding).  A mutation inside one sibling (a changed add width, a
dropped mask, an extra branch) shows up as a mnemonic-count difference against its siblings.  Necessary condition only."""
import re
from .. import asmfacts

ROUND = re.compile(r'^(v?aes(enc|dec)(last)?|v?movdq[au](8|16|32|64)?|v?mov[au]ps|vbroadcast[if]\d+x\d|vbroadcasti128|vextracti64x2|'
                   r'v?pxor[dq]?|vpternlogq|nop|jmp|xchg)$')
EXCEPT = {
    re.compile(r'^aes_keyexp_N'): 'the AES key schedule itself differs per key size (FIPS-197)',
    re.compile(r'^submit_job_aesN_cfb_enc_vaes_avx512$'): 'INSERT_KEYS copies round keys in groups whose structure depends on the key count',
}


def groups():
    hist = {}
    rel = {}
    for r_, name, r in asmfacts.all_functions():
        hist[name] = r.get('hist', {})
        rel[name] = r_
    g = {}
    for n in hist:
        m = re.search(r'(?<![0-9])(128|192|256)(?![0-9])', n)
        if m:
            stem = n[:m.start()] + 'N' + n[m.end():]
            g.setdefault(stem, {})[m.group(1)] = n
    return {k: v for k, v in g.items() if len(v) >= 2}, hist, rel


def rule_clones(chk, rid, select=None, floor=20):
    r = chk.rule(rid, 'key-size siblings (128/192/256) of one assembly kernel differ only in round-dependent instructions', floor=floor)
    gs, hist, rel = groups()
    for stem, mem in sorted(gs.items()):
        if select and not select(stem):
            continue
        exc = next((why for pat, why in EXCEPT.items() if pat.match(stem)), None)
        if exc:
            r.ok(stem + ':exception', exc)
            continue
        names = [mem[k] for k in sorted(mem)]
        keys = set()
        for n in names:
            keys |= set(hist[n])
        diff = {k: [hist[n].get(k, 0) for n in names] for k in keys if not ROUND.match(k) and len({hist[n].get(k, 0) for n in names}) > 1}
        if diff:
            # name the odd one out
            odd = None
            for i, n in enumerate(names):
                others = [hist[m].get(k, 0) for k in diff for j, m in enumerate(names) if j != i]
                if len(names) == 3 and all(len({hist[m].get(k, 0) for j, m in enumerate(names) if j != i}) == 1 for k in diff):
                    odd = n
            r.bad(stem, rel[odd or names[0]], 'siblings %s differ outside the AES rounds: %s%s' % (
                names, ', '.join('%s %s' % (k, v) for k, v in sorted(diff.items())[:6]),
                ('; the odd one out is %s' % odd) if odd else ''), facts={'diff': diff, 'members': names})
        else:
            r.ok(stem, {'members': names})
    return r


WIDTH_OF = {}
for _w, _ms in (('b', ('paddb', 'psubb')), ('w', ('paddw', 'psubw')), ('d', ('paddd', 'psubd')), ('q', ('paddq', 'psubq'))):
    for _m in _ms:
        WIDTH_OF[_m] = _w
        WIDTH_OF['v' + _m] = _w


def rule_const_width(chk, rid, select=None, floor=50):
    """contradiction rule: one vector constant of an object is added / subtracted with one element width everywhere (the counter
    increment tables of the CTR / GCM / CCM kernels are dword constants: a qword add carries into the neighbouring IV word)"""
    r = chk.rule(rid, 'within one function, the constants of one table (labels differing only in their trailing numbering) consumed by packed integer add/sub '
                      'instructions are all consumed with the same element width (counter-increment tables: a wider add carries into the nonce)',
                 floor=floor)
    n = 0
    for rel, name, res in asmfacts.all_functions():
        if select and not select(rel, name):
            continue
        # one table = the constants whose labels differ only in their trailing numbering (ddq_add_1 .. ddq_add_8, ddq_add_16_16)
        fam = {}
        for a, mn, sym, off, fm in res.get('constuse', ()):
            if mn in WIDTH_OF:
                fam.setdefault(fm, []).append((fm, off, WIDTH_OF[mn], a))
        for fm, cl in sorted(fam.items()):
            cl.sort(key=lambda u: u[1])
            if len(cl) < 3:
                continue
            ws = {}
            for sym, off, w, a in cl:
                ws.setdefault(w, []).append((a, off))
            key = '%s:%s' % (name, fm)
            n += 1
            if len(ws) == 1:
                r.ok(key, {'width': list(ws)[0], 'sites': len(cl)})
                continue
            major = max(ws, key=lambda k_: len(ws[k_]))
            for w, sites in sorted(ws.items()):
                if w == major:
                    continue
                for a, off in sites[:4]:
                    r.bad('%s@%#x' % (key, a - res['entry']), res['lines'].get(a, rel),
                          '%s: a constant of the table %s* is added with element width `%s` here, the other %d uses of the table in this '
                          'function use `%s`' % (name, fm, w, len(ws[major]), major),
                          facts={'widths': {k_: len(v_) for k_, v_ in ws.items()}})
    return r


def rule_threshold_tests(chk, rid, select=None, floor=20):
    """contradiction rule: `cmp counter_byte, 256-N ; jae overflow` — within one function, every unsigned test against one such
    constant uses the same strictness (ja vs jae, jb vs jbe): the stitched kernels test the same headroom at several places"""
    r = chk.rule(rid, 'within one function, all unsigned tests of a byte counter against the same near-overflow constant (0xC0..0xFF) use the '
                      'same condition (a strict test in one place and a non-strict one in another disagree about one counter value)', floor=floor)
    for rel, name, res in asmfacts.all_functions():
        if select and not select(rel, name):
            continue
        by = {}
        for a, imm, cc in res.get('hi_tests', ()):
            if cc in ('a', 'ae', 'b', 'be'):
                by.setdefault(imm, {}).setdefault(cc, []).append(a)
        for imm, ccs in sorted(by.items()):
            key = '%s:%#x' % (name, imm)
            fam = {'a': 'hi', 'ae': 'hi', 'b': 'lo', 'be': 'lo'}
            groups = {}
            for cc, sites in ccs.items():
                groups.setdefault(fam[cc], {})[cc] = sites
            bad = False
            for g, d in groups.items():
                if len(d) > 1:
                    bad = True
                    major = max(d, key=lambda c_: len(d[c_]))
                    for cc, sites in d.items():
                        if cc == major:
                            continue
                        for a in sites[:3]:
                            r.bad('%s@%#x' % (key, a - res['entry']), res['lines'].get(a, rel),
                                  '%s: the counter is tested against %#x with `j%s` here and with `j%s` at %d other place(s) of the function: '
                                  'the two tests disagree for the value %#x' % (name, imm, cc, major, len(d[major]), imm if 'e' in cc + major else imm))
            if not bad:
                r.ok(key, {c_: len(v_) for c_, v_ in ccs.items()})
    return r
