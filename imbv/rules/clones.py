"""Clone consistency of key-size siblings: the 128/192/256 instances of one assembly kernel are generated from one source
with a different number of AES rounds, so their instruction mixes may differ only in round-dependent instructions
(AES rounds, round-key loads/broadcasts/extracts, alignment padding).  A mutation inside one sibling (a changed add width, a
dropped mask, an extra branch) shows up as a mnemonic-count difference against its siblings.  Necessary condition only."""
import re
from .. import asmfacts

ROUND = re.compile(r'^(v?aes(enc|dec)(last)?|v?movdq[au](8|16|32|64)?|v?mov[au]ps|vbroadcast[if]\d+x\d|vbroadcasti128|vextracti64x2|'
                   r'v?pxor[dq]?|vpternlogq|nop|jmp|xchg)$')
# only the vector data path is compared: scalar control code (flag-setting idioms, address arithmetic, moves, branches) is rewritten
# in one copy of a kernel without the others following, and says nothing about the cipher
DATAPATH = re.compile(r'^(v?p[a-z]|v?(shuf|unpck|blend|perm|align|insert|extract|gf2p8|sha|pclmul)|vp|k(and|or|xor|not|shift|add|unpck))')
EXCEPT = {
    re.compile(r'^aes_keyexp_N'): 'the AES key schedule itself differs per key size (FIPS-197)',
    re.compile(r'^submit_job_aesN_cfb_enc_vaes_avx512$'): 'INSERT_KEYS copies round keys in groups whose structure depends on the key count',
}


def groups():
    hist = {}
    rel = {}
    for r_, name, r in asmfacts.all_functions():
        hist[name] = r.get('hist', {})
        rel[name] = r_
    g = {}
    for n in hist:
        m = re.search(r'(?<![0-9])(128|192|256)(?![0-9])', n)
        if m:
            stem = n[:m.start()] + 'N' + n[m.end():]
            g.setdefault(stem, {})[m.group(1)] = n
    return {k: v for k, v in g.items() if len(v) >= 2}, hist, rel


def rule_clones(chk, rid, select=None, floor=20):
    r = chk.rule(rid, 'key-size siblings (128/192/256) of one assembly kernel differ only in round-dependent instructions', floor=floor)
    gs, hist, rel = groups()
    for stem, mem in sorted(gs.items()):
        if select and not select(stem):
            continue
        exc = next((why for pat, why in EXCEPT.items() if pat.match(stem)), None)
        if exc:
            r.ok(stem + ':exception', exc)
            continue
        names = [mem[k] for k in sorted(mem)]
        keys = set()
        for n in names:
            keys |= set(hist[n])
        diff = {k: [hist[n].get(k, 0) for n in names] for k in keys
                if DATAPATH.match(k) and not ROUND.match(k) and len({hist[n].get(k, 0) for n in names}) > 1}
        if diff:
            # name the odd one out
            odd = None
            for i, n in enumerate(names):
                others = [hist[m].get(k, 0) for k in diff for j, m in enumerate(names) if j != i]
                if len(names) == 3 and all(len({hist[m].get(k, 0) for j, m in enumerate(names) if j != i}) == 1 for k in diff):
                    odd = n
            r.bad(stem, rel[odd or names[0]], 'siblings %s differ outside the AES rounds: %s%s' % (
                names, ', '.join('%s %s' % (k, v) for k, v in sorted(diff.items())[:6]),
                ('; the odd one out is %s' % odd) if odd else ''), facts={'diff': diff, 'members': names})
        else:
            r.ok(stem, {'members': names})
    return r


WIDTH_OF = {}
for _w, _ms in (('b', ('paddb', 'psubb')), ('w', ('paddw', 'psubw')), ('d', ('paddd', 'psubd')), ('q', ('paddq', 'psubq'))):
    for _m in _ms:
        WIDTH_OF[_m] = _w
        WIDTH_OF['v' + _m] = _w


def rule_const_width(chk, rid, select=None, floor=50):
    """contradiction rule: one vector constant of an object is added / subtracted with one element width everywhere (the counter
    increment tables of the CTR / GCM / CCM kernels are dword constants: a qword add carries into the neighbouring IV word)"""
    r = chk.rule(rid, 'within one function, the constants of one table (labels differing only in their trailing numbering) consumed by packed integer add/sub '
                      'instructions are all consumed with the same element width (counter-increment tables: a wider add carries into the nonce)',
                 floor=floor)
    n = 0
    for rel, name, res in asmfacts.all_functions():
        if select and not select(rel, name):
            continue
        # one table = the constants whose labels differ only in their trailing numbering (ddq_add_1 .. ddq_add_8, ddq_add_16_16)
        fam = {}
        for a, mn, sym, off, fm in res.get('constuse', ()):
            if mn in WIDTH_OF:
                fam.setdefault(fm, []).append((fm, off, WIDTH_OF[mn], a))
        for fm, cl in sorted(fam.items()):
            cl.sort(key=lambda u: u[1])
            if len(cl) < 3:
                continue
            ws = {}
            for sym, off, w, a in cl:
                ws.setdefault(w, []).append((a, off))
            key = '%s:%s' % (name, fm)
            n += 1
            if len(ws) == 1:
                r.ok(key, {'width': list(ws)[0], 'sites': len(cl)})
                continue
            major = max(ws, key=lambda k_: len(ws[k_]))
            for w, sites in sorted(ws.items()):
                if w == major:
                    continue
                for a, off in sites[:4]:
                    r.bad('%s@%#x' % (key, a - res['entry']), res['lines'].get(a, rel),
                          '%s: a constant of the table %s* is added with element width `%s` here, the other %d uses of the table in this '
                          'function use `%s`' % (name, fm, w, len(ws[major]), major),
                          facts={'widths': {k_: len(v_) for k_, v_ in ws.items()}})
    return r


def rule_threshold_tests(chk, rid, select=None, floor=20):
    """contradiction rule: `cmp counter_byte, 256-N ; jae overflow` — within one function, every unsigned test against one such
    constant uses the same strictness (ja vs jae, jb vs jbe): the stitched kernels test the same headroom at several places"""
    r = chk.rule(rid, 'within one function, all unsigned tests of a byte counter against the same near-overflow constant (0xC0..0xFF) use the '
                      'same condition (a strict test in one place and a non-strict one in another disagree about one counter value)', floor=floor)
    for rel, name, res in asmfacts.all_functions():
        if select and not select(rel, name):
            continue
        by = {}
        for a, imm, cc in res.get('hi_tests', ()):
            if cc in ('a', 'ae', 'b', 'be'):
                by.setdefault(imm, {}).setdefault(cc, []).append(a)
        for imm, ccs in sorted(by.items()):
            key = '%s:%#x' % (name, imm)
            fam = {'a': 'hi', 'ae': 'hi', 'b': 'lo', 'be': 'lo'}
            groups = {}
            for cc, sites in ccs.items():
                groups.setdefault(fam[cc], {})[cc] = sites
            bad = False
            for g, d in groups.items():
                if len(d) > 1:
                    bad = True
                    major = max(d, key=lambda c_: len(d[c_]))
                    for cc, sites in d.items():
                        if cc == major:
                            continue
                        for a in sites[:3]:
                            r.bad('%s@%#x' % (key, a - res['entry']), res['lines'].get(a, rel),
                                  '%s: the counter is tested against %#x with `j%s` here and with `j%s` at %d other place(s) of the function: '
                                  'the two tests disagree for the value %#x' % (name, imm, cc, major, len(d[major]), imm if 'e' in cc + major else imm))
            if not bad:
                r.ok(key, {c_: len(v_) for c_, v_ in ccs.items()})
    return r


# ------------------------------------------------------------------------------------------------ definition / use

import json as _json, os as _os
DU_BASELINE = _os.path.join(_os.path.dirname(_os.path.dirname(_os.path.abspath(__file__))), 'data', 'defuse_baseline.json')
_AEAD = re.compile(r'gcm|ccm|chacha20_poly|poly1305_aead|pon|docsis|snow_?v|aead', re.I)
_HASH = re.compile(r'sha|md5|hmac|cmac|xcbc|ghash|gmac|poly|crc|eia3|uia2|f9|sm3|cbc_mac', re.I)


def family_of(rel, name):
    """which property a routine's value-level facts are reported under: 'mgr' (multi-buffer manager routine), 'aead', 'hash', 'cipher'"""
    if re.match(r'^(submit|flush)_job', name):
        return 'mgr'
    s = name + ' ' + rel.split('/')[-1]
    if _AEAD.search(s):
        return 'aead'
    if _HASH.search(s):
        return 'hash'
    return 'cipher'


_CALLABLE = {}


def _callable():
    """names of the assembly routines with a C prototype: their live-out registers at `ret` are those of the C ABI (return value and
    callee-saved registers); a routine only ever entered from other assembly may hand results back in any register"""
    if 'set' not in _CALLABLE:
        from .. import cf
        from . import c18
        try:
            _CALLABLE['set'] = set(c18.callable_set(cf.PROGRAM[0] or cf.Program()))
        except Exception:
            _CALLABLE['set'] = set()
    return _CALLABLE['set']


def _dead(res, name):
    du = res.get('du') or {}
    return du.get('dead_abi', []) if name in _callable() else du.get('dead', [])


def du_counts(res, name=None):
    du = dict(res.get('du') or {'dead': [], 'uninit': []})
    du['dead'] = _dead(res, name)
    ug = {r_ for _, r_, _ in du['uninit'] if not r_.startswith(('v', 'k'))}
    uv = {r_ for _, r_, _ in du['uninit'] if r_.startswith(('v', 'k'))}
    return [len(du['dead']), len(ug), len(uv)]


def write_du_baseline():
    out = {}
    for rel, name, res in asmfacts.all_functions():
        out[name] = du_counts(res, name)
    with open(DU_BASELINE, 'w') as f:
        _json.dump({'note': 'per assembled routine on the reference tree: [dead definitions, general registers read before any definition, '
                            'vector/mask registers read before any definition]; python3 -m imbv.rules.clones --write-baseline',
                    'functions': out}, f, indent=0, sort_keys=True)
    return len(out)


def rule_defuse(chk, rid_dead, rid_uninit, families, floor=20):
    """deviance rules over the exact CFG: computing a value states the belief that it is used, reading a register states the belief
    that something defined it.  Decided against the reference tree's own counts per routine, so that the idioms the code base
    already contains (piecewise vector construction, values kept for a later macro) are not findings"""
    d1 = chk.rule(rid_dead, 'no routine computes more values that are never consumed than on the reference tree (a definition that no path '
                            'reads before it is overwritten or the routine ends: the line consuming it went missing)', floor=floor)
    d2 = chk.rule(rid_uninit, 'no routine reads more registers that nothing has defined on some path from its entry than on the reference '
                              'tree (the line producing the value went missing on that path)', floor=floor)
    if not _os.path.exists(DU_BASELINE):
        chk.broken('definition/use baseline missing')
        return
    base = _json.load(open(DU_BASELINE))['functions']
    for rel, name, res in asmfacts.all_functions():
        if family_of(rel, name) not in families:
            continue
        b = base.get(name)
        if b is None:
            d1.ok(name + ':new', 'routine not on the reference tree')
            continue
        cur = du_counts(res, name)
        du = dict(res.get('du') or {'dead': [], 'uninit': []})
        du['dead'] = _dead(res, name)
        if cur[0] > b[0]:
            for a, txt in du['dead'][:max(3, cur[0] - b[0] + 2)]:
                pass
            shown = '; '.join('%s  [%s]' % (res['lines'].get(a, rel).split('  [')[0], txt) for a, txt in du['dead'][:6])
            d1.bad(name, res['lines'].get(du['dead'][0][0], rel) if du['dead'] else rel,
                   '%s now holds %d definitions whose value is never read (reference tree: %d): %s' % (name, cur[0], b[0], shown))
        else:
            d1.ok(name, cur[0])
        if cur[1] > b[1] or cur[2] > b[2]:
            shown = '; '.join('%s read at %s  [%s]' % (r_, res['lines'].get(a, rel).split('  [')[0], t) for a, r_, t in du['uninit'][:8])
            d2.bad(name, res['lines'].get(du['uninit'][0][0], rel) if du['uninit'] else rel,
                   '%s now reads %d general / %d vector registers before any definition on some path (reference tree: %d / %d): %s' % (
                       name, cur[1], cur[2], b[1], b[2], shown))
        else:
            d2.ok(name, cur[1:])


# (constant, unit) pairs that legitimately stand alone among the copies of one named constant
TABLE_EXCEPT = {
    ('PSHUFFLE_BYTE_FLIP_MASK', 'lib/avx2_t1/sha512_x4_avx2.asm'): 'second 128-bit lane spelt with indices 0x10..0x1f: vpshufb reads the low four bits only, same permutation',
    ('PSHUFFLE_BYTE_FLIP_MASK', 'lib/avx512_t1/sha512_x8_avx512.asm'): 'second 128-bit lane spelt with indices 0x10..0x1f: vpshufb reads the low four bits only, same permutation',
    ('poly_clamp_r', 'lib/avx512_t1/chacha20_avx512.asm'): 'clamp mask followed by an all-ones half so that one 256-bit AND clamps r and keeps s',
    ('pshufb_shf_table', 'lib/avx512_t2/aes_docsis_enc_vaes_avx512.asm'): "a different table under the same name (index 0 zero-fills, see the unit's comment)",
}


def _pow2ceil(n):
    p = 1
    while p < n:
        p *= 2
    return p


def rule_tables(chk, rid, families=None, floor=300):
    """sibling rule over the constant tables of the assembled units (rotables): the copies of one named constant kept in three or more
    units agree — identical after removing replication (xmm/ymm/zmm copies) and alignment padding, or one a proper extension of a
    copy shared by others.  A copy that stands alone is a deviant: one unit's constant was edited without its siblings."""
    from .. import rotables
    r = chk.rule(rid, 'copies of one named constant table kept in three or more assembly units agree (up to replication to the vector '
                      'width, alignment padding, and extension by further entries)', floor=floor)
    g = {}
    for rel, ts in rotables.tables().items():
        for x in ts:
            if x['name'].startswith('..@'):
                continue
            g.setdefault(x['name'], []).append((rel, x))
    for name in sorted(g):
        inst = g[name]
        if len(inst) < 3:
            continue
        classes = {}
        for rel, x in inst:
            classes.setdefault(x['digest'], []).append(rel)
        shared = {d: v for d, v in classes.items() if len(v) >= 2}
        for rel, x in inst:
            if families is not None and ('mgr' if '/mb_mgr_' in rel else family_of(rel, '')) not in families:
                continue
            key = '%s@%s' % (name, rel)
            if x['digest'] in shared:
                r.ok(key, len(shared[x['digest']]))
                continue
            if not shared:
                r.ok(key, 'no two copies agree: unrelated constants under one name')
                continue
            why = TABLE_EXCEPT.get((name, rel))
            if why:
                r.ok(key, 'stands alone: ' + why)
                continue
            c = bytes.fromhex(x['canon'])
            sup = None
            for rel2, y in inst:
                if y['digest'] not in shared:
                    continue
                c2 = bytes.fromhex(y['canon'])
                a, b = (c2, c) if len(c2) <= len(c) else (c, c2)
                if a and b[:len(a)] == a:
                    # only a copy of about the same size supports: a table 2^k times as long as a shared one is either a replicated copy
                    # with one replica altered or the table of a manager with more lanes, which has siblings of its own
                    if _pow2ceil(len(b)) != _pow2ceil(len(a)):
                        continue
                    sup = rel2
                    break
            if sup:
                r.ok(key, 'extends / is extended by the copy in ' + sup)
            else:
                others = sorted(shared.items(), key=lambda kv: -len(kv[1]))[0][1]
                r.bad(key, rel, 'constant table `%s` of %s (%d bytes after removing replication and padding, starts %s) agrees with no other '
                                'copy of that name; %d units (%s, ...) share a different content' % (
                                    name, rel, len(c), c[:16].hex(), len(others), others[0]))



def rule_insert_ladders(chk, rid, families=None, floor=1000, also=None):
    """contradiction rule over the element-insert ladders that assemble a vector from consecutive memory elements (nonce / IV bytes, tag
    words): in a run of (v)pinsr instructions into one register from one base pointer, a rung whose (element index - source offset) differs
    from that of both its neighbours, which agree with each other, inserts the element at the wrong place"""
    from .. import insnscan
    import collections
    r = chk.rule(rid, 'in a ladder of (v)pinsr{b,w,d,q} xmm, [base + off], idx a rung keeps the index/offset relation of its two neighbours when those '
                      'agree (a nonce / IV / tag byte is inserted where its neighbours say it belongs)', floor=floor)
    for rel, lst in sorted(insnscan.inserts().items()):
        fam = 'mgr' if '/mb_mgr_' in rel else family_of(rel, '')
        if families is not None and fam not in families and not (also and re.search(also, rel)):
            continue
        g = collections.defaultdict(list)
        for x in lst:
            g[(x['fn'], x['mn'], x['dst'], x['base'])].append(x)
        for k, v in sorted(g.items(), key=lambda kv: str(kv[0])):
            if len(v) < 3:
                continue
            v.sort(key=lambda x: x['a'])
            w = {'b': 1, 'w': 2, 'd': 4, 'q': 8}[k[1][-1]]
            d = [x['idx'] * w - x['disp'] for x in v]
            for i in range(1, len(v) - 1):
                near = abs(v[i - 1]['idx'] - v[i + 1]['idx']) <= 4 and v[i + 1]['a'] - v[i - 1]['a'] < 64
                ok = not (near and d[i - 1] == d[i + 1] != d[i])
                r.check(ok, '%s:%s+%#x' % (rel, k[0], v[i]['a']), rel,
                        '%s (%s): %s %s,[%s%+d],%d sits between rungs that insert element (offset%+d)/%d; this one inserts the element read at '
                        'offset %d at index %d' % (k[0], rel, k[1], k[2], k[3], v[i]['disp'], v[i]['idx'], d[i - 1], w, v[i]['disp'], v[i]['idx']))


def rule_dup_stores(chk, rid, families=None, floor=20, also=None):
    """a value an instruction COMPUTED (not a zero idiom, not a constant, not a plain load) is not written twice, unchanged, to two different
    places within 64 bytes of each other through one pointer: the second half of a two-part store (digest halves, tag remainder, block
    pairs) must come from a different value.  Reaching-stores dataflow over the exact CFG of every routine; constant steps of the pointer
    between the two stores (lea/add/sub/inc/dec) are folded into the distance."""
    from .. import insnscan
    r = chk.rule(rid, 'no computed vector value is stored twice, unchanged, at overlapping register bytes to two different addresses within 64 '
                      'bytes through one pointer (the second part of a split store repeats the first)', floor=floor)
    fx = insnscan.dupstore_fixture()
    hit = [f for f in fx if f['fn'] == 'w6_fixture_bad' and f['defs'] == ['compute'] and 0 < abs(f['delta']) <= 64]
    miss = [f for f in fx if f['fn'] == 'w6_fixture_good' and f['defs'] == ['compute'] and 0 < abs(f['delta']) <= 64]
    if not hit or miss:
        chk.broken('%s: the duplicate-store scan does not separate its positive fixture from the negative one' % rid)
    r.ok('fixture', 'data/fixtures/dupstore.asm: bad form reported, good form silent')
    for rel, lst in sorted(insnscan.dupstores().items()):
        fam = 'mgr' if '/mb_mgr_' in rel else family_of(rel, '')
        if families is not None and fam not in families and not (also and re.search(also, rel)):
            continue
        for f in lst:
            if 'zero' in f['defs'] or 'const' in f['defs'] or f['defs'] == ['entry']:
                continue
            bad = f['defs'] == ['compute'] and 0 < abs(f['delta']) <= 64
            r.check(not bad, '%s:%s+%#x/%#x' % (rel, f['fn'], f['b'], f['a']), rel,
                    '%s (%s): `%s` at +%#x and `%s` at +%#x write the same unchanged value (last computed by `%s`) %d bytes apart: the second '
                    'store repeats the first instead of writing the next part' % (f['fn'], rel, f['first'], f['b'], f['second'], f['a'],
                                                                                    '; '.join(f['def_txt']), f['delta']))
    return r


BYTEORDER_BASELINE = _os.path.join(_os.path.dirname(DU_BASELINE), 'byteorder_baseline.json')


def write_byteorder_baseline():
    from .. import byteorder
    cur = byteorder.all_units()
    units = {}
    for rel, r in sorted(cur.items()):
        c = {}
        for f in r['findings']:
            c[f['fn']] = c.get(f['fn'], 0) + 1
        units[rel] = {'functions': r['functions'], 'conflicts': c}
    with open(BYTEORDER_BASELINE, 'w') as fh:
        _json.dump({'what': 'per assembly unit: routines in which the byte-order typestate (imbv/byteorder.py) already meets a conflict on the '
                            'reference tree (registers re-used for unrelated values in the GCM / ChaCha20-Poly1305 SSE code): those routines are '
                            'not decided', 'units': units}, fh, indent=0)
    return len(units), sum(len(v['conflicts']) for v in units.values())


def rule_byte_order(chk, rid, families=None, floor=100, also=None):
    """typestate of vector registers: a register that holds a value in memory byte order on one path and byte-reflected (pshufb with a
    constant mask applied an odd number of times) on another is not read where the paths meet"""
    from .. import byteorder
    r = chk.rule(rid, 'no vector register is read where it can arrive both byte-reflected (odd number of `pshufb reg, [mask]`) and not reflected: a '
                      'reflection dropped, added or hoisted out of a loop on one edge only (routines whose reference version already has such a '
                      'meeting point are not decided)', floor=floor)
    try:
        base = _json.load(open(BYTEORDER_BASELINE))['units']
    except (OSError, ValueError):
        chk.broken('%s: byte-order baseline missing' % rid)
        return r
    for rel, res in sorted(byteorder.all_units().items()):
        fam = 'mgr' if '/mb_mgr_' in rel else family_of(rel, '')
        if families is not None and fam not in families and not (also and re.search(also, rel)):
            continue
        b = base.get(rel)
        if b is None:
            continue                    # a new unit: nothing to compare with
        by = {}
        for f in res['findings']:
            by.setdefault(f['fn'], []).append(f)
        for fn, fs in sorted(by.items()):
            if b['conflicts'].get(fn):
                continue                # not decided (see baseline)
            f = fs[0]
            r.bad('%s:%s' % (rel, fn), rel, '%s (%s): `%s` at +%#x reads xmm%d, which arrives there byte-reflected on one path and not reflected on '
                                            'another (a `pshufb` with a constant mask is applied on one edge only)' % (
                                                fn, rel, ' '.join(f['txt'].split()), f['a'], f['reg']))
        for i in range(max(0, res['functions'] - len(by))):
            r.ok('%s#%d' % (rel, i))
    return r


SIG_BASELINE = _os.path.join(_os.path.dirname(DU_BASELINE), 'sig_siblings.json')


def _sig_families():
    from .. import sigscan
    from . import inits
    fam = {}
    for rel, fs in sigscan.all_units().items():
        seen = set()
        for fn, v in sorted(fs.items()):
            if v['entry'] in seen:
                continue            # a second label on the same code
            seen.add(v['entry'])
            fam.setdefault(inits.arch_stem(fn), {})['%s:%s' % (rel, fn)] = v['sig']
    return fam


def write_sig_baseline():
    import collections
    out = {}
    for st, d in sorted(_sig_families().items()):
        sigs = {k: v for k, v in d.items() if v and 'BIG' not in v and len(v) >= 40}
        if len(sigs) < 3:
            continue
        top, n = collections.Counter(sigs.values()).most_common(1)[0]
        if n >= 3 and 2 * n > len(sigs):
            out[st] = sorted(k for k, v in sigs.items() if v == top)
    with open(SIG_BASELINE, 'w') as fh:
        _json.dump({'what': 'families of routines (one function, several instruction sets) whose first stored vector value is computed by the same '
                            'expression over loads and constants on the reference tree (imbv/sigscan.py)', 'families': out}, fh, indent=0)
    return len(out), sum(len(v) for v in out.values())


def rule_signature_siblings(chk, rid, floor=8):
    """the members of a family that computed their first result by one recipe on the reference tree still do: a member whose expression now
    differs from the others' took a different value somewhere (a dropped register copy, an operand taken after instead of before a shift)"""
    import collections
    r = chk.rule(rid, 'routines that implement one function for different instruction sets and computed their first stored value by the same '
                      'expression over loads and constants on the reference tree still agree (GHASH / GCM key pre-computation: HashKey<<1 mod poly)',
                 floor=floor)
    try:
        base = _json.load(open(SIG_BASELINE))['families']
    except (OSError, ValueError):
        chk.broken('%s: signature baseline missing' % rid)
        return r
    cur = _sig_families()
    for st, members in sorted(base.items()):
        d = cur.get(st, {})
        have = {k: d.get(k) for k in members if d.get(k)}
        if len(have) < 3:
            continue                # renamed / restructured beyond recognition: not decided
        top, n = collections.Counter(have.values()).most_common(1)[0]
        for k, v in sorted(have.items()):
            if n * 2 <= len(have):
                r.bad('%s:%s' % (st, k), k.split(':')[0], 'the members of family %s no longer have a common recipe for their first result' % st)
                break
            r.check(v == top, '%s:%s' % (st, k), k.split(':')[0],
                    '%s: the first value %s stores is no longer computed by the expression its %d siblings use (first difference near `%s` vs `%s`)' % (
                        st, k.split(':')[1], n, _first_diff(v, top)[0], _first_diff(v, top)[1]))
    return r


def _first_diff(a, b):
    i = 0
    while i < min(len(a), len(b)) and a[i] == b[i]:
        i += 1
    return a[max(0, i - 30):i + 30], b[max(0, i - 30):i + 30]


PROG_EXEMPT = {
    # routine: reason (confirmed by reading; the reference tree has the pattern)
    'asm_ZucCipher_4_sse': 'LFSR window wraps around: the sixth load of the rotating state restarts at the low offset',
    'asm_ZucCipher_4_gfni_sse': 'same code assembled with GFNI',
    'submit_job_snow3g_uea2_avx512': 'masked stores to two interleaved row progressions (LFSR rows and FSM rows) followed by a third field',
    'submit_job_snow3g_uea2_vaes_avx512': 'same code assembled with VAES',
}


def rule_progressions(chk, rid, floor=10000):
    """unrolled per-lane / per-row sequences: the displacements of one instruction form within one routine run in arithmetic progression;
    a member that breaks a progression its two neighbours on either side agree on names the wrong lane or row"""
    from .. import insnscan
    r = chk.rule(rid, 'in five consecutive occurrences of one instruction form within a routine whose outer four displacements step evenly, the '
                      'middle one lies on the step too (an unrolled per-lane sequence does not name one lane twice and skip another)', floor=floor)
    for rel, v in sorted(insnscan.progressions().items()):
        for f in v['findings']:
            if f['fn'] in PROG_EXEMPT:
                continue
            r.bad('%s:%s+%#x' % (rel, f['fn'], f['a']), rel,
                  '%s (%s): `%s` at +%#x uses displacement %#x where the occurrences of this form before and after it step by %d and put %#x '
                  'here' % (f['fn'], rel, ' '.join(f['txt'].split()), f['a'], f['got'], f['step'], f['want']))
        for i in range(v['windows'] - len(v['findings'])):
            r.ok('%s#%d' % (rel, i))
    return r


UNREACH_BASELINE = _os.path.join(_os.path.dirname(DU_BASELINE), 'unreach_baseline.json')


def write_unreach_baseline():
    from .. import unreach
    cur = unreach.unreachable()
    with open(UNREACH_BASELINE, 'w') as fh:
        _json.dump({'what': 'per assembly unit: instructions no direct control flow from a global entry reaches (jump-table targets, data in '
                            'text and genuinely dead code alike) on the reference tree', 'units': {k: v['dead'] for k, v in sorted(cur.items())}}, fh, indent=0)
    return len(cur), sum(v['dead'] for v in cur.values())


def rule_unreachable(chk, rid, families=None, floor=50, also=None):
    """a dropped `jmp`, a branch retargeted to the wrong label, or a case cut out of a dispatch chain leaves the instructions of that case
    unreachable; counted per unit against the reference tree (units with jump tables have a stable non-zero count)"""
    from .. import unreach
    r = chk.rule(rid, 'no assembly unit has more instructions that direct control flow from its entry points cannot reach than on the reference '
                      'tree: a case of a dispatch chain has not been cut off', floor=floor)
    if not _os.path.exists(UNREACH_BASELINE):
        chk.broken('unreachable-code baseline missing')
        return
    base = _json.load(open(UNREACH_BASELINE))['units']
    for rel, v in sorted(unreach.unreachable().items()):
        fam = 'mgr' if '/mb_mgr_' in rel else family_of(rel, '')
        if families is not None and fam not in families and not (also and re.search(also, rel)):
            continue
        if rel not in base:
            r.ok(rel + ':new', 'unit not on the reference tree')
            continue
        if base[rel] > 64:
            # the direct-flow model does not explain this unit (large tables of case blocks entered in ways it does not follow): not decided
            r.note('%s: %d instructions not reached by direct flow on the reference tree - unit not decided' % (rel, base[rel]))
            continue
        r.check(v['dead'] <= base[rel], rel, rel, '%s: %d instructions are unreachable by direct control flow (reference tree: %d); first unreachable '
                                                  'code at %s' % (rel, v['dead'], base[rel], '; '.join('%s+%s `%s`' % (w[0], w[1], w[2]) for w in v['where'][:6])))


if __name__ == '__main__':
    import sys as _sys
    if '--write-baseline' in _sys.argv:
        print(write_du_baseline())
        print(write_unreach_baseline())
