"""Encrypt-then-MAC data source in the AEAD code written in C (ChaCha20-Poly1305 one-shot / SGL / direct API, SM4-GCM, SNOW-V-AEAD):
every one of these constructions authenticates the CIPHERTEXT.  In a function that branches on the direction, everything the
authenticator absorbs in the encrypt arm must come from the output buffer (what the cipher just wrote), in the decrypt arm from the
input buffer; and for in-place operation the cipher call comes before the authenticator in the encrypt arm and after it in the
decrypt arm.  Input and output are told apart by type, not by name: a pointer-to-const parameter or field is the input, a
pointer-to-non-const one the output.  Necessary condition of RFC 8439 / GCM-style tags; decided on the shape of the code."""
import re

from .. import cf, guards

MAC = re.compile(r'poly1305|ghash|gmac', re.I)
COPY = {'memcpy', 'memcpy_asm', 'var_memcpy', 'safe_memcpy', 'memmove'}
ENC = 1         # IMB_DIR_ENCRYPT


def _callee_name(ev):
    e = ev['e']
    if e.get('fn'):
        return e['fn']
    c = e.get('callee')
    if isinstance(c, dict) and c.get('k') == 'mem':
        return c.get('f') or ''
    return ''


def _role(f, e, bid, depth=0):
    """'in' / 'out' / None: which data buffer a pointer expression points into"""
    e = cf.strip_casts(e)
    if not isinstance(e, dict) or depth > 6:
        return None
    k = e.get('k')
    if k == 'bin' and e['op'] in ('+', '-'):
        return _role(f, e['l'], bid, depth + 1) or _role(f, e['r'], bid, depth + 1)
    if k == 'un' and e.get('op') == '&':
        x = cf.strip_casts(e['e'])
        if isinstance(x, dict) and x.get('k') == 'idx':
            return _role(f, x['b'], bid, depth + 1)
        return None
    if k == 'idx':
        return None
    ty = e.get('ty') or ''
    if k == 'ref':
        if e.get('p'):
            if not re.search(r'\*\s*(const)?\s*$', ty) or re.search(r'struct|IMB_MGR|IMB_JOB|_t \*|key|ctx', ty):
                return None
            return 'in' if re.match(r'^const ', ty) else 'out'
        # a local: follow its single definition
        try:
            x = guards.expand(f, e, bid)
        except Exception:
            x = e
        x = cf.strip_casts(x)
        if x is not e and isinstance(x, dict) and not (x.get('k') == 'ref' and x.get('n') == e.get('n')):
            return _role(f, x, bid, depth + 1)
        # several definitions: the one reaching this block — in the block itself, else in its nearest dominator
        dom = f.dominators()
        best = None
        for b2, i2, ev in f.events(('assign',)):
            l = cf.strip_casts(ev['lhs'])
            if isinstance(l, dict) and l.get('k') == 'ref' and l['n'] == e['n'] and (b2 == bid or b2 in dom.get(bid, ())):
                rank = (b2 == bid, len(dom.get(b2, ())), i2)
                if best is None or rank > best[0]:
                    best = (rank, ev, b2)
        if best:
            return _role(f, best[1].get('rhs') or {}, best[2], depth + 1)
        return None
    if k == 'mem' and 'IMB_JOB' in (e.get('rec') or ''):
        if e.get('f') == 'src':
            return 'in'
        if e.get('f') == 'dst':
            return 'out'
    return None


def _is_ctx(e):
    """a pointer into library-owned context/scratch storage (not a data buffer)"""
    for nd in cf.walk(e):
        if nd.get('k') == 'mem' and re.search(r'context|ctx', nd.get('rec') or '', re.I):
            return True
    return False


def direction_arms(f):
    """yield (block, terminator, enc arm first block, dec arm first block) for `if (dir == IMB_DIR_ENCRYPT)`-style tests"""
    for bid, b in f.blocks.items():
        t = b.get('term')
        if not t or t['kind'] != 'IfStmt':
            continue
        su = b['succ']
        if len(su) != 2 or None in su or su[0] == su[1]:
            continue
        e = cf.strip_casts(t.get('fullcond') or t.get('cond') or {})
        if not (isinstance(e, dict) and e.get('k') == 'bin' and e['op'] in ('==', '!=')):
            continue
        v = cf.evalc(e['r'])
        o = cf.strip_casts(e['l'])
        if v is None:
            v = cf.evalc(e['l'])
            o = cf.strip_casts(e['r'])
        if v not in (1, 2) or not isinstance(o, dict) or 'IMB_CIPHER_DIRECTION' not in (o.get('ty') or ''):
            continue
        enc_first = (v == ENC) == (e['op'] == '==')
        yield bid, t, (su[0] if enc_first else su[1]), (su[1] if enc_first else su[0])


def rule_mac_source(chk, P, rid, floor=4):
    r = chk.rule(rid, 'C AEAD code authenticates the ciphertext: in the encrypt arm of a direction test the authenticator (and the scratch block '
                      'kept for it) is fed from the output buffer after the cipher call, in the decrypt arm from the input buffer before it', floor=floor)
    seen = set()
    for tu in P.tus():
        for f in P.funcs(tu):
            if (f.name, f.loc) in seen:
                continue
            seen.add((f.name, f.loc))
            arms = list(direction_arms(f))
            if not arms:
                continue
            dom = f.dominators()
            with guards.in_function(f):
                for bid, t, enc, dec in arms:
                    for arm, want, label in ((enc, 'out', 'encrypt'), (dec, 'in', 'decrypt')):
                        if f.pred[arm] != [bid]:
                            continue
                        region = sorted((x for x in f.blocks if arm in dom.get(x, ())), reverse=True)
                        seq = []        # (kind, event, role) in CFG order of the arm (blocks are numbered against the flow)
                        for x in region:
                            for ev in f.blocks[x]['ev']:
                                if ev['k'] != 'call':
                                    continue
                                name = _callee_name(ev)
                                a = ev['e'].get('a', [])
                                if MAC.search(name):
                                    for arg in a:
                                        ro = _role(f, arg, x)
                                        if ro:
                                            seq.append(('mac', ev, ro, x))
                                elif name in COPY and len(a) >= 3 and _is_ctx(a[0]):
                                    ro = _role(f, a[1], x)
                                    if ro:
                                        seq.append(('mac', ev, ro, x))
                                else:
                                    roles = {_role(f, arg, x) for arg in a}
                                    if {'in', 'out'} <= roles:
                                        seq.append(('cipher', ev, None, x))
                        macs = [s for s in seq if s[0] == 'mac']
                        if not macs:
                            continue
                        for kind, ev, ro, x in macs:
                            key = '%s:%s@%s' % (f.name, label, ev['loc'].split('/')[-1])
                            r.check(ro == want, key, ev['loc'],
                                    '%s, %s arm: %s at %s takes its data from the %s buffer; the tag is defined over the ciphertext, which on %s '
                                    'is the %s buffer' % (f.name, label, _callee_name(ev), ev['loc'], 'input' if ro == 'in' else 'output', label,
                                                          'output' if want == 'out' else 'input'))
                        ciph = [i for i, s in enumerate(seq) if s[0] == 'cipher']
                        mi = [i for i, s in enumerate(seq) if s[0] == 'mac']
                        if ciph and len({s[3] for s in seq}) == 1 or ciph and all(s[3] == seq[0][3] for s in seq):
                            key = '%s:%s:order' % (f.name, label)
                            if label == 'encrypt':
                                r.check(min(ciph) < min(mi), key, seq[min(mi)][1]['loc'],
                                        '%s: the encrypt arm authenticates before the cipher call has produced the ciphertext' % f.name)
                            else:
                                r.check(max(mi) < max(ciph), key, seq[max(ciph)][1]['loc'],
                                        '%s: the decrypt arm runs the cipher before the ciphertext is authenticated (in-place operation '
                                        'would authenticate plaintext)' % f.name)


def rule_consume_and_clear(chk, P, rid, floor=2):
    """a pending-byte count kept in a context record: the block that hands `ctx->F` to a routine as a length and then sets `ctx->F = 0`
    (flush what is pending) is entered on a test of that very field - guarded by anything else, pending bytes are dropped or an empty
    buffer is flushed"""
    r = chk.rule(rid, 'a block that passes a context field to a call as a length and then clears that field is entered on a condition that tests '
                      'the same field (pending bytes are flushed exactly when there are some)', floor=floor)
    seen = set()
    for tu in P.tus():
        for f in P.funcs(tu):
            if (f.name, f.loc) in seen:
                continue
            seen.add((f.name, f.loc))
            for bid, b in f.blocks.items():
                cleared = {}
                passed = set()
                for ev in b['ev']:
                    if ev['k'] == 'call':
                        for a in ev['e'].get('a', []):
                            x = cf.strip_casts(a)
                            if isinstance(x, dict) and x.get('k') == 'mem' and re.search(r'context|ctx', x.get('rec') or '', re.I):
                                passed.add(x['f'])
                    elif ev['k'] == 'assign' and ev.get('op') in (None, '=') and cf.evalc(ev.get('rhs') or {}) == 0:
                        l = cf.strip_casts(ev['lhs'])
                        if isinstance(l, dict) and l.get('k') == 'mem' and re.search(r'context|ctx', l.get('rec') or '', re.I) and l['f'] in passed:
                            cleared[l['f']] = ev
                for fld, ev in cleared.items():
                    preds = f.pred[bid]
                    if len(preds) != 1:
                        continue
                    t = f.blocks[preds[0]].get('term')
                    if not t or t['kind'] != 'IfStmt' or f.blocks[preds[0]]['succ'][0] != bid:
                        continue
                    c = t.get('fullcond') or t.get('cond') or {}
                    tests = any(nd.get('k') == 'mem' and nd.get('f') == fld for nd in cf.walk(c))
                    r.check(tests, '%s:%s@%s' % (f.name, fld, ev['loc'].split('/')[-1]), ev['loc'],
                            '%s hands ctx->%s to a routine and clears it at %s, but the block is entered on `%s`, which does not look at ctx->%s: '
                            'bytes pending from earlier calls are dropped (or an empty buffer is processed)' % (
                                f.name, fld, ev['loc'], cf.render(c)[:80], fld))
    return r
