"""C07 (partial) — writes through a job's tag pointer are bounded by the tag length the caller asked for.

The property proper (no access outside caller buffers for every length and placement) ranges over addresses computed from
run-time lengths inside SIMD loops and is NOT decided.  Decided here is one clause whose truth is visible in the shape of
the code: "the tag buffer of exactly the requested tag length".

W0  accepted tag lengths per hash algorithm: abstract evaluation of every guard of is_job_invalid that mentions
    auth_tag_output_len_in_bytes over the finite domain 0..MAXT for each algorithm constant (tables auth_tag_len_* resolved)
W1  object level: in every assembled routine the hash dispatch reaches for algorithm set A, every store of constant extent
    (displacement + width) through a pointer loaded from job->auth_tag_output is within the smallest tag length that is both
    accepted for A and compatible with the comparisons of job->auth_tag_output_len_in_bytes against constants that hold at
    the store on every path (memory-cell constraint domain of the abstract interpreter)
W3  routines whose vector stores to one destination family are all masked on the reference tree stay so (baseline of semantic
    facts: function, argument the destinations are reached from)
W2  C level: wherever job->auth_tag_output is handed to a callee together with a length parameter, or used as the
    destination of memcpy, the length is that job's auth_tag_output_len_in_bytes
"""
import re
from .. import cf, build, guards, dispatch as D, asmfacts, asmtyped
from . import c06

MAXT = 1024
TAGF = 'auth_tag_output'
LENF = 'auth_tag_output_len_in_bytes'


# ---------------------------------------------------------------------------------------------- W0

def _eval(P, tu, e, env):
    """constant value of e with job-><field> and locals taken from env and const tables resolved"""
    e = cf.strip_casts(e)
    if not isinstance(e, dict):
        return None
    k = e.get('k')
    if k == 'int':
        return e.get('v')
    if k == 'ref':
        if e['n'] in env:
            return env[e['n']]
        if e.get('enum') is not None and isinstance(e.get('v'), int):
            return e['v']
        return cf.evalc(e)
    if k == 'mem':
        return env.get(e['f'])
    if k == 'idx':
        b = cf.strip_casts(e['b'])
        i = _eval(P, tu, e['i'], env)
        if i is None or not isinstance(b, dict) or b.get('k') != 'ref':
            return None
        loc = env.get('#tables', {}).get(b['n'])
        if loc is not None:
            return cf.evalc(loc[i]) if 0 <= i < len(loc) else None
        t = P.table(tu, b['n'], required=False)
        if not t or not (0 <= i < len(t['elems'])):
            return None
        return cf.evalc(t['elems'][i]['e'])
    if k == 'un':
        v = _eval(P, tu, e['e'], env)
        if v is None:
            return None
        return {'!': int(not v), '-': -v, '~': ~v, '+': v}.get(e['op'])
    if k == 'bin':
        op = e['op']
        l = _eval(P, tu, e['l'], env)
        r = _eval(P, tu, e['r'], env)
        if op == '&&':
            if l == 0 or r == 0:
                return 0
            return 1 if (l is not None and r is not None) else None
        if op == '||':
            if (l not in (None, 0)) or (r not in (None, 0)):
                return 1
            return 0 if (l == 0 and r == 0) else None
        if l is None or r is None:
            return None
        try:
            return {'==': lambda: int(l == r), '!=': lambda: int(l != r), '<': lambda: int(l < r), '>': lambda: int(l > r),
                    '<=': lambda: int(l <= r), '>=': lambda: int(l >= r), '+': lambda: l + r, '-': lambda: l - r,
                    '*': lambda: l * r, '&': lambda: l & r, '|': lambda: l | r, '^': lambda: l ^ r, '<<': lambda: l << r,
                    '>>': lambda: l >> r, '/': lambda: l // r if r else None, '%': lambda: l % r if r else None}[op]()
        except KeyError:
            return None
    if k == 'cond':
        c = _eval(P, tu, e['c'], env)
        if c is None:
            return None
        return _eval(P, tu, e['t'] if c else e['f'], env)
    return None


def tag_sets(P, tu):
    """{alg value: frozenset(accepted tag lengths in 0..MAXT)} for algorithms whose tag-length guards are all unconditional and
    evaluable; {alg value: reason} for the others"""
    f = P.func(tu, 'is_job_invalid')
    cat = guards.catalogue(f)
    algs = P.enum_types['IMB_HASH_ALG']
    rej = {}
    und = {}
    # const local tables of the validator (auth_tag_len_ipsec[] / auth_tag_len_fips[])
    ltab = {}
    for _, _, ev in f.events(('decl',)):
        for d in ev['d']:
            i = d.get('init')
            if isinstance(i, dict) and i.get('k') == 'initlist' and d.get('ty', '').startswith('const ') and '[' in d.get('ty', ''):
                ltab[d['n']] = i['a']
    for g in cat:
        if g.get('expr') is None or LENF not in cf.render(g['expr']):
            continue
        vals = None
        for sexpr, vs in g['cases'].items():
            if 'hash_alg' in sexpr:
                vals = [v for v in vs if v != 'default']
        if vals is None:
            continue
        for a in vals:
            if g['ctx']:
                und[a] = 'tag length guard at %s holds only under %s' % (g['loc'], g['ctx'])
                continue
            for t in range(0, MAXT + 1):
                v = _eval(P, tu, g['expr'], {LENF: t, 'hash_alg': a, '#tables': ltab})
                if v is None:
                    und[a] = 'tag length guard at %s cannot be evaluated' % g['loc']
                    break
                if v:
                    rej.setdefault(a, set()).add(t)
    out = {}
    for a in set(algs.values()):
        if a in und:
            out[a] = und[a]
        elif a in rej:
            out[a] = frozenset(set(range(0, MAXT + 1)) - rej[a])
        else:
            out[a] = 'no tag length guard'
    return out


# ---------------------------------------------------------------------------------------------- W1

def hash_routines(P, M):
    """{asm/C function name: set(alg values)} reached from the submit / flush hash dispatch with the algorithm constant"""
    algs = P.enum_types['IMB_HASH_ALG']
    out = {}
    for tu in P.variant_tus():
        for w in ('SUBMIT_JOB_HASH_EX', 'FLUSH_JOB_HASH_EX'):
            fn = c06.resolve(M, tu, w)
            if not P.has(tu, fn):
                continue
            for a in sorted(set(algs.values())):
                for n in c06.cell_names(D.collect_calls(P, tu, fn, {'hash_alg': a})):
                    out.setdefault(n, set()).add(a)
    return out


# routines whose tag stores are justified by an invariant outside the routine (one line of reason each)
W1_EXCEPT = {
    re.compile(r'^(submit|flush)_job_zuc256_eia3_'):
        'ZUC-256 EIA3 jobs are parked in one out-of-order manager per tag size (zuc256_eia3_ooo / _8B_ooo / _16B_ooo, selected from '
        'auth_tag_output_len_in_bytes by SUBMIT/FLUSH_JOB_HASH_EX) and the routine receives that size as its last argument: every job '
        'it completes has the tag size of the code path taken',
}


def _pointee(T, name, v, depth=0):
    """record type a value points to (typed view), or None"""
    if v is None or depth > 2:
        return None
    if v[0] == 'E':
        return T.arg_type(name, v[1]) if v[2] == 0 else None
    if v[0] == 'L':
        bt = None
        b = v[1]
        if b[0] == 'E':
            bt = T.arg_type(name, b[1])
            off = b[2] + (v[2] or 0) if v[2] is not None else None
        else:
            bt = _pointee(T, name, b, depth + 1)
            off = v[2]
        if not bt or off is None:
            return None
        fa = T.field_at(bt, off)
        if not fa or fa[1] != 0:
            return None
        ft = asmtyped.norm_type(fa[3].get('type', ''))
        ft = re.sub(r'\[\d+\]', '', ft)
        if ft.endswith('*') and not ft.endswith('**'):
            return ft[:-1]
    return None


def run_w1(chk, P, tsets, routines):
    r = chk.rule('W1', 'assembly stores of constant extent through job->auth_tag_output stay within the smallest tag length that is '
                       'accepted for the routine\'s algorithms and compatible with the tag-length comparisons dominating the store',
                 floor=150)
    T = asmtyped.Typed(P)
    off_tag = T.offset_of('IMB_JOB', TAGF)
    off_len = T.offset_of('IMB_JOB', LENF)
    if off_tag is None or off_len is None:
        chk.broken('IMB_JOB.%s / %s not found in the record layout' % (TAGF, LENF))
        return
    algn = {}
    for k, v in P.enum_types['IMB_HASH_ALG'].items():
        algn.setdefault(v, k)
    stats = {'routines_with_tag_stores': 0, 'decided': 0, 'masked': 0, 'dynamic': 0, 'undecided_algs': 0, 'not_hash_dispatched': 0}
    for name, res in sorted(T.results.items()):
        tst = []
        for s in res['stores']:
            b = s['base']
            if not b or b[0] != 'L' or b[2] != off_tag or b[3]:
                continue
            if _pointee(T, name, b[1]) != 'IMB_JOB':
                continue
            tst.append(s)
        if not tst:
            continue
        stats['routines_with_tag_stores'] += 1
        exc = next((why for pat, why in W1_EXCEPT.items() if pat.match(name)), None)
        if exc:
            r.ok(name + ':exception', exc)
            stats['excepted'] = stats.get('excepted', 0) + len(tst)
            continue
        algs = routines.get(name)
        if not algs:
            stats['not_hash_dispatched'] += len(tst)
            continue
        acc = set()
        why = None
        for a in algs:
            ts = tsets.get(a)
            if not isinstance(ts, frozenset):
                why = '%s: %s' % (algn.get(a, a), ts)
                break
            acc |= ts
        if why or not acc:
            stats['undecided_algs'] += len(tst)
            continue
        for s in tst:
            if s.get('masked'):
                stats['masked'] += 1
                continue
            if s['disp'] is None or s['indexed']:
                stats['dynamic'] += 1
                continue
            ext = s['disp'] + s['w']
            lo, hi, ex, ones, zeros = (s.get('mc') or {}).get((s['base'][1], off_len), (0, (1 << 64) - 1, frozenset(), 0, 0))
            feas = sorted(t for t in acc if lo <= t <= hi and t not in ex and (t & ones) == ones and not (t & zeros))
            key = '%s@%#x' % (name, s['a'] - res['entry'])
            loc = res['lines'].get(s['a'], T.rel[name])
            stats['decided'] += 1
            if not feas:
                r.ok(key, 'no accepted tag length reaches this store')
                continue
            r.check(ext <= feas[0], key, loc,
                    '%s writes bytes [%d, %d) of the tag buffer where the tag length can be %d (accepted for %s: %s; constraint at the '
                    'store: %s)' % (name, s['disp'], ext, feas[0], '/'.join(sorted(algn.get(a, str(a)) for a in algs)),
                                    _fmt(acc), _fmtc(lo, hi, ex, ones, zeros)),
                    detail={'extent': ext, 'min_tag': feas[0]})
    chk.extra['w1'] = stats


def _fmt(acc):
    a = sorted(acc)
    if len(a) > 6 and a == list(range(a[0], a[-1] + 1)):
        return '%d..%d' % (a[0], a[-1])
    return ','.join(map(str, a[:12]))


def _fmtc(lo, hi, ex, ones=0, zeros=0):
    s = []
    if ones:
        s.append('bits %#x set' % ones)
    if zeros:
        s.append('bits %#x clear' % zeros)
    if lo > 0:
        s.append('>= %d' % lo)
    if hi < (1 << 63):
        s.append('<= %d' % hi)
    for x in sorted(ex):
        s.append('!= %d' % x)
    return ' and '.join(s) or 'none'


# ---------------------------------------------------------------------------------------------- W2

def _is_tag_ptr(e):
    e = cf.strip_casts(e)
    return isinstance(e, dict) and e.get('k') == 'mem' and e.get('f') == TAGF and e.get('rec') == 'IMB_JOB'


def _is_tag_len(e, base):
    e = cf.strip_casts(e)
    return isinstance(e, dict) and e.get('k') == 'mem' and e.get('f') == LENF and cf.render(cf.strip_casts(e['b'])) == base


LEN_PARAM = re.compile(r'(tag|digest|auth|mac).*(len|size)|^(len|size)$|(len|size).*(tag|digest|auth|mac)', re.I)


def run_w2(chk, P):
    r = chk.rule('W2', 'C code hands job->auth_tag_output to a callee only together with that job\'s auth_tag_output_len_in_bytes '
                       '(where the callee takes a tag length), and copies into it with that length', floor=150)
    seen = set()
    nolen = 0
    for tu in P.tus():
        decl = {d['name']: d for d in P.facts[tu]['decls']}
        for f in P.funcs(tu):
            for bid, i, ev in f.events(('call',)):
                e = ev['e']
                args = e.get('a', [])
                for ai, a in enumerate(args):
                    if not _is_tag_ptr(a):
                        continue
                    base = cf.render(cf.strip_casts(cf.strip_casts(a)['b']))
                    fn = e.get('fn') or ev.get('macro') or cf.render(e.get('callee'))
                    loc = ev.get('sloc') or ev['loc']
                    key = '%s:%s:%s@%s' % (tu.split('__')[0], f.name, fn, loc.split(':')[-1])
                    k2 = (f.name, fn, loc)
                    if fn in ('memcpy', 'memmove', '__builtin_memcpy', 'safe_memcpy'):
                        if ai != 0:
                            continue
                        ok = len(args) >= 3 and _is_tag_len(args[2], base)
                        if k2 not in seen:
                            seen.add(k2)
                        r.check(ok, key, loc, '%s copies %s bytes into %s->auth_tag_output' % (
                            f.name, cf.render(args[2]) if len(args) >= 3 else '?', base))
                        continue
                    # callee with a length parameter right after the tag pointer (by prototype name) or any later argument that is a tag length
                    d = decl.get(e.get('fn') or '')
                    params = d['params'] if d else None
                    lenidx = None
                    if params:
                        for pi in range(ai + 1, min(len(params), ai + 3)):
                            if LEN_PARAM.search(params[pi].get('name') or '') and '*' not in params[pi].get('type', ''):
                                lenidx = pi
                                break
                    if lenidx is None and ai + 1 < len(args) and any(_is_tag_len(x, base) for x in args[ai + 1:ai + 2]):
                        lenidx = ai + 1
                    if lenidx is None or lenidx >= len(args):
                        nolen += 1
                        continue
                    r.check(_is_tag_len(args[lenidx], base), key, loc,
                            '%s passes %s->auth_tag_output to %s with tag length `%s` instead of %s->auth_tag_output_len_in_bytes' % (
                                f.name, base, fn, cf.render(args[lenidx]), base))
    chk.extra['w2_tag_pointer_passed_without_length'] = nolen


# ---------------------------------------------------------------------------------------------- W3

import json as _json, os as _os
MASK_BASELINE = _os.path.join(_os.path.dirname(_os.path.dirname(_os.path.abspath(__file__))), 'data', 'masked_store_baseline.json')


def masked_groups():
    """{function: {pointer source: (masked vector stores, unmasked vector stores)}} — stores grouped by the argument register the
    destination pointer comes from (directly, or loaded from the array / structure it points to)"""
    out = {}
    for rel, name, r in asmfacts.all_functions():
        g = {}
        for s in r['stores']:
            b = s['base']
            if not b or s['w'] < 16:
                continue
            if b[0] == 'L':
                root = b
                while root[0] == 'L':
                    root = root[1]
                if root[0] != 'E':
                    continue
                key = 'via:' + root[1]
            elif b[0] == 'E':
                key = 'arg:' + b[1]
            else:
                continue
            m, u = g.get(key, (0, 0))
            g[key] = (m + 1, u) if s.get('masked') else (m, u + 1)
        if g:
            out[name] = g
    return out


def run_w3(chk):
    r = chk.rule('W3', 'a routine that writes one destination family (the buffers reached from one argument) only through masked vector '
                       'stores on the reference tree still does: an unmasked vector store there writes a full vector into a shorter buffer',
                 floor=30)
    if not _os.path.exists(MASK_BASELINE):
        chk.broken('masked-store baseline missing')
        return
    base = _json.load(open(MASK_BASELINE))['all_masked']
    cur = masked_groups()
    lines = {name: res['lines'] for _, name, res in asmfacts.all_functions()}
    stores = {name: res['stores'] for _, name, res in asmfacts.all_functions()}
    for name, keys in sorted(base.items()):
        if name not in cur and name not in lines:
            continue   # the routine no longer exists: binding rules report that
        for key in keys:
            m, u = cur.get(name, {}).get(key, (0, 0))
            if u == 0:
                r.ok('%s:%s' % (name, key), {'masked': m})
                continue
            # name the offending stores
            for s in stores.get(name, []):
                b = s['base']
                if not b or s['w'] < 16 or s.get('masked'):
                    continue
                root = b
                while root[0] == 'L':
                    root = root[1]
                k2 = ('via:' if b[0] == 'L' else 'arg:') + (root[1] if root[0] == 'E' else '?')
                if k2 == key:
                    r.bad('%s:%s@%#x' % (name, key, s['a']), lines[name].get(s['a'], name),
                          '%s: unmasked %d-byte vector store to a destination reached from %s; every other store of this family is masked '
                          '(%d of them): the full vector is written whatever the length' % (name, s['w'], key.split(':')[1], m))


def write_mask_baseline():
    cur = masked_groups()
    allm = {n: sorted(k for k, (m, u) in g.items() if m >= 2 and u == 0) for n, g in cur.items()}
    allm = {n: v for n, v in allm.items() if v}
    with open(MASK_BASELINE, 'w') as f:
        _json.dump({'note': 'routines whose vector stores to one destination family are all masked on the reference tree; '
                            'python3 -m imbv.rules.c07 --write-baseline', 'all_masked': allm}, f, indent=0, sort_keys=True)
    return sum(len(v) for v in allm.values())


def run_w7(chk):
    """a length that a `cmp len, K; jb/jbe L` has just bounded has a constant above the bound subtracted from it at L: the unsigned remainder
    wraps, and the partial load / store sized by it covers far more than is left (decides K20)"""
    from .. import insnscan
    r = chk.rule('W7', 'at a label reached only by `cmp r, K; jb/jbe` no `sub r, C` with C above the bound follows while r is unchanged: the '
                       'remaining length cannot wrap below zero', floor=500)
    for rel, v in sorted(insnscan.len_underflows().items()):
        for f in v['findings']:
            r.bad('%s:%s+%#x' % (rel, f['fn'], f['a']), rel,
                  '%s (%s): after `%s` the register is at most %d, yet `%s` at +%#x subtracts %d: the remaining length wraps to a huge value and '
                  'the partial load / store sized by it reads or writes beyond the buffer' % (
                      f['fn'], rel, ' '.join(f['cmp'].split()), f['bound'], ' '.join(f['txt'].split()), f['a'], f['sub']))
        for i in range(v['sites'] - len(v['findings'])):
            r.ok('%s#%d' % (rel, i))
    return r


def run(chk):
    P = cf.Program()
    M = build.macros()
    chk.explanation = ('PARTIAL. The property proper — no read or write outside the caller-supplied objects for every length and placement, '
                       'source intact, in-place equals out-of-place — quantifies over addresses computed from run-time lengths inside '
                       'hand-written SIMD loops and is NOT decided. Decided is the clause "the tag buffer of exactly the requested tag '
                       'length" where it is visible in code shape: (W0) the accepted tag lengths per hash algorithm, by abstract '
                       'evaluation of the validation guards over a finite domain; (W1) every assembled routine the hash dispatch '
                       'reaches: each store of constant extent through a pointer loaded from job->auth_tag_output lies within the '
                       'smallest accepted tag length compatible with the comparisons of the tag-length field that hold at the store on '
                       'every path (abstract interpretation with a memory-cell constraint domain); (W2) C call sites that hand the tag '
                       'pointer on pass that job\'s tag length. Masked, byte-granular and run-time-indexed tag stores, all message '
                       'loads/stores and all over-reads are out of reach.')
    w0 = chk.rule('W0', 'every variant validates the tag length of each hash algorithm with unconditional, evaluable guards; all variants '
                        'accept the same set', floor=300)
    algn = {}
    for k, v in P.enum_types['IMB_HASH_ALG'].items():
        algn.setdefault(v, k)
    ref = None
    union = {}
    for tu in P.variant_tus():
        vt = tu.split('__')[0]
        ts = tag_sets(P, tu)
        if ref is None:
            ref = ts
        for a, s in sorted(ts.items()):
            if algn.get(a) in ('IMB_AUTH_NUM',) or a == 0:
                continue
            key = '%s:%s' % (vt, algn.get(a, a))
            if isinstance(s, frozenset):
                w0.check(ref.get(a) == s, key, tu, '%s accepts tag lengths %s for %s, the first variant %s' % (
                    vt, _fmt(s), algn.get(a, a), _fmt(ref[a]) if isinstance(ref.get(a), frozenset) else ref.get(a)), detail=_fmt(s))
                union[a] = (union[a] | s) if isinstance(union.get(a), frozenset) else (s if a not in union else union[a])
            else:
                w0.ok(key + ':undecided', s)
                union[a] = s
    chk.extra['accepted_tag_lengths'] = {algn.get(a, str(a)): (_fmt(s) if isinstance(s, frozenset) else 'undecided: %s' % s)
                                         for a, s in sorted(union.items())}
    routines = hash_routines(P, M)
    run_w1(chk, P, union, routines)
    run_w2(chk, P)
    run_w3(chk)
    # in-place = out-of-place, C AEAD clause: the authenticator is fed from the buffer that holds the ciphertext in either layout
    from . import aead
    aead.rule_mac_source(chk, P, 'A1', floor=16)
    from . import srcdst
    srcdst.rule_out_reads(chk, P, 'O1', floor=150)
    # the digest buffer of exactly the digest length: word counts of the C digest writers
    from . import padding
    padding.rule_digest_words(chk, P, 'P5')
    run_w4(chk)
    run_w7(chk)


if __name__ == '__main__':
    import sys as _sys
    if '--write-baseline' in _sys.argv:
        print(write_mask_baseline())



def run_w4(chk):
    """W4: `cmp len, T; jb small; ...; add p, len; vmovdqu x, [p - K + ..]` copies the last K bytes of a message of length len: the guard must
    ensure len >= K, or the copy starts before the caller's buffer (the bytes land in an unused part of the staging block, so no test sees it)"""
    from .. import insnscan
    r = chk.rule('W4', 'a copy of the last K bytes of a message (pointer advanced by the length, loads at negative offsets) is guarded by a length '
                       'threshold of at least K: it never starts before the caller\'s buffer', floor=10)
    for rel, lst in sorted(insnscan.tail_reads().items()):
        for x in lst:
            if x['T'] is None:
                r.note('%s %s+%#x: no threshold found for the tail copy of %d bytes' % (rel, x['fn'], x['a'], x['K']))
                continue
            r.check(x['K'] <= x['T'], '%s:%s+%#x' % (rel, x['fn'], x['a']), rel,
                    '%s (%s): the last %d bytes of the message are read (offsets down to -%d from the end) for every length >= %d: for lengths '
                    '%d..%d the read starts before the caller\'s buffer' % (x['fn'], rel, x['K'], x['K'], x['T'], x['T'], x['K'] - 1))
