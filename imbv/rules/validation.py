"""Where validation happens: direct calls of the validators and calls of *validation wrappers* — functions that only validate
(call a validator for the jobs of their array, store nothing but a job status, call nothing that processes data) and return a
constant telling whether a job was rejected.  A burst helper that factors its per-job validation loop out into such a wrapper
validates exactly as before; the rules that anchor on "the call of is_job_invalid" follow the wrapper."""
from .. import cf

VALIDATORS = ('is_job_invalid', 'is_job_invalid_light')
NONPROC = {'ADV_JOBS', 'ADV_N_JOBS', 'JOBS', 'imb_set_errno', 'is_job_invalid', 'is_job_invalid_light', 'set_cipher_suite_id',
           'calc_cipher_tab_index', 'queue_sz', 'queue_sz_remaining', 'get_queue_sz_end', '__builtin_bswap64'}

_memo = {}


def _cond_call(t):
    """(call expr, negated) when the terminator condition is `f(...)` or `!f(...)`"""
    c = cf.strip_casts(t.get('cond'))
    # `if (a && f(x))`: the block holding the IfStmt terminator evaluates the last operand only (the earlier operands have
    # their own blocks with the logical operator as terminator)
    while isinstance(c, dict) and c.get('k') == 'bin' and c['op'] in ('&&', '||'):
        c = cf.strip_casts(c['r'])
    if not isinstance(c, dict):
        return None, False
    if c.get('k') == 'call':
        return c, False
    if c.get('k') == 'un' and c['op'] == '!':
        e = cf.strip_casts(c['e'])
        if isinstance(e, dict) and e.get('k') == 'call':
            return e, True
    return None, False


def wrapper_info(P, tu, name, depth=0):
    """None, or dict(func, call = the validator call expression inside, fail_ret = constant returned after a rejection)"""
    key = (id(P), tu, name)
    if key in _memo:
        return _memo[key]
    _memo[key] = None
    if name in VALIDATORS or not P.has(tu, name) or depth > 2:
        return None
    f = P.func(tu, name)
    sites = sites_of(P, tu, f, depth + 1)
    if not sites:
        return None
    # nothing but validation: every call is a validator, another wrapper or bookkeeping; every store goes to a local or a job status
    for _, _, ev in f.events(('call', 'assign')):
        if ev['k'] == 'call':
            fn = ev['e'].get('fn')
            if fn in NONPROC or (fn or '').startswith('__builtin'):
                continue
            if fn and wrapper_info(P, tu, fn, depth + 1):
                continue
            return None
        l = cf.strip_casts(ev['lhs'])
        if not ((l.get('k') == 'mem' and l.get('f') == 'status') or (l.get('k') == 'ref' and not l.get('g') and not l.get('p'))):
            return None
    rets = [cf.evalc(ev.get('val')) for _, _, ev in f.events(('return',))]
    if not rets or any(v is None for v in rets):
        return None
    # value returned on the rejecting edge of the (first) site
    tb, fail, ok, call, _ = sites[0]
    fr = None
    seen = set()
    st = [fail]
    while st:
        b = st.pop()
        if b in seen or b is None:
            continue
        seen.add(b)
        rv = [cf.evalc(ev.get('val')) for ev in f.blocks[b]['ev'] if ev['k'] == 'return']
        if rv:
            fr = rv[0]
            break
        st.extend(f.succ(b))
    if fr is None or all(v == fr for v in rets):
        return None
    res = {'func': f, 'call': call, 'fail_ret': fr}
    _memo[key] = res
    return res


def sites_of(P, tu, f, depth=0):
    """[(test block, failing successor, passing successor, validator call expression with the arguments expressed in terms of
    f's own variables, wrapper Func or None)] for `if (is_job_invalid(...))` and `if (<validation wrapper>(...))`"""
    out = []
    for bid, b in f.blocks.items():
        t = b.get('term')
        if not t or len(b['succ']) != 2 or t['kind'] not in ('IfStmt', 'BinaryOperator', 'ConditionalOperator', 'WhileStmt', 'ForStmt', 'DoStmt'):
            continue
        call, neg = _cond_call(t)
        if call is None or not call.get('fn'):
            continue
        tsucc, fsucc = b['succ'][0], b['succ'][1]
        if call['fn'] in VALIDATORS:
            out.append((bid, fsucc if neg else tsucc, tsucc if neg else fsucc, call, None))
            continue
        w = wrapper_info(P, tu, call['fn'], depth) if depth <= 2 else None
        if w is None:
            continue
        # arguments of the inner validator call in terms of the caller's expressions
        wf = w['func']
        env = {p['name']: (call['a'][i] if i < len(call.get('a', [])) else None) for i, p in enumerate(wf.params)}
        inner = dict(w['call'])
        inner['a'] = [cf.subst(a, {k: v for k, v in env.items() if v is not None}) for a in w['call'].get('a', [])]
        rejects_when_true = bool(w['fail_ret'])
        fail_is_true = rejects_when_true != neg
        out.append((bid, tsucc if fail_is_true else fsucc, fsucc if fail_is_true else tsucc, inner, wf))
    return out


def validator_calls(P, tu, f):
    """validator call expressions (direct or through wrappers) of f, arguments in f's own terms"""
    direct = [ev['e'] for _, _, ev in f.events(('call',)) if ev['e'].get('fn') in VALIDATORS]
    if direct:
        return direct
    return [s[3] for s in sites_of(P, tu, f)]
