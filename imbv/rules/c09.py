"""C09 — every API entry point yields the same result for the same work item (shared dispatch / validation / kernels).
E1 synchronous burst helpers reach the same kernels as the job-API cell of the (mode, key size, direction) they validate
E2 asynchronous burst reads the same tables, and rejects a job whose suite id differs from the recomputed one
E3 burst entry points hand back only COMPLETED jobs   E4 all handler slots bound in every variant (= C08-R2)"""
import re
from .. import cf, build, guards, dispatch as D
from . import inits, c06, c05, validation
from .c14 import handler_assignments


def run(chk):
    P = cf.Program()
    M = build.macros()
    chk.explanation = ('The entry points share one dispatch, one validation and one set of kernels: for every synchronous cipher / hash / '
                       'AEAD burst helper of every variant, the (mode, hash, direction) constants it validates with are the ones that '
                       'select its kernels, the kernels reached for each key size carry that key size and family and are the kernels the '
                       'job-API table cell of the same (mode, key, direction) reaches; the asynchronous burst API indexes the same tables '
                       'with the stored suite id and rejects a stale suite id; burst calls return only COMPLETED jobs; every variant binds '
                       'every entry point. NOT decided: equality of outputs between the job-API kernels and the different symbols behind '
                       'the direct API (value-level).')
    e1 = chk.rule('E1', 'each synchronous burst helper reaches, per key size, kernels of the mode/key/direction it validates, and only '
                        'kernels the job API reaches for the same cell', floor=150)
    e3 = chk.rule('E3', 'synchronous burst helpers mark every job a kernel returns as COMPLETED; asynchronous ones return only jobs '
                        'that passed the COMPLETED test', floor=100)
    modes = P.enum_types['IMB_CIPHER_MODE']
    inv_modes = {}
    for k, v in modes.items():
        inv_modes.setdefault(v, k)
    COMPLETED = P.enum('IMB_STATUS_COMPLETED')
    nvar = 0
    for tu in P.variant_tus():
        vt = tu.split('__')[0]
        acc, cond = c06.accepted_keys(P, tu, 'is_job_invalid', modes)
        nvar += 1
        for f in P.funcs(tu):
            if 'burst' not in f.name or f.param_index('run_check') is None:
                continue
            vcalls = [c for c in validation.validator_calls(P, tu, f) if c.get('fn') == 'is_job_invalid']
            if not vcalls:
                continue
            a = vcalls[0]['a']
            mode = cf.evalc(a[2])
            dirn = cf.evalc(a[4])
            keyarg = cf.strip_casts(a[5])
            if mode is None:
                continue  # generic helper (hash burst takes the algorithm as a parameter): covered by the hash-cell rule below
            mname = inv_modes.get(mode)
            ksz_param = keyarg.get('n') if keyarg.get('k') == 'ref' else None
            dtag = {P.enum('IMB_DIR_ENCRYPT'): 'enc', P.enum('IMB_DIR_DECRYPT'): 'dec'}.get(dirn)
            if mname == 'IMB_CIPHER_NULL':
                continue
            keys = acc.get(mode) or [None]
            for K in sorted(k for k in keys if k is not None) or [None]:
                env = {'run_check': 0}
                if ksz_param and K is not None:
                    env[ksz_param] = K
                calls = D.collect_calls(P, tu, f.name, env)
                names = c06.cell_names(calls) - {f.name}
                key = '%s:%s:K%s' % (vt, f.name, K)
                bad = []
                fam, _ = D.enum_family(mname)
                toks = set()
                for n in names:
                    toks |= D.family_tokens(n)
                if fam - toks:
                    bad.append('no kernel of family %s reached (%s)' % (sorted(fam - toks), sorted(names)[:5]))
                allowed = fam | set(c06.EXTRA.get(mname, {}))
                if toks - allowed:
                    bad.append('reaches kernels of family %s' % sorted(toks - allowed))
                for n in sorted(names):
                    dn = D.dims(n)
                    if K is not None and dn['key'] and D.KEYBITS[K] not in dn['key']:
                        bad.append('%s is a %s-bit kernel for a %d-byte key' % (n, '/'.join(sorted(dn['key'])), K))
                    if dtag and dn['dir'] and dn['dir'] != {dtag} and dn['dir'] != {'enc', 'dec'}:
                        bad.append('%s has direction %s in a %s helper' % (n, sorted(dn['dir']), dtag))
                # same kernels as the job API cell
                if dtag and K is not None:
                    jn = set()
                    for op in ('SUBMIT', 'FLUSH'):
                        w = M[tu].get('%s_JOB_CIPHER_%s' % (op, dtag.upper()))
                        if w and P.has(tu, w):
                            jn |= c06.cell_names(D.collect_calls(P, tu, w, {'cipher_mode': mode, 'key_sz': K}))
                    extern = {n for n in names if not P.has(tu, n) and n == n.lower()}
                    jext = {n for n in jn if n == n.lower()}
                    if extern - jext:
                        bad.append('kernels %s are not what the job API runs for (%s, %d, %s): %s' % (sorted(extern - jext), mname, K, dtag, sorted(jext)[:6]))
                e1.check(not bad, key, f.loc, '%s validating (%s, %s): %s' % (f.name, mname, dtag, '; '.join(bad[:3])),
                         detail={'kernels': sorted(names)[:6]})
            # E3: every completed_jobs++ is paired with status = COMPLETED in the same block
            for b, blk in f.blocks.items():
                incs = [ev for ev in blk['ev'] if ev['k'] == 'assign' and ev['op'] == '++' and 'completed' in (cf.strip_casts(ev['lhs']).get('n') or '')]
                if not incs:
                    continue
                sets_ = [ev for ev in blk['ev'] if ev['k'] == 'assign' and ev['op'] == '=' and cf.strip_casts(ev['lhs']).get('f') == 'status' and cf.evalc(ev.get('rhs')) == COMPLETED]
                if not sets_:
                    # or: a later loop over all jobs (i < n_jobs) post-dominating this block marks every job COMPLETED
                    pd = f.postdominators()
                    for h, hb in f.blocks.items():
                        t = hb.get('term')
                        if not t or t['kind'] != 'ForStmt' or h not in pd.get(b, ()):
                            continue
                        mm = re.match(r'^\w+ < (\w+)$', guards.canon(t.get('fullcond')) or '')
                        if not mm or mm.group(1) not in {p_['name'] for p_ in f.params}:
                            continue
                        x = hb['succ'][0]
                        seenb = set()
                        while x is not None and x != h and x not in seenb:
                            seenb.add(x)
                            if any(ev['k'] == 'assign' and ev['op'] == '=' and cf.strip_casts(ev['lhs']).get('f') == 'status' and
                                   cf.evalc(ev.get('rhs')) == COMPLETED for ev in f.blocks[x]['ev']):
                                sets_ = [True]
                                break
                            su = f.succ(x)
                            x = su[0] if len(su) == 1 else None
                e3.check(len(sets_) >= 1, '%s:%s:b%d' % (vt, f.name, b), incs[0]['loc'],
                         '%s counts a job as completed without setting IMB_STATUS_COMPLETED' % f.name)
        # async burst: shared rule with C05
        ha = handler_assignments(P, tu)
        roles = {k: v[0] for k, v in ha.items() if k in c05.ROLE_FIELDS}
        chk.rule_q2b = e3
        c05.run_burst(chk, P, tu, roles, COMPLETED)
    if nvar < 8:
        chk.broken('only %d variant TUs' % nvar)
    # E2: suite id guard present in submit_burst_and_check (every variant)
    e2 = chk.rule('E2', 'asynchronous burst submit rejects a job whose stored suite id differs from the recomputed one', floor=8)
    for tu in P.variant_tus():
        vt = tu.split('__')[0]
        if not P.has(tu, 'submit_burst_and_check'):
            e2.bad(vt, tu, 'submit_burst_and_check missing')
            continue
        g = P.func(tu, 'submit_burst_and_check')
        cat = guards.catalogue(g)
        ok = False
        # either id alone must lead to the rejection: one guard normal form mentions suite_id[0] without suite_id[1], another the reverse
        only0 = only1 = False
        for gd in cat:
            if gd['err'] == 'IMB_ERR_BURST_SUITE_ID':
                for nf in guards.normal_forms(gd):
                    txt = ' '.join(nf)
                    h0, h1 = 'suite_id[0]' in txt, 'suite_id[1]' in txt
                    only0 = only0 or (h0 and not h1)
                    only1 = only1 or (h1 and not h0)
        ok = only0 and only1
        # the goto form is not a guard block (no return): look for the errno call under the suite-id comparison
        if not ok:
            # the array the recomputed id is written to: second argument of set_cipher_suite_id(job, id)
            ids = set()
            for _, _, ev in g.calls('set_cipher_suite_id'):
                if len(ev['e'].get('a', [])) > 1:
                    ids.add(guards.lv(ev['e']['a'][1]))
            with guards.in_function(g):
                for b, blk in g.blocks.items():
                    for ev in blk['ev']:
                        if ev['k'] == 'call' and ev['e'].get('fn') == 'imb_set_errno' and cf.evalc(ev['e']['a'][1]) == P.enum('IMB_ERR_BURST_SUITE_ID'):
                            for p in g.pred[b]:
                                t = g.blocks[p].get('term') or {}
                                c = guards.canon(t.get('fullcond')) if t.get('fullcond') else ''
                                for idn in ids:
                                    m0 = re.search(r'(\S+)->suite_id\[0\] != %s\[0\]|%s\[0\] != (\S+)->suite_id\[0\]' % (re.escape(idn), re.escape(idn)), c)
                                    m1 = re.search(r'(\S+)->suite_id\[1\] != %s\[1\]|%s\[1\] != (\S+)->suite_id\[1\]' % (re.escape(idn), re.escape(idn)), c)
                                    if m0 and m1 and ' || ' in c:
                                        ok = True
        e2.check(ok, vt, g.loc, 'submit_burst_and_check no longer rejects a job whose suite_id differs from set_cipher_suite_id(job)')
    inits.rule_handlers(chk, P, 'E4', 'E4b', 'E4c')
    # hash cells / cipher cells are shared with the job API by construction of T1 (C06); direct-API handler bindings:
    inits.rule_bindings(chk, P, 'E5', floor=900)
    # E6: the N-buffer direct calls sort their packets before handing them to the same kernels the 1-buffer calls use
    from . import swaps
    swaps.rule_swaps(chk, P, 'E6', floor=8)


_run_inner = run


def run(chk):
    _run_inner(chk)
    from . import padding
    padding.rule_sha_padding(chk, cf.PROGRAM[0] or cf.Program())
    from . import aead
    aead.rule_mac_source(chk, cf.PROGRAM[0] or cf.Program(), 'A1', floor=16)
    from . import srcdst
    srcdst.rule_src_offset(chk, cf.PROGRAM[0] or cf.Program(), 'O2', floor=60)
    srcdst.rule_out_reads(chk, cf.PROGRAM[0] or cf.Program(), 'O1', floor=150)
    from . import twins
    twins.rule_field_copies(chk, cf.PROGRAM[0] or cf.Program(), 'X4', floor=40)
    twins.rule_lane_suffix(chk, cf.PROGRAM[0] or cf.Program(), 'X7', floor=60)
    from . import c06 as _c06
    _c06.run_t7(chk, cf.PROGRAM[0] or cf.Program())
    from . import clones as _cl
    _cl.rule_unreachable(chk, 'U1', None, floor=200)
