"""C15 — re-initialising a manager restores the pristine empty state.
I1 reset coverage  I2 type agreement  I3 lane counts  I4 whole-struct clear  I5 ring + handlers re-established"""
import re
from .. import cf
from . import inits


def run(chk):
    P = cf.Program()
    chk.explanation = ('For every variant: each out-of-order manager that the variant\'s dispatch can park jobs in is reset by its '
                       'reset_ooo_mgrs; the reset function, the allocation table and the kernels agree on the manager type; the lane '
                       'count passed is one the reset function handles; every reset function first clears the whole manager up to '
                       'road_block; init with reset re-establishes the ring (next_job = 0, earliest_job = -1) and binds every handler '
                       'slot, so a manager re-initialised to another variant behaves as that variant. Not decided: hidden state '
                       'outside the manager block (covered by the C17 inventory).')
    inits.rule_reset(chk, P, 'I')
    inits.rule_handlers(chk, P, 'I5a', 'I5b', 'I5c')
    # a manager re-initialised to another variant records that variant: architecture and type number are what later calls dispatch on
    i8 = chk.rule('I8', 'each variant init records its own architecture and type number (used_arch / used_arch_type)', floor=9)
    for tu in P.variant_tus():
        m = inits.VARIANT_RE.match(tu)
        if not m:
            continue
        f = inits.init_func(P, tu)
        want = {'used_arch': P.enum('IMB_ARCH_' + m.group(1).upper()), 'used_arch_type': int(m.group(2))}
        for b, i, ev in f.events(('assign',)):
            l = cf.strip_casts(ev['lhs'])
            if l.get('k') == 'mem' and l['f'] in want:
                i8.check(cf.evalc(ev.get('rhs') or {}) == want[l['f']], '%s:%s' % (tu.split('__')[0], l['f']), ev['loc'],
                         '%s records %s = %s in variant %s_t%s' % (f.name, l['f'], cf.render(ev.get('rhs')) if ev.get('rhs') else '?', m.group(1), m.group(2)))
    # the ring itself is not cleared by init: whoever fills a slot inside the library (the init-time self-tests) must define every field
    # group it uses, or the previous job of the slot decides what the new manager does
    from . import c20
    c20.rule_job_setup(chk, P, 'I6', floor=20)
    # the per-architecture init functions agree (error-code reset, feature detection, dispatch to the type inits)
    from . import twins
    twins.rule_arch_siblings(chk, P, 'X6', floor=60)
    # I7: initialisation starts from a clean error status (the caller of the type init skips the self-test when an error is recorded)
    i7 = chk.rule('I7', 'every architecture init (the function that detects the CPU features) resets the manager error code before it '
                        'dispatches to a type-specific init: a stale error from before re-initialisation must not survive it', floor=3)
    seen = set()
    for tu in P.tus():
        for f in P.funcs(tu):
            if (f.name, f.loc) in seen or not any(ev['e'].get('fn') == 'cpu_feature_detect' for _, _, ev in f.calls()):
                continue
            seen.add((f.name, f.loc))
            if not any(p.get('type', '').startswith('IMB_MGR') for p in (f.raw.get('params') or [])):
                continue

            def is_reset(ev):
                return ev['k'] == 'call' and ev['e'].get('fn') == 'imb_set_errno' and len(ev['e'].get('a', [])) == 2 and \
                    cf.evalc(ev['e']['a'][1]) == 0 and cf.evalc(ev['e']['a'][0]) is None

            def is_type_init(ev):
                return ev['k'] == 'call' and re.match(r'^init_mb_mgr_\w+_internal$', ev['e'].get('fn') or '') is not None
            # no path reaches the dispatch to a type-specific init without the reset (paths that fail earlier return with their error)
            ok = True
            seenb, st = set(), [f.entry]
            while st and ok:
                b = st.pop()
                if b in seenb or b is None:
                    continue
                seenb.add(b)
                hit = False
                for ev in f.blocks[b]['ev']:
                    if is_reset(ev):
                        hit = True
                        break
                    if is_type_init(ev):
                        ok = False
                        break
                if not hit and ok:
                    st.extend(s_ for s_, _ in f.edges(b, None))
            i7.check(ok, f.name, f.loc, '%s reaches a type-specific init without having reset the manager error code: the code of an earlier '
                                        'failure survives re-initialisation (and the self-test is skipped)' % f.name)
