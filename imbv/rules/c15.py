"""C15 — re-initialising a manager restores the pristine empty state.
I1 reset coverage  I2 type agreement  I3 lane counts  I4 whole-struct clear  I5 ring + handlers re-established"""
from .. import cf
from . import inits


def run(chk):
    P = cf.Program()
    chk.explanation = ('For every variant: each out-of-order manager that the variant\'s dispatch can park jobs in is reset by its '
                       'reset_ooo_mgrs; the reset function, the allocation table and the kernels agree on the manager type; the lane '
                       'count passed is one the reset function handles; every reset function first clears the whole manager up to '
                       'road_block; init with reset re-establishes the ring (next_job = 0, earliest_job = -1) and binds every handler '
                       'slot, so a manager re-initialised to another variant behaves as that variant. Not decided: hidden state '
                       'outside the manager block (covered by the C17 inventory).')
    inits.rule_reset(chk, P, 'I')
    inits.rule_handlers(chk, P, 'I5a', 'I5b', 'I5c')
    # the ring itself is not cleared by init: whoever fills a slot inside the library (the init-time self-tests) must define every field
    # group it uses, or the previous job of the slot decides what the new manager does
    from . import c20
    c20.rule_job_setup(chk, P, 'I6', floor=20)
    # the per-architecture init functions agree (error-code reset, feature detection, dispatch to the type inits)
    from . import twins
    twins.rule_arch_siblings(chk, P, 'X6', floor=60)
