"""C13 — SAFE_DATA: no key or plaintext residue (partial; each clause a necessary condition).
S1a every function-local that the code scrubs on some path is scrubbed on every path from its uses to every return
S1s arch-sibling functions scrub the same locals           S1c register scrub macros on all return paths after a kernel call
S3  exit consistency of vector scrubbing in asm            S4 road blocks / whole-manager clear (shared with C15/C16)
S6  exported asm functions return with all vector registers zero (reasoned exceptions)
S7  C-callable kernels that are vector-clean on the reference tree stay vector-clean (baseline)"""
import json, os, re
from .. import cf, build, asmfacts
from . import inits, c18

SCRUB = {'clear_mem', 'imb_clear_mem', 'force_memset_zero', 'clear_var', 'force_memset_zero_vol'}
REG_SCRUB = re.compile(r'^(clear_scratch_gps|clear_scratch_xmms_sse|clear_scratch_xmms_avx|clear_scratch_ymms|clear_scratch_zmms|'
                       r'clear_all_zmms|clear_all_ymms|clear_all_xmms\w*|CLEAR_SCRATCH_GPS|CLEAR_SCRATCH_SIMD_REGS\w*)$')
ARCH_SUFFIX = re.compile(r'(_no_gfni|_gfni|_vaes|_ni|_shani|_fma|_ifma)?(_sse|_avx2|_avx512|_avx)(_t\d)?$')
DATA = os.path.join(os.path.dirname(os.path.dirname(os.path.abspath(__file__))), 'data')
BASELINE = os.path.join(DATA, 'vec_clean_baseline.json')

# exported asm functions allowed to return with non-zero vector registers (one symbol, one reason)
_VAES_GCM = ('scrubs a hand-picked list of registers holding key material (clear_zmms_avx512 of named registers); the others hold '
             'counter blocks / ciphertext; deciding it needs secret-taint with declassification, not zeroness')
S6_EXCEPTIONS = {
    'hec_32_sse': 'CRC of a public PON header, no secret input', 'hec_64_sse': 'CRC of a public PON header, no secret input',
    'hec_32_avx': 'CRC of a public PON header, no secret input', 'hec_64_avx': 'CRC of a public PON header, no secret input',
    'ghash_vaes_avx512': _VAES_GCM,
}
for _k in ('128', '192', '256'):
    for _n in ('aes_gcm_enc_%s_vaes_avx512', 'aes_gcm_dec_%s_vaes_avx512', 'aes_gcm_enc_%s_update_vaes_avx512',
               'aes_gcm_dec_%s_update_vaes_avx512', 'aes_gcm_enc_%s_finalize_vaes_avx512', 'aes_gcm_dec_%s_finalize_vaes_avx512',
               'aes_gcm_init_%s_vaes_avx512', 'aes_gcm_init_var_iv_%s_vaes_avx512', 'imb_aes_gmac_update_%s_vaes_avx512'):
        S6_EXCEPTIONS[_n % _k] = _VAES_GCM


def scrub_target(ev):
    """name of the local passed (by name or address) as first argument of a scrub call"""
    if ev['k'] != 'call' or ev['e'].get('fn') not in SCRUB or not ev['e'].get('a'):
        return None
    b = cf.base_ref(ev['e']['a'][0])
    if b is not None and not b.get('g') and not b.get('p'):
        return b['n']
    return None


def refs_local(ev, name):
    for k in ('e', 'lhs', 'rhs', 'val'):
        for n in cf.walk(ev.get(k) or {}):
            if n.get('k') == 'ref' and n['n'] == name:
                return True
    if ev['k'] == 'decl':
        for d in ev['d']:
            for n in cf.walk(d.get('init') or {}):
                if n.get('k') == 'ref' and n['n'] == name:
                    return True
    return False


def run_s1(chk, P):
    s1a = chk.rule('S1a', 'a function-local scrubbed on some path is scrubbed on every path from each of its uses to every return', floor=150)
    s1s = chk.rule('S1s', 'arch-sibling functions scrub the same locals', floor=40)
    s1c = chk.rule('S1c', 'a function that scrubs registers before one return does so before every return that follows a kernel call', floor=30)
    seen = set()
    groups = {}
    for tu in P.tus():
        if tu == 'x86_64__self_test.c':
            continue
        for f in P.funcs(tu):
            if (f.name, f.loc) in seen:
                continue
            seen.add((f.name, f.loc))
            scrubbed = {}
            for b, i, ev in f.events(('call',)):
                t = scrub_target(ev)
                if t:
                    scrubbed.setdefault(t, []).append((b, i, ev))
            locals_ = {}
            for _, _, ev in f.events(('decl',)):
                for d in ev['d']:
                    locals_[d['n']] = d['ty']
            stem = ARCH_SUFFIX.sub('', f.name)
            if stem != f.name:
                groups.setdefault(stem, []).append((f, set(scrubbed), locals_))
            for name in sorted(scrubbed):
                # uses of the local other than its scrub calls
                ublocks = []
                for b, blk in f.blocks.items():
                    for ev in blk['ev']:
                        if scrub_target(ev) == name:
                            continue
                        if refs_local(ev, name):
                            ublocks.append(b)
                            break
                bad = None
                # a scrub inside a loop body (`for (i..) clear_mem(&A[i])`) counts when its loop head is reached: statically
                # the zero-trip path skips the body, dynamically the loop runs over the same count as the fill loop
                dom = f.dominators()
                loop_heads = set()
                for sb, si, sev in scrubbed[name]:
                    for d in dom.get(sb, ()):
                        t = f.blocks[d].get('term')
                        if t and t['kind'] in ('ForStmt', 'WhileStmt') and d in f.reachable(sb) and d != sb:
                            loop_heads.add(d)
                for ub in sorted(set(ublocks)):
                    # start after the last use in that block
                    evs = f.blocks[ub]['ev']
                    last = max(i for i, ev in enumerate(evs) if refs_local(ev, name) and scrub_target(ev) != name)
                    ok, wit = _must_scrub(f, ub, last + 1, name, loop_heads)
                    if not ok:
                        # a later use on the same path re-dirties: only the final use before a return matters, which the
                        # walk from that later block will also examine
                        bad = (ub, wit)
                        break
                key = '%s:%s' % (f.name, name)
                s1a.check(bad is None, key, scrubbed[name][0][2].get('sloc') or scrubbed[name][0][2]['loc'],
                          '%s: local `%s` (%s) is scrubbed on some paths but a return is reachable from its use in block %s without '
                          'scrubbing it' % (f.name, name, locals_.get(name, '?'), bad[0] if bad else ''))
            # S1c: register scrubbing on all returns after a kernel (non-inline, non-scrub) call
            regs = [(b, i, ev) for b, i, ev in f.events(('call',)) if REG_SCRUB.match(ev['e'].get('fn') or '')]
            if regs and not f.raw.get('static') or (regs and f.raw.get('static') and not f.raw.get('inline')):
                kernels = [(b, i, ev) for b, i, ev in f.events(('call',))
                           if ev['e'].get('fn') and not REG_SCRUB.match(ev['e']['fn']) and ev['e']['fn'] not in SCRUB and
                           ev['e']['fn'] not in ('imb_set_errno', 'memcpy', 'memset') and not P.has(tu, ev['e']['fn']) and
                           not ev['e']['fn'].startswith(('__builtin', '_mm'))]
                bad = None
                for b, i, ev in kernels:
                    ok, wit = cf.walk_paths_must(f, b, None, lambda e: e['k'] == 'call' and bool(REG_SCRUB.match(e['e'].get('fn') or '')),
                                                 lambda e: e['k'] == 'return', start_idx=i + 1)
                    if not ok:
                        bad = ev
                        break
                s1c.check(bad is None, f.name, f.loc, '%s scrubs registers on some return paths but not after the kernel call %s at %s' % (
                    f.name, (bad or {}).get('e', {}).get('fn'), (bad or {}).get('loc')))
    for stem, members in sorted(groups.items()):
        if len(members) < 2:
            continue
        union = set()
        for f, sc, loc in members:
            union |= sc
        for f, sc, loc in members:
            missing = sorted(n for n in union if n in loc and n not in sc)
            s1s.check(not missing, '%s:%s' % (stem, f.name), f.loc,
                      '%s does not scrub %s although its arch siblings (%s) do' % (
                          f.name, missing, ', '.join(sorted(g.name for g, s2, _ in members if set(missing) & s2))))


def _must_scrub(f, start, start_idx, name, loop_heads):
    seen = set()
    st = [(start, start_idx)]
    while st:
        b, i0 = st.pop()
        if (b, i0 > 0) in seen:
            continue
        seen.add((b, i0 > 0))
        if i0 == 0 and b in loop_heads:
            continue
        hit = False
        for ev in f.blocks[b]['ev'][i0:]:
            if scrub_target(ev) == name:
                hit = True
                break
            if ev['k'] == 'return':
                return False, b
        if hit:
            continue
        if b == f.exit:
            return False, b
        for s_ in f.succ(b):
            st.append((s_, 0))
    return True, None


def vec_state(r):
    v = set()
    for e in r['exits']:
        v |= set(e['vec'])
    return v


def run_asm(chk, P):
    s6 = chk.rule('S6', 'exported asm functions return with every vector register zero on every path (reasoned exceptions by symbol)', floor=200)
    s7 = chk.rule('S7', 'C-callable asm kernels that return vector-clean on the reference tree still do', floor=250)
    s3 = chk.rule('S3', 'exit consistency: a function that is vector-clean at one exit after writing vector registers is clean at all exits', floor=600)
    cc = c18.callable_set(P)
    if not os.path.exists(BASELINE):
        chk.broken('vector-clean baseline missing')
        base = set()
    else:
        with open(BASELINE) as fjs:
            base = set(json.load(fjs)['clean'])
    seen_exc = set()
    for rel, name, r in asmfacts.all_functions():
        if name not in cc:
            continue
        v = vec_state(r)
        loc = r['lines'].get(r['exits'][0]['a'], rel) if r['exits'] else rel
        dirty_exits = [e for e in r['exits'] if e['vec']]
        if cc[name] == 'exported':
            if name in S6_EXCEPTIONS:
                seen_exc.add(name)
                s6.ok(name + ':exception', S6_EXCEPTIONS[name])
            else:
                e0 = dirty_exits[0] if dirty_exits else None
                s6.check(not v, name, r['lines'].get(e0['a'], rel) if e0 else loc,
                         'exported %s returns with vector register(s) %s possibly holding data written by the call (SAFE_DATA build)' % (
                             name, ', '.join('v%d' % x for x in sorted(v)[:10])))
        elif name in base:
            e0 = dirty_exits[0] if dirty_exits else None
            s7.check(not v, name, r['lines'].get(e0['a'], rel) if e0 else loc,
                     '%s returned with all vector registers zero on the reference tree; now %s may hold data at %s' % (
                         name, ', '.join('v%d' % x for x in sorted(v)[:10]), e0['kind'] if e0 else ''))
        # S3
        if len(r['exits']) > 1 and name not in S6_EXCEPTIONS:
            clean = [e for e in r['exits'] if not e['vec']]
            mixed = bool(clean) and bool(dirty_exits)
            # a clean exit that precedes any vector write (early parameter error exit) is not a scrub decision
            if mixed:
                scrubbing_clean = [e for e in clean if set(range(16)) - set(e.get('unclean', [])) != set()]
                mixed = bool(scrubbing_clean) and name not in ('hec_32_sse', 'hec_64_sse', 'hec_32_avx', 'hec_64_avx')
            s3.check(not mixed or name not in base and cc[name] != 'exported', name + ':exits', loc,
                     '%s scrubs vector registers before some exits but returns dirty (%s) at %s' % (
                         name, ', '.join('v%d' % x for x in sorted(v)[:8]), dirty_exits[0]['kind'] if dirty_exits else ''))
        else:
            s3.ok(name)
    for n in S6_EXCEPTIONS:
        if n not in seen_exc and n in cc:
            pass
    chk.extra['exported_asm'] = sum(1 for n, w in cc.items() if w == 'exported')
    chk.extra['baseline_clean_kernels'] = len(base)


SCRUB_BASELINE = os.path.join(DATA, 'scrub_baseline.json')


def scrub_coverage(P):
    """{asm manager function: {field: {'idx'|'fix': [[lo, hi), ...]}}} — manager bytes (field-relative) the function overwrites with
    zero (SAFE_DATA scrub stores and lane clears), from the typed object-level view"""
    from .. import asmtyped
    T = asmtyped.Typed(P)
    out = {}
    for name, t, res in T.manager_functions():
        cov = {}
        for s_ in res['stores']:
            if not asmtyped.is_zero_store(s_):
                continue
            cl = T.classify_store(name, s_)
            if not cl or cl['what'] != 'arg' or cl['reg'] != 'rdi' or not cl.get('field'):
                continue
            k = 'idx' if s_['indexed'] else 'fix'
            cov.setdefault(cl['field'], {}).setdefault(k, []).append((cl['rel'], cl['rel'] + s_['w']))
        if cov:
            out[name] = {f: {k: _merge(v) for k, v in d.items()} for f, d in cov.items()}
    return out


def _merge(iv):
    iv = sorted(iv)
    out = []
    for lo, hi in iv:
        if out and lo <= out[-1][1]:
            out[-1][1] = max(out[-1][1], hi)
        else:
            out.append([lo, hi])
    return out


def _covers(cur, lo, hi):
    for a, b in cur:
        if a <= lo and hi <= b:
            return True
    return False


def run_s2(chk, P):
    s2 = chk.rule('S2', 'every manager byte range (per field) that an out-of-order manager routine zeroes on the reference tree is still '
                        'zeroed by it (scrub of keys / IVs / digests / lane slots on completion and flush)', floor=300)
    if not os.path.exists(SCRUB_BASELINE):
        chk.broken('scrub baseline missing')
        return
    with open(SCRUB_BASELINE) as fjs:
        base = json.load(fjs)['coverage']
    cur = scrub_coverage(P)
    from .. import asmtyped
    for name, fields in sorted(base.items()):
        if name not in cur and not any(name == n for _, n, _ in asmfacts.all_functions()):
            continue  # function no longer exists (renamed/removed): binding rules report that
        for fld, kinds in sorted(fields.items()):
            for k, ranges in kinds.items():
                have = cur.get(name, {}).get(fld, {}).get(k, [])
                other = cur.get(name, {}).get(fld, {}).get('fix' if k == 'idx' else 'idx', [])
                for lo, hi in ranges:
                    s2.check(_covers(have, lo, hi) or _covers(other, lo, hi), '%s:%s[%d..%d)%s' % (name, fld, lo, hi, '*lane' if k == 'idx' else ''), name,
                             '%s no longer zeroes bytes [%d, %d) of manager field %s%s (now zeroed: %s)' % (
                                 name, lo, hi, fld, ' of the completed lane' if k == 'idx' else '', have or other or 'nothing'))


def frame_zero_bytes():
    """{assembled routine: number of distinct bytes of its own stack frame it overwrites with zero} (SAFE_DATA clearing of spilled
    state: keys, keystream, hash state saved across calls)"""
    out = {}
    for rel, name, r in asmfacts.all_functions():
        byk = {}
        for a, kind, lo, hi in r.get('zstack', ()):
            byk.setdefault(kind, []).append((lo, hi))
        n = 0
        for kind, iv in byk.items():
            n += sum(hi - lo for lo, hi in _merge(iv))
        if n:
            out[name] = n
    return out


def must_zero_bytes():
    """{assembled routine: {destination family: bytes overwritten with zero on EVERY path to EVERY exit}} — must-facts of the
    abstract interpreter (intersection at joins, ended by any other store to the same place, by calls and by string instructions)"""
    out = {}
    for rel, name, r in asmfacts.all_functions():
        m = None
        for e in r['exits']:
            s_ = set(map(tuple, e.get('mz', [])))
            m = s_ if m is None else (m & s_)
        if not m:
            continue
        fam = {}
        for bkey, lo, hi, idx in m:
            if bkey[0] == 'frame':
                k = 'frame'
            else:
                root = bkey
                while root[0] == 'L':
                    root = root[1]
                k = ('arg:' if bkey[0] == 'E' else 'via:') + (root[1] if root[0] == 'E' else '?')
            fam.setdefault(k, []).append((lo, hi))
        out[name] = {k: sum(hi - lo for lo, hi in _merge(v)) for k, v in fam.items()}
    return out


def _callers_scrub(P, routine, reg):
    """every C call site of the routine passes a local for that argument and scrubs it on every path from the call to return"""
    ARGS = ['rdi', 'rsi', 'rdx', 'rcx', 'r8', 'r9']
    if reg not in ARGS:
        return False
    ai = ARGS.index(reg)
    sites = 0
    seenf = set()
    for tu in P.tus():
        for f in P.funcs(tu):
            if (f.name, f.loc) in seenf:
                continue
            for b_, i_, ev in f.events(('call',)):
                if ev['e'].get('fn') != routine or len(ev['e'].get('a', [])) <= ai:
                    continue
                seenf.add((f.name, f.loc))
                sites += 1
                br = cf.base_ref(ev['e']['a'][ai])
                if br is None or br.get('p') or br.get('g'):
                    return False
                ok, _ = _must_scrub(f, b_, i_ + 1, br['n'], set())
                if not ok:
                    return False
    return sites > 0


def run_s9(chk, P=None):
    s9 = chk.rule('S9', 'every assembled routine still overwrites with zero, on EVERY path to every return, at least as many bytes of each '
                        'destination family (own frame, buffers reached from one argument) as on the reference tree: a scrub made conditional '
                        'on a length or moved behind a branch no longer covers all paths', floor=50)
    with open(SCRUB_BASELINE) as fjs:
        base = json.load(fjs).get('must_zero', {})
    cur = must_zero_bytes()
    names = {n for _, n, _ in asmfacts.all_functions()}
    for name, fams in sorted(base.items()):
        if name not in names:
            continue
        for k, nb in sorted(fams.items()):
            have = cur.get(name, {}).get(k, 0)
            if have < nb and k.startswith('arg:') and P is not None and _callers_scrub(P, name, k[4:]):
                s9.ok('%s:%s' % (name, k), 'every C caller scrubs the buffer after the call')
                continue
            s9.check(have >= nb, '%s:%s' % (name, k), name,
                     '%s zeroes %d bytes of %s on every path, %d on the reference tree: some path now returns without that scrub' % (
                         name, have, 'its stack frame' if k == 'frame' else 'the memory reached from %s' % k.split(':')[1], nb))


def run_s10(chk, P):
    """sibling rule across architectures: where one architecture's implementation of a routine scrubs, on every path, the caller's
    buffer reached from argument i (keystream handed over by the C caller), a sibling that does not leaves that duty to the C
    caller: the local passed for that argument must then be scrubbed on every path from the call to every return"""
    s10 = chk.rule('S10', 'a caller-owned buffer that one architecture\'s routine scrubs on every path is scrubbed for every architecture: by '
                          'the sibling routine itself or, after the call, by the C caller on every path to every return', floor=1)
    mz = must_zero_bytes()
    names = {n for _, n, _ in asmfacts.all_functions()}
    groups = {}
    for n in names:
        stem = ARCH_SUFFIX.sub('', n)
        if stem != n:
            groups.setdefault(stem, []).append(n)
    ARGS = ['rdi', 'rsi', 'rdx', 'rcx', 'r8', 'r9']
    for stem, ms in sorted(groups.items()):
        if len(ms) < 2:
            continue
        fams = {}
        for m in ms:
            for k, b in mz.get(m, {}).items():
                if k.startswith('arg:') and b >= 64 and k[4:] in ARGS[1:]:   # rdi is the manager / job itself
                    fams.setdefault(k, {})[m] = b
        for k, have in sorted(fams.items()):
            ai = ARGS.index(k[4:])
            for m in sorted(ms):
                key = '%s:%s' % (m, k)
                if m in have:
                    s10.ok(key, {'scrubbed_by_routine': have[m]})
                    continue
                # every C call site of the sibling that does not scrub
                sites = 0
                bad = None
                seenf = set()
                for tu in P.tus():
                    for f in P.funcs(tu):
                        if (f.name, f.loc) in seenf:
                            continue
                        for b_, i_, ev in f.events(('call',)):
                            if ev['e'].get('fn') != m or len(ev['e'].get('a', [])) <= ai:
                                continue
                            seenf.add((f.name, f.loc))
                            sites += 1
                            br = cf.base_ref(ev['e']['a'][ai])
                            if br is None or br.get('p') or br.get('g'):
                                continue   # the buffer is the caller's caller's: followed no further
                            ok, wit = _must_scrub(f, b_, i_ + 1, br['n'], set())
                            if not ok and bad is None:
                                bad = (f, ev, br['n'])
                if bad:
                    f, ev, loc_name = bad
                    s10.bad(key, ev.get('sloc') or ev['loc'],
                            '%s leaves the buffer handed over in %s untouched where its sibling %s overwrites %d bytes of it with zero on every '
                            'path, and %s does not scrub `%s` after the call on every path to return: the secret material in it survives '
                            'the job on this architecture' % (m, k[4:], sorted(have)[0], max(have.values()), f.name, loc_name))
                else:
                    s10.ok(key, {'call_sites': sites})


def run_s8(chk):
    s8 = chk.rule('S8', 'every assembled routine still overwrites with zero at least as many bytes of its own stack frame as on the reference '
                        'tree (clearing of state spilled to the stack; a byte count, so that a changed frame layout is not a finding)', floor=40)
    with open(SCRUB_BASELINE) as fjs:
        base = json.load(fjs).get('frame_zero', {})
    cur = frame_zero_bytes()
    names = {n for _, n, _ in asmfacts.all_functions()}
    for name, nb in sorted(base.items()):
        if name not in names:
            continue
        s8.check(cur.get(name, 0) >= nb, name, name, '%s zeroes %d bytes of its stack frame, %d on the reference tree: spilled state is left behind' % (
            name, cur.get(name, 0), nb))


def write_scrub_baseline(P):
    cov = scrub_coverage(P)
    with open(SCRUB_BASELINE, 'w') as f:
        json.dump({'note': 'per out-of-order manager routine: field-relative byte ranges it overwrites with zero on the reference tree '
                           '(SAFE_DATA build); frame_zero: bytes of its own stack frame a routine zeroes; python3 -m imbv.rules.c13 --write-baseline',
                   'coverage': cov, 'frame_zero': frame_zero_bytes(), 'must_zero': must_zero_bytes()}, f, indent=0)
    return sum(len(v) for v in cov.values())



# ---------------------------------------------------------------------------------------------------------------------------
# S11 / S12: which locals a C function scrubs, and how much of each

LOCAL_SCRUB_BASELINE = os.path.join(DATA, 'local_scrub_baseline.json')


def _obj_size(P, ty):
    m = re.search(r'\[(\d+)\]((?:\[\d+\])*)\s*$', ty or '')
    if not m:
        return None
    el = ty[:m.start()].strip()
    n = int(m.group(1))
    for d in re.findall(r'\[(\d+)\]', m.group(2)):
        n *= int(d)
    es = {'uint8_t': 1, 'unsigned char': 1, 'char': 1, 'uint16_t': 2, 'uint32_t': 4, 'unsigned int': 4, 'int': 4, 'uint64_t': 8}.get(el.replace('const ', ''))
    return n * es if es else None


def local_scrubs(P):
    """{function: {type of local: number of distinct locals of that type handed whole to a scrub call}} and the scrub calls with sizes"""
    calls = []
    own, callees, names = {}, {}, {}
    seen = set()
    for tu in P.tus():
        if tu == 'x86_64__self_test.c':
            continue
        for f in P.funcs(tu):
            if (f.name, f.loc) in seen:
                continue
            seen.add((f.name, f.loc))
            types = {}
            for _, _, ev in f.events(('decl',)):
                for d in ev['d']:
                    types[d['n']] = d.get('ty', '')
            per = {}
            for b, i, ev in f.events(('call',)):
                t = scrub_target(ev)
                if not t or t not in types:
                    continue
                per.setdefault(re.sub(r'\d+', 'N', re.sub(r'\(unnamed (\w+) at [^)]*\)', r'(unnamed \1)', types[t])), set()).add(t)
                calls.append((f, ev, t, types[t]))
            if per:
                own[(tu, f.name)] = {k: len(v) for k, v in per.items()}
            callees[(tu, f.name)] = {ev['e'].get('fn') for _, _, ev in f.calls() if ev['e'].get('fn') and P.has(tu, ev['e']['fn'])}
            names.setdefault(f.name, tu)
    # a local moved into a helper together with its scrub is still scrubbed: count over the function and the TU-local helpers it reaches
    res = {}
    for (tu, fn) in list(callees):
        if names.get(fn) != tu:
            continue
        seen_f, st = set(), [fn]
        tot = {}
        while st:
            n = st.pop()
            if n in seen_f:
                continue
            seen_f.add(n)
            for k, v in own.get((tu, n), {}).items():
                tot[k] = tot.get(k, 0) + v
            st.extend(callees.get((tu, n), ()))
        if tot:
            res[fn] = tot
    return res, calls


def write_local_scrub_baseline(P):
    res, _ = local_scrubs(P)
    with open(LOCAL_SCRUB_BASELINE, 'w') as fh:
        json.dump({'note': 'per C function: for each (digit-normalised) type, how many distinct locals of that type the function hands to a scrub '
                           'call on the reference tree', 'functions': res}, fh, indent=0, sort_keys=True)
    return len(res)


def run_s11(chk, P):
    s11 = chk.rule('S11', 'every C function still scrubs at least as many distinct locals of each type as on the reference tree (a scrub call '
                          'dropped, or aimed twice at one of two sibling locals, leaves the other behind)', floor=80)
    s12 = chk.rule('S12', 'a scrub call handed a whole local array covers the whole array (constant size not smaller than the object)', floor=30)
    if not os.path.exists(LOCAL_SCRUB_BASELINE):
        chk.broken('local scrub baseline missing')
        return
    base = json.load(open(LOCAL_SCRUB_BASELINE))['functions']
    cur, calls = local_scrubs(P)
    fl = {}
    for f, ev, t, ty in calls:
        fl.setdefault(f.name, f)
    for name, types in sorted(base.items()):
        if name not in cur and name not in fl:
            # the function may be gone (renamed): nothing to compare; if it exists without any scrub it is a finding
            exists = any(True for _ in P.find(name))
            if not exists:
                continue
        have = cur.get(name, {})
        for ty, n in sorted(types.items()):
            s11.check(have.get(ty, 0) >= n, '%s:%s' % (name, ty), (fl.get(name).loc if name in fl else name),
                      '%s scrubs %d local(s) of type %s; the reference tree scrubs %d' % (name, have.get(ty, 0), ty, n))
    for f, ev, t, ty in calls:
        a = ev['e'].get('a', [])
        if len(a) < 2:
            continue
        first = cf.strip_casts(a[0])
        whole = isinstance(first, dict) and (first.get('k') == 'ref' or (first.get('k') == 'un' and first.get('op') == '&' and
                                                                        cf.strip_casts(first['e']).get('k') == 'ref'))
        size = _obj_size(P, ty)
        n = cf.evalc(a[1])
        if not whole or size is None or n is None:
            continue
        s12.check(int(n) >= size, '%s:%s@%s' % (f.name, t, ev['loc'].split('/')[-1]), ev['loc'],
                  '%s scrubs %d bytes of `%s` (%s, %d bytes): the rest of the buffer keeps its contents' % (f.name, int(n), t, ty, size))


def write_baseline(P):
    cc = c18.callable_set(P)
    clean = []
    for rel, name, r in asmfacts.all_functions():
        if name in cc and cc[name] != 'exported' and r['exits'] and not vec_state(r):
            clean.append(name)
    os.makedirs(DATA, exist_ok=True)
    with open(BASELINE, 'w') as f:
        json.dump({'note': 'C-callable (non-exported) asm functions that return with every vector register zero on the reference '
                           'tree (SAFE_DATA build); generated by python3 -m imbv.rules.c13 --write-baseline',
                   'clean': sorted(clean)}, f, indent=0)
    return len(clean)


def run_s13(chk):
    """lane-mask coverage of SAFE_DATA wipes (imbv/maskcover.py)"""
    from .. import maskcover
    r = chk.rule('S13', 'flush routines that copy key material into the empty lanes under a lane-mask ladder (`bt mask, lane; jnc`) wipe every such '
                        'place again under a mask that is OR-ed from at least the same constructions (a 16-lane mask cmp | cmp << 8 is not covered '
                        'by its 8-lane half)', floor=300)
    for rel, fs in sorted(maskcover.all_units().items()):
        if not fs:
            continue
        decided, bad = maskcover.verdicts(fs)
        seen = set()
        for c, why in bad:
            key = '%s:%s:%#x' % (rel, c['fn'], c['off'])
            if key in seen:
                continue
            seen.add(key)
            r.bad(key, rel, '%s (%s): `%s` at +%#x copies lane state under bit %d of a mask built from %s; %s - the copy stays in the manager '
                            'after the job is returned' % (c['fn'], rel, ' '.join(c['txt'].split()), c['a'], c['bit'], c['mask'], why))
        for i in range(decided - len(bad)):
            r.ok('%s#%d' % (rel, i))


def run_s14(chk):
    """an unrolled clear loop must advance: the same store issued twice in a row wipes one place twice and leaves the next one"""
    from .. import insnscan
    r = chk.rule('S14', 'no assembled routine issues the same store (same mnemonic, address, mask and source register) twice in a row: in an '
                        'unrolled clear / copy loop the address was meant to advance, and what should have been wiped stays (decides K19)', floor=200)
    fx = insnscan.repeat_store_fixture()
    bad = {f['fn'] for f in fx['repeats']}
    if 's14_fixture_bad' not in bad or 's14_fixture_good' in bad:
        chk.broken('S14: the repeated-store scan does not separate its positive fixture from the negative one')
    for rel, v in sorted(insnscan.repeat_stores().items()):
        seen = set()
        for f in v['repeats']:
            key = '%s:%s:%s' % (rel, f['fn'], ' '.join(f['txt'].split()))
            if key in seen:
                continue
            seen.add(key)
            r.bad(key, rel, '%s (%s): `%s` at +%#x repeats the store before it unchanged: the unrolled loop does not advance, the places behind '
                            'the first one are never written' % (f['fn'], rel, ' '.join(f['txt'].split()), f['a']))
        r.ok('%s' % rel, '%d stores' % v['stores'])
    return r


def run(chk):
    P = cf.Program()
    chk.explanation = ('Partial: each clause is a necessary condition of the SAFE_DATA promise. C side: locals the code itself scrubs are '
                       'scrubbed on every path from their uses to every return; arch-sibling functions scrub the same locals; register '
                       'scrub macros cover every return after a kernel call; every reset clears whole managers and road blocks cover the '
                       'allocation table. Object level (zero/non-zero abstract domain over every assembled function with callee '
                       'summaries): every exported asm function returns with all vector registers zero on every path unless it is one '
                       'of the individually reasoned exceptions; every C-callable kernel that is vector-clean on the reference tree '
                       'stays clean. NOT decided: that no secret survives in GPRs, stack frames of asm kernels, or manager storage '
                       '(needs secret-taint with declassification).')
    run_s1(chk, P)
    run_asm(chk, P)
    run_s2(chk, P)
    run_s8(chk)
    run_s9(chk, P)
    from . import twins
    twins.rule_copy_siblings(chk, P, 'X5', floor=100)
    run_s13(chk)
    run_s14(chk)
    run_s10(chk, P)
    run_s11(chk, P)
    # S4: road block coverage and whole-manager clears (shared)
    inits.rule_reattach(chk, P)
    inits.rule_reset(chk, P, 'S4.')


if __name__ == '__main__':
    import sys
    if '--write-baseline' in sys.argv:
        P_ = cf.Program()
        print(write_baseline(P_), write_scrub_baseline(P_), write_local_scrub_baseline(P_))
