"""C08 — all implementation variants and feature flags give identical results; missing features fail cleanly.
R1 binding agreement  R2 variant handler tables complete  R3 init gating by CPU feature masks  R3b self-test only after
successful init (shared with C20)  R5 feature-flag adjustment"""
import re
from .. import cf, build, guards
from . import inits
from .c14 import _recname


def run(chk):
    P = cf.Program()
    M = build.macros()
    chk.explanation = ('Variants can only agree if each binds the kernel of the named algorithm, size and direction (R1, all nine variant '
                       'files, including the six this host never executes), every handler slot is bound in every variant (R2), and a '
                       'variant is reachable only when the CPU feature mask it needs was tested on the path (R3): the union of '
                       '`(features & M) == M` tests dominating each variant init call plus the variant\'s own guard covers '
                       'IMB_CPUFLAGS_<ARCH>_T<N>, failing edges report IMB_ERR_MISSING_CPUFLAGS_INIT_MGR or fall through to a weaker '
                       'variant, and the SHANI/GFNI off flags clear exactly their bits. Not decided: bit-equality of two different '
                       'kernels for the same algorithm (value-level); ISA containment of reachable instructions (see DESIGN R4).')
    inits.rule_bindings(chk, P, 'R1')
    inits.rule_slot_siblings(chk, P, 'R1s')
    inits.rule_handlers(chk, P, 'R2', 'R2b', 'R2c')
    r3 = chk.rule('R3', 'each variant init is reached only under feature tests covering its IMB_CPUFLAGS mask; failing edges report '
                        'the missing-CPU-flags error or fall through to a weaker variant', floor=30)
    ERR = P.enum('IMB_ERR_MISSING_CPUFLAGS_INIT_MGR')
    anyM = None
    for tu in P.variant_tus():
        anyM = M[tu]
        break
    for tu in P.variant_tus():
        m = inits.VARIANT_RE.match(tu)
        if not m:
            continue
        arch, n = m.group(1), int(m.group(2))
        vt = '%s_t%d' % (arch, n)
        mname = 'IMB_CPUFLAGS_%s' % arch.upper() + ('' if n == 1 else '_T%d' % n)
        need = inits.macro_value(M[tu], mname)
        if need is None:
            r3.bad(vt + ':mask', tu, 'cannot evaluate %s' % mname)
            continue
        f = inits.init_func(P, tu)
        # own guard: masks on the path to the first handler store
        first = None
        for b, i, ev in f.events(('assign',)):
            l = cf.strip_casts(ev['lhs'])
            if l.get('k') == 'mem' and l['f'] == 'used_arch':
                first = b
        if first is None:
            r3.bad(vt + ':own', f.loc, 'no used_arch store found')
            continue
        # the architecture recorded for re-attachment is the variant's own
        want_arch = P.enum('IMB_ARCH_' + arch.upper())
        for b, i, ev in f.events(('assign',)):
            l = cf.strip_casts(ev['lhs'])
            if l.get('k') == 'mem' and l['f'] == 'used_arch':
                r3.check(cf.evalc(ev.get('rhs') or {}) == want_arch, vt + ':used_arch', ev['loc'],
                         '%s records used_arch = %s, not IMB_ARCH_%s: imb_set_pointers_mb_mgr() would re-attach the manager with the handlers of '
                         'another architecture' % (f.name, cf.render(ev.get('rhs')) if ev.get('rhs') else '?', arch.upper()))
        for b, i, ev in f.events(('assign',)):
            l = cf.strip_casts(ev['lhs'])
            if l.get('k') == 'mem' and l['f'] == 'used_arch_type':
                r3.check(cf.evalc(ev.get('rhs') or {}) == n, vt + ':used_arch_type', ev['loc'],
                         '%s records used_arch_type = %s in the type-%d variant' % (f.name, cf.render(ev.get('rhs')) if ev.get('rhs') else '?', n))
        own, tests = inits.masks_guarding(f, first)
        # failing edge of the own guard sets the error and returns
        for mk, d, killed in tests:
            t = f.blocks[d]['term']
            ft = inits.features_test(guards.expand(f, t.get('fullcond') or t.get('cond'), d))
            su = f.blocks[d]['succ']
            absent = su[1] if ft[1] else su[0]
            okk, _ = cf.walk_paths_must(f, absent, None,
                                        lambda e: e['k'] == 'call' and e['e'].get('fn') == 'imb_set_errno' and cf.evalc(e['e']['a'][1]) == ERR,
                                        lambda e: e['k'] == 'return' or (e['k'] == 'assign' and _recname(cf.strip_casts(e['lhs']).get('rec', '')) == 'IMB_MGR'))
            r3.check(okk, vt + ':own-fail-edge', t['loc'], '%s: missing features do not lead to IMB_ERR_MISSING_CPUFLAGS_INIT_MGR before any handler is bound' % f.name)
        # front-end
        fe = P.find('init_mb_mgr_%s_internal' % arch)
        if not fe:
            r3.bad(vt + ':frontend', tu, 'front-end init_mb_mgr_%s_internal not found' % arch)
            continue
        ftu, g = fe[0]
        sites = [(b, ev) for b, _, ev in g.calls(f.name)]
        if not sites:
            if n == 4 and 'SMX_NI' not in ' '.join(sum([e['args'] for e in build.c_entries() if e['file'].endswith('mb_mgr_avx2.c')], [])):
                r3.ok(vt + ':not-built', 'variant not compiled into the front-end on this toolchain (SMX_NI off)')
                cover = own
                r3.check(True, vt + ':cover', f.loc, '')
                continue
            r3.bad(vt + ':frontend-call', g.loc, '%s is never called from init_mb_mgr_%s_internal' % (f.name, arch))
            continue
        for b, ev in sites:
            fm, ftests = inits.masks_guarding(g, b)
            cover = fm | own
            missing = need & ~cover
            r3.check(missing == 0, vt + ':cover', ev['loc'],
                     '%s is reachable with feature bits %#x of %s untested (front-end tests %#x, own guard %#x)' % (f.name, missing, mname, fm, own))
            # the front-end selects automatically: it must hand a CPU only to a variant that CPU supports, so that the variant's own guard
            # never turns an automatic selection into a missing-CPU-flags error (a weaker variant would have worked)
            r3.check(n == 1 or need & ~fm == 0, vt + ':select', ev['loc'],
                     'init_mb_mgr_%s_internal selects %s after testing only %#x of %s (%#x): a CPU lacking bits %#x gets the missing-CPU-flags '
                     'error from the variant although a weaker variant supports it' % (arch, f.name, fm, mname, need, need & ~fm))
        # order: stronger types are tried first — every variant call site of a stronger type dominates weaker ones' sites
    for arch in ('sse', 'avx2', 'avx512'):
        fe = P.find('init_mb_mgr_%s_internal' % arch)
        if not fe:
            continue
        ftu, g = fe[0]
        dom = g.dominators()
        sites = []
        for b, _, ev in g.calls():
            mm = re.match(r'init_mb_mgr_%s_t(\d)_internal$' % arch, ev['e'].get('fn') or '')
            if mm:
                sites.append((int(mm.group(1)), b, ev))
        # the base test precedes everything and reports the error
        base = inits.macro_value(anyM, 'IMB_CPUFLAGS_%s' % arch.upper())
        okbase = False
        for bid, blk in g.blocks.items():
            t = blk.get('term')
            ft = inits.features_test(guards.expand(g, t.get('fullcond') or t.get('cond'), bid)) if t and t['kind'] == 'IfStmt' else None
            if ft and ft[0] == base and all(bid in dom.get(sb, ()) for _, sb, _ in sites):
                absent = blk['succ'][1] if ft[1] else blk['succ'][0]
                okbase, _ = cf.walk_paths_must(g, absent, None,
                                               lambda e: e['k'] == 'call' and e['e'].get('fn') == 'imb_set_errno' and cf.evalc(e['e']['a'][1]) == ERR,
                                               lambda e: e['k'] == 'return' or (e['k'] == 'call' and (e['e'].get('fn') or '').startswith('init_mb_mgr')))
        r3.check(okbase, arch + ':base-test', g.loc, 'init_mb_mgr_%s_internal: the base feature test does not precede every variant or does not report the error' % arch)
        # descending order: the test for type k is evaluated only after the tests of all stronger types failed
        for k, b, ev in sites:
            for k2, b2, ev2 in sites:
                if k2 > k:
                    # the stronger site must not be reachable from the weaker site's guarding test-true edge
                    r3.check(b2 not in g.reachable(b), '%s:order:t%d<t%d' % (arch, k, k2), ev['loc'],
                             'init_mb_mgr_%s_internal tries type %d before type %d' % (arch, k, k2))
    # auto: descending architectures
    fa = P.find('init_mb_mgr_auto')
    if fa:
        _, g = fa[0]
        order = []
        for b in sorted(g.blocks, reverse=True):
            for ev in g.blocks[b]['ev']:
                if ev['k'] == 'call' and re.match(r'init_mb_mgr_(sse|avx2|avx512)$', ev['e'].get('fn') or ''):
                    order.append((ev['e']['fn'], b))
        for fn, b in order:
            arch = fn.split('_')[-1]
            need = inits.macro_value(anyM, 'IMB_CPUFLAGS_%s' % arch.upper())
            fm, _ = inits.masks_guarding(g, b)
            r3.check(need is not None and need & ~fm == 0, 'auto:' + arch, g.loc, 'init_mb_mgr_auto reaches %s without testing IMB_CPUFLAGS_%s' % (fn, arch.upper()))
        names = [x for x, _ in order]
        r3.check(names == ['init_mb_mgr_avx512', 'init_mb_mgr_avx2', 'init_mb_mgr_sse'], 'auto:order', g.loc, 'init_mb_mgr_auto order is %s' % names)
        # no-arch path reports the error
        errs = [ev for _, _, ev in g.calls('imb_set_errno') if cf.evalc(ev['e']['a'][1]) == ERR]
        r3.check(bool(errs), 'auto:error', g.loc, 'init_mb_mgr_auto never reports IMB_ERR_MISSING_CPUFLAGS_INIT_MGR')
    else:
        chk.broken('init_mb_mgr_auto not found')
    # R5 cpu_feature_adjust
    r5 = chk.rule('R5', 'cpu_feature_adjust clears exactly the feature bit named by each *_OFF flag', floor=2)
    fs = P.find('cpu_feature_adjust')
    if not fs:
        chk.broken('cpu_feature_adjust not found')
    else:
        _, g = fs[0]
        pairs = []
        for bid, blk in g.blocks.items():
            t = blk.get('term')
            if not t or t['kind'] != 'IfStmt':
                continue
            c = cf.strip_casts(t.get('fullcond'))
            if isinstance(c, dict) and c.get('k') == 'bin' and c['op'] == '&':
                fl = cf.evalc(c['r']) if cf.evalc(c['r']) is not None else cf.evalc(c['l'])
                tb = g.blocks[blk['succ'][0]]
                for ev in tb['ev']:
                    if ev['k'] == 'assign' and ev['op'] == '&=':
                        pairs.append((fl, (~cf.evalc(ev['rhs'])) & ((1 << 64) - 1) if cf.evalc(ev['rhs']) is not None else None))
        want = {(inits.macro_value(anyM, 'IMB_FLAG_SHANI_OFF'), inits.macro_value(anyM, 'IMB_FEATURE_SHANI')),
                (inits.macro_value(anyM, 'IMB_FLAG_GFNI_OFF'), inits.macro_value(anyM, 'IMB_FEATURE_GFNI'))}
        for w in sorted(want):
            r5.check(w in pairs, 'flag %#x' % (w[0] or 0), g.loc, 'cpu_feature_adjust: flag %#x does not clear exactly feature bit %#x (found %s)' % (w[0] or 0, w[1] or 0, pairs))
        r5.check(len(pairs) == len(want), 'count', g.loc, 'cpu_feature_adjust has %d conditional clears, expected %d' % (len(pairs), len(want)))
    from . import clones
    clones.rule_clones(chk, 'N1', floor=100)
    clones.rule_const_width(chk, 'N2', floor=100)
    clones.rule_tables(chk, 'N5', None, floor=1000)
    clones.rule_insert_ladders(chk, 'N6', None, floor=5000)
    from . import twins
    twins.rule_twin_arms(chk, P, 'X2', floor=20)
    twins.rule_common_flag(chk, P, 'Z1', floor=6)
    twins.rule_wrapper_constants(chk, P, 'X3', floor=150)
    twins.rule_arch_siblings(chk, P, 'X6', floor=60)
    twins.rule_token_agreement(chk, P, 'K1', floor=150)
    # every variant dispatches each accepted (mode, key size, direction) and hash algorithm to kernels of that mode / key size / direction: a
    # cell of ONE variant that reaches the sibling size's routine makes that variant disagree with the others (rule T2 of C06, all cells)
    from . import c06 as _c06
    _c06.run(chk, mode_filter=lambda m: m != 'IMB_CIPHER_NULL', alg_filter=lambda a: True, only_cells=True, ids=('B2', 'B2h', 'B2o'))
    run_r4(chk, P)
    # R3b shared with C20
    from . import c20
    c20.run_f1(chk, P)


# ---------------------------------------------------------------------------------------------- R4: ISA containment

FEATURE_OF_CLASS = {'AVX': 'IMB_FEATURE_AVX', 'AVX2': 'IMB_FEATURE_AVX2', 'AVX512_SKX': 'IMB_FEATURE_AVX512_SKX', 'AESNI': 'IMB_FEATURE_AESNI',
                    'PCLMULQDQ': 'IMB_FEATURE_PCLMULQDQ', 'SHANI': 'IMB_FEATURE_SHANI', 'VAES': 'IMB_FEATURE_VAES',
                    'VPCLMULQDQ': 'IMB_FEATURE_VPCLMULQDQ', 'GFNI': 'IMB_FEATURE_GFNI', 'AVX512_IFMA': 'IMB_FEATURE_AVX512_IFMA',
                    'AVX_IFMA': 'IMB_FEATURE_AVX_IFMA', 'BMI2': 'IMB_FEATURE_BMI2', 'SM3NI': 'IMB_FEATURE_SM3NI', 'SM4NI': 'IMB_FEATURE_SM4NI',
                    'SHA512NI': 'IMB_FEATURE_SHA512NI',
                    # VBMI / VBMI2 / VNNI / BITALG have no feature bit of their own: the library treats them as present with VAES on AVX512
                    'AVX512_ICL': 'IMB_FEATURE_VAES'}


def run_r4(chk, P):
    """every assembly routine a variant can reach (called or bound from its TU, transitively through assembly callees) uses only
    instruction-set extensions whose feature bits the variant's init has tested (own mask + the front end's), or that a feature
    test dominating the reference establishes"""
    from .. import asmfacts
    r = chk.rule('R4', 'every assembly routine reachable from a variant uses only instruction-set extensions covered by the feature bits the '
                       'variant requires (or by a feature test dominating the call): no unsupported instruction can be executed', floor=1500)
    st = {name: res for _, name, res in asmfacts.all_functions()}
    anyM = build.macros()

    def closure(name, seen):
        if name in seen or name not in st:
            return
        seen.add(name)
        for c in st[name].get('calls', {}):
            closure(c, seen)
    need_cache = {}

    def need(name):
        if name not in need_cache:
            seen = set()
            closure(name, seen)
            nd = {}
            for n in seen:
                for c, a in st[n].get('isa', {}).items():
                    nd.setdefault(c, (n, a))
            need_cache[name] = nd
        return need_cache[name]
    for tu in P.variant_tus():
        vt = tu.split('__')[0]
        M = anyM[tu]
        mask = inits.macro_value(M, 'IMB_CPUFLAGS_%s' % vt.upper())
        arch = vt.split('_')[0]
        base = inits.macro_value(M, 'IMB_CPUFLAGS_%s' % arch.upper())
        if mask is None:
            mask = base
        if mask is None:
            chk.broken('%s: IMB_CPUFLAGS_%s not evaluable' % (tu, vt.upper()))
            continue
        bits = {c: inits.macro_value(M, fn) for c, fn in FEATURE_OF_CLASS.items()}
        for f in P.funcs(tu):
            for bid, b in f.blocks.items():
                names = set()
                for ev in b['ev']:
                    for k in ('e', 'lhs', 'rhs', 'val'):
                        if ev.get(k) is not None:
                            for nd in cf.walk(ev[k]):
                                if nd.get('k') == 'call' and nd.get('fn') in st:
                                    names.add(nd['fn'])
                                if nd.get('k') == 'ref' and nd.get('fn') and nd.get('n') in st:
                                    names.add(nd['n'])
                    if ev['k'] == 'decl':
                        for d in ev['d']:
                            if d.get('init') is not None:
                                for nd in cf.walk(d['init']):
                                    if nd.get('k') == 'ref' and nd.get('fn') and nd.get('n') in st:
                                        names.add(nd['n'])
                if not names:
                    continue
                local = None
                for n in sorted(names):
                    nd = need(n)
                    missing = {c: w for c, w in nd.items() if bits.get(c) is not None and (mask & bits[c]) != bits[c]}
                    key = '%s:%s->%s' % (vt, f.name, n)
                    if missing:
                        if local is None:
                            local, _ = inits.masks_guarding(f, bid)
                        missing = {c: w for c, w in missing.items() if ((mask | local) & bits[c]) != bits[c]}
                    if missing:
                        c, (wn, wa) = sorted(missing.items())[0]
                        r.bad(key, st[wn]['lines'].get(wa, wn),
                              '%s (%s) reaches %s, which executes %s instructions (in %s); the variant only requires %s' % (
                                  f.name, vt, n, '/'.join(sorted(missing)), wn, 'IMB_CPUFLAGS_%s' % vt.upper()))
                    else:
                        r.ok(key)
