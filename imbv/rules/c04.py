"""C04 — a job's result depends only on itself (lane-bookkeeping clauses; the value-level claim is NOT decided).
L1 C multi-buffer managers (sha_mb_mgr.h): lane pop/park on submit, lane push/clear/complete on every completed return,
   idle lanes neutralised on flush, width-siblings agree
L2 asm managers (typed object level): a function that completes a lane job also clears job_in_lane and returns the lane;
   a submit parks the job argument and pops a lane
L3 16-bit lane lengths: every mode/algorithm dispatched to a manager with 16-bit lens[] has a validation bound <= 0xFFFF"""
import re
from .. import cf, guards, build, dispatch as D, asmtyped
from . import c05, c06, inits


def run_l1(chk, P):
    r = chk.rule('L1', 'C SHA managers: submit pops a lane and parks the job before returning; every completed return pushes the lane, '
                       'decrements the in-use count, clears job_in_lane and ORs COMPLETED_AUTH; flush neutralises idle lanes', floor=30)
    sib = chk.rule('L1s', 'the three width-siblings of the C manager have the same structure', floor=2)
    AUTH = P.enum('IMB_STATUS_COMPLETED_AUTH')
    tus = [t for t in P.tus() if P.has(t, 'submit_flush_job_sha_1')]
    if not tus:
        chk.broken('submit_flush_job_sha_1 not found')
        return
    done = set()
    for tu in tus:
        skels = {}
        for fn in ('submit_flush_job_sha_1', 'submit_flush_job_sha_256', 'submit_flush_job_sha_512'):
            if not P.has(tu, fn):
                r.bad('%s:%s' % (tu.split('__')[1], fn), tu, '%s missing' % fn)
                continue
            f = P.func(tu, fn)
            key = '%s:%s' % (tu.split('__')[1], fn)
            skels[fn] = normalise(c05.skeleton(f))
            if fn in done:
                continue
            # ---- submit path
            env = {'is_submit': 1}

            def asg(field, op=None, rhs=None):
                def m(ev):
                    if ev['k'] != 'assign':
                        return False
                    l = cf.strip_casts(ev['lhs'])
                    path = cf.chain(l)[1]
                    if field not in path:
                        return False
                    if op and ev['op'] != op:
                        return False
                    if rhs is not None and not rhs(ev.get('rhs')):
                        return False
                    return True
                return m
            is_ret = lambda ev: ev['k'] == 'return'
            for what, m in (('pop lane (unused_lanes >>= 4)', asg('unused_lanes', '>>=')),
                            ('num_lanes_inuse++', asg('num_lanes_inuse', '++')),
                            ('ldata[lane].job_in_lane = job', asg('job_in_lane', '=', lambda x: cf.strip_casts(x).get('n') == 'job')),
                            ('lens[lane] = length', asg('lens', '=', lambda x: any(n.get('k') == 'mem' and 'msg_len' in n['f'] for n in cf.walk(x))))):
                ok, _ = cf.walk_paths_must(f, f.entry, env, m, is_ret)
                r.check(ok, key + ':submit:' + what.split(' ')[0], f.loc, '%s (submit): a return is reachable before `%s`' % (fn, what))
            # lane index consistency: job parked in the lane that was popped
            lane_var = None
            for _, _, ev in f.events(('assign',)):
                l = cf.strip_casts(ev['lhs'])
                if l.get('k') == 'ref' and any(n.get('k') == 'mem' and n['f'] == 'unused_lanes' for n in cf.walk(ev.get('rhs') or {})) and ev['op'] == '=':
                    lane_var = l['n']
            parked = [ev for _, _, ev in f.events(('assign',)) if 'job_in_lane' in cf.chain(ev['lhs'])[1] and cf.strip_casts(ev.get('rhs') or {}).get('n') == 'job']
            okidx = bool(parked) and lane_var is not None and all(
                any(n.get('k') == 'idx' and cf.strip_casts(n['i']).get('n') == lane_var for n in cf.walk(ev['lhs'])) for ev in parked)
            r.check(okidx, key + ':submit:index', f.loc, '%s parks the job in a lane other than the one popped from unused_lanes' % fn)
            # ---- completion: every return of a non-NULL job
            rets = [(b, i, ev) for b, i, ev in f.events(('return',)) if not cf.is_int(ev.get('val'), 0)]
            r.check(len(rets) >= 1, key + ':returns', f.loc, '%s never returns a job' % fn)
            for b, i, ev in rets:
                rv = cf.strip_casts(ev['val']).get('n')
                # index variable the returned job was loaded from
                idxv = None
                for _, _, e2 in f.events(('assign',)):
                    if cf.strip_casts(e2['lhs']).get('n') == rv and 'job_in_lane' in cf.chain(e2.get('rhs') or {})[1]:
                        for n in cf.walk(e2['rhs']):
                            if n.get('k') == 'idx':
                                idxv = cf.strip_casts(n['i']).get('n')
                need = {
                    'push lane': lambda e, idxv=idxv: e['k'] == 'assign' and 'unused_lanes' in cf.chain(e['lhs'])[1] and e['op'] == '=' and
                    any(n.get('k') == 'ref' and n['n'] == idxv for n in cf.walk(e.get('rhs') or {})) and
                    any(n.get('k') == 'bin' and n['op'] == '<<' for n in cf.walk(e.get('rhs') or {})),
                    'num_lanes_inuse--': lambda e: e['k'] == 'assign' and 'num_lanes_inuse' in cf.chain(e['lhs'])[1] and e['op'] == '--',
                    'job_in_lane = NULL': lambda e, idxv=idxv: e['k'] == 'assign' and 'job_in_lane' in cf.chain(e['lhs'])[1] and cf.is_int(e.get('rhs'), 0) and
                    any(n.get('k') == 'idx' and cf.strip_casts(n['i']).get('n') == idxv for n in cf.walk(e['lhs'])),
                    'status |= COMPLETED_AUTH': lambda e, rv=rv: e['k'] == 'assign' and cf.strip_casts(e['lhs']).get('f') == 'status' and e['op'] == '|=' and
                    cf.evalc(e.get('rhs')) == AUTH and (cf.base_ref(e['lhs']) or {}).get('n') == rv,
                }
                for what, m in need.items():
                    okb = _must_before(f, b, i, m, lambda e, rv=rv: e['k'] == 'assign' and cf.strip_casts(e['lhs']).get('n') == rv)
                    r.check(okb, '%s:complete:%s' % (key, what.split(' ')[0]), ev['loc'],
                            '%s returns a completed job without `%s` on some path' % (fn, what))
            # ---- flush: idle lanes neutralised (data_ptr copied from the live lane, lens = MAX) before the kernel call
            env0 = {'is_submit': 0}
            reach = f.reachable(None, env0)
            copies = [ev for b in reach for ev in f.blocks[b]['ev'] if ev['k'] == 'assign' and 'data_ptr' in cf.chain(ev['lhs'])[1] and
                      'data_ptr' in cf.chain(ev.get('rhs') or {})[1]]
            maxes = [ev for b in reach for ev in f.blocks[b]['ev'] if ev['k'] == 'assign' and 'lens' in cf.chain(ev['lhs'])[1] and
                     cf.evalc(ev.get('rhs')) is not None and cf.evalc(ev.get('rhs')) in (-1, (1 << 64) - 1, 0xFFFF, 0xFFFFFFFF)]
            r.check(bool(copies) and bool(maxes), key + ':flush:idle', f.loc,
                    '%s (flush) does not neutralise idle lanes (data_ptr copy %d, lens=MAX %d)' % (fn, len(copies), len(maxes)))
            # the idle-lane branch is the else of `job_in_lane != NULL`
            done.add(fn)
        names = sorted(skels)
        for a, b in zip(names, names[1:]):
            sib.check(skels[a] == skels[b], '%s:%s~%s' % (tu.split('__')[1], a, b), P.func(tu, b).loc,
                      '%s and %s differ in structure: %s' % (a, b, c05._firstdiff(skels[a], skels[b])))


def normalise(sk):
    out = []
    for evs, c, succ in sk:
        evs2 = tuple(re.sub(r'sha_?\d+|SHA_?\d+|\b\d+\b', 'N', e) for e in evs)
        out.append((evs2, re.sub(r'\b\d+\b', 'N', c) if c else c, succ))
    return out


def _must_before(f, b, i, match, kill):
    """backwards from event (b,i): on every path an event matching `match` is met before the function entry or an event
    matching `kill` (re-assignment of the returned variable)"""
    seen = set()
    st = [(b, i)]
    while st:
        cb, ci = st.pop()
        evs = f.blocks[cb]['ev'][:ci] if ci is not None else f.blocks[cb]['ev']
        hit = False
        for ev in reversed(evs):
            if match(ev):
                hit = True
                break
            if kill(ev):
                return False
        if hit:
            continue
        if cb == f.entry:
            return False
        for p in f.pred[cb]:
            if p in seen:
                continue
            seen.add(p)
            st.append((p, None))
    return True


HASH_TOK = {'auth', 'hmac', 'sha', 'xcbc', 'cmac', 'eia', 'uia', 'smthree', 'md'}


def run_l2(chk, P):
    r = chk.rule('L2', 'asm managers (typed view): completing a lane job also clears its job_in_lane slot and returns the lane to '
                       'unused_lanes; submit parks the job argument in a job_in_lane slot and pops a lane', floor=120)
    t4 = chk.rule('L2b', 'asm managers set the stage bit of their own stage: cipher managers COMPLETED_CIPHER, hash managers COMPLETED_AUTH', floor=120)
    T = asmtyped.Typed(P)
    M = build.macros()
    role = {}
    for tu in P.variant_tus():
        for k, v in M[tu].items():
            if (k.startswith('SUBMIT_JOB_') or k.startswith('FLUSH_JOB_')) and v in T.results:
                role.setdefault(v, set()).add(k)
    CIPH = P.enum('IMB_STATUS_COMPLETED_CIPHER')
    AUTH = P.enum('IMB_STATUS_COMPLETED_AUTH')
    nun = 0
    for name, t, res in T.manager_functions():
        # managers whose job_in_lane lives inside ldata[lane] are addressed through computed pointers the typed view cannot follow
        top = any(nm == 'job_in_lane' for nm, o, sz, f in (T.flat(t) or [])) or \
            any('sub' in f and f.get('count') and any(x['name'] == 'job_in_lane' for x in f['sub']) for nm, o, sz, f in (T.flat(t) or []))
        is_submit = name.startswith('submit_') or any(k.startswith('SUBMIT') for k in role.get(name, ()))
        is_flush = name.startswith('flush_') or any(k.startswith('FLUSH') for k in role.get(name, ()))
        if not (is_submit or is_flush):
            continue
        facts = {'jil_zero': 0, 'jil_job': 0, 'unused': 0, 'status': []}
        for s in res['stores']:
            cl = T.classify_store(name, s)
            if not cl:
                continue
            if cl['what'] == 'arg' and cl['reg'] == 'rdi' and cl.get('field'):
                fld = cl['field']
                if cl.get('off') is not None:
                    # managers whose job_in_lane lives inside ldata[lane]: name the member inside one lane element
                    fa2 = T.field_at(cl['type'], cl['off'])
                    if fa2 and fa2[0].endswith('[].job_in_lane') and fa2[1] == 0:
                        fld = 'job_in_lane'
                if fld == 'job_in_lane':
                    if asmtyped.is_zero_store(s):
                        facts['jil_zero'] += 1
                    elif s['src'] is not None and s['src'][0] == 'E' and s['src'][1] == 'rsi':
                        facts['jil_job'] += 1
                if fld == 'unused_lanes':
                    facts['unused'] += 1
            if cl['what'] == 'loaded' and cl.get('ptype') and 'IMB_JOB' in cl['ptype'] and s['kind'] == 'or':
                fa = T.field_at('IMB_JOB', s['disp']) if s['disp'] is not None else None
                if fa and fa[0] == 'status':
                    facts['status'].append(s)
        loc = res['lines'].get(res['entry'], T.rel[name])
        if not top:
            nun += 1
            continue
        if facts['status']:
            r.check(facts['jil_zero'] >= 1 and facts['unused'] >= 1, name + ':complete', loc,
                    '%s completes a lane job (status |= ...) but %s' % (
                        name, 'never clears its job_in_lane slot' if not facts['jil_zero'] else 'never writes unused_lanes'))
        else:
            r.ok(name + ':nocomplete', 'completion bit set by a C wrapper')
        if is_submit:
            r.check(facts['jil_job'] >= 1 and facts['unused'] >= 1, name + ':park', loc,
                    '%s does not %s' % (name, 'store the job argument into a job_in_lane slot' if not facts['jil_job'] else 'pop a lane from unused_lanes'))
            if facts['status']:
                r.check(facts['unused'] >= 2, name + ':pop+push', loc, '%s writes unused_lanes %d time(s): lane popped but not returned (or vice versa)' % (name, facts['unused']))
        # stage bit
        toks = set()
        for k in role.get(name, ()) or [name]:
            toks |= set(D.raw_tokens(k))
        toks |= set(D.raw_tokens(name))
        want = AUTH if toks & HASH_TOK else CIPH
        for s in facts['status']:
            t4.check(s['imm'] == want, '%s@%#x' % (name, s['a'] - res['entry']), res['lines'].get(s['a'], T.rel[name]),
                     '%s ORs %s into job->status, expected %s for a %s manager' % (name, s['imm'], want, 'hash' if want == AUTH else 'cipher'))
    chk.extra['asm_managers_with_ldata_job_in_lane_not_followed'] = nun


def run_l3(chk, P):
    r = chk.rule('L3', 'every mode / algorithm whose jobs are parked in a manager with 16-bit lane lengths has a validation bound '
                       '<= 0xFFFF on the corresponding length', floor=30)
    M = build.macros()
    modes = P.enum_types['IMB_CIPHER_MODE']
    algs = P.enum_types['IMB_HASH_ALG']
    inv_m = {}
    for k, v in modes.items():
        inv_m.setdefault(v, k)
    inv_a = {}
    for k, v in algs.items():
        inv_a.setdefault(v, k)
    ENC = P.enum('IMB_DIR_ENCRYPT')
    for tu in P.variant_tus():
        vt = tu.split('__')[0]
        cat = guards.catalogue(P.func(tu, 'is_job_invalid'))
        acc, cond = c06.accepted_keys(P, tu, 'is_job_invalid', modes)
        oo = {f['name']: f for f in P.record('IMB_MGR')['fields'] if f['name'].endswith('_ooo')}
        # manager type per ooo field from the reset calls
        from . import inits
        rf = inits.reset_functions(P)
        ftype = {}
        if inits.reset_fn_name(P, tu):
            for _, _, ev in P.func(tu, inits.reset_fn_name(P, tu)).calls():
                if ev['e'].get('fn') in rf and ev['e']['a']:
                    ftype[cf.strip_casts(ev['e']['a'][0]).get('f')] = rf[ev['e']['fn']]['T']

        def lens16(fld):
            T_ = ftype.get(fld)
            if not T_:
                return False
            rec = P.record(T_)
            for x in rec['fields']:
                if x['name'] == 'lens' and x.get('elemsize') == 2:
                    return True
            return False

        def bound(kind, val, dirn=None):
            """smallest N with a guard `len >= N` (bytes or bits) for this mode/alg"""
            best = None
            for g in cat:
                vals = None
                for sexpr, vs in g['cases'].items():
                    if kind in sexpr:
                        vals = vs
                if vals is None or val not in vals:
                    continue
                txt = ' '.join([g['cond'] or ''] + g['ctx'])
                for m in re.finditer(r'msg_len_to_(cipher|hash)_in_(bytes|bits) >= (\d+)', g['cond'] or ''):
                    if (kind == 'cipher_mode') != (m.group(1) == 'cipher'):
                        continue
                    n = int(m.group(3))
                    if m.group(2) == 'bits':
                        n = (n + 7) // 8
                    # direction-restricted guard only counts for that direction
                    md = re.search(r'cipher_direction == (\d+)', g['cond'] or '')
                    if md and dirn is not None and int(md.group(1)) != dirn:
                        continue
                    best = n if best is None else min(best, n)
            return best
        for dirn, dtag in ((ENC, 'ENC'), (P.enum('IMB_DIR_DECRYPT'), 'DEC')):
            w = M[tu].get('SUBMIT_JOB_CIPHER_' + dtag)
            if not w or not P.has(tu, w):
                continue
            for mname, mv in sorted(modes.items(), key=lambda x: x[1]):
                if mv == 0 or mname == 'IMB_CIPHER_NUM' or inv_m[mv] != mname:
                    continue
                ks = acc.get(mv) or cond.get(mv) or [None]
                for K in sorted(k for k in ks if k is not None) or [16]:
                    calls = D.collect_calls(P, tu, w, {'cipher_mode': mv, 'key_sz': K})
                    flds = [o for o in c06.ooo_args(P, tu, calls) if lens16(o)]
                    # CBCS keeps 64-bit lengths in lens64[] of the same manager type
                    flds = [o for o in flds if 'cbcs' not in o]
                    if not flds:
                        continue
                    b = bound('cipher_mode', mv, dirn)
                    r.check(b is not None and b <= 65536, '%s:%s:%s:K%d' % (vt, mname, dtag, K), P.func(tu, 'is_job_invalid').loc,
                            '%s %s jobs are parked in %s (16-bit lane lengths) but validation bounds the cipher length by %s' % (
                                mname, dtag, flds, b), detail={'managers': flds, 'bound': b})
        w = M[tu].get('SUBMIT_JOB_HASH_EX')
        if w and P.has(tu, w):
            for aname, av in sorted(algs.items(), key=lambda x: x[1]):
                if av == 0 or aname == 'IMB_AUTH_NUM' or inv_a[av] != aname:
                    continue
                calls = D.collect_calls(P, tu, w, {'hash_alg': av})
                flds = [o for o in c06.ooo_args(P, tu, calls) if lens16(o)]
                if not flds:
                    continue
                b = bound('hash_alg', av)
                r.check(b is not None and b <= 65536, '%s:%s' % (vt, aname), P.func(tu, 'is_job_invalid').loc,
                        '%s jobs are parked in %s (16-bit lane lengths) but validation bounds the hash length by %s' % (aname, flds, b),
                        detail={'managers': flds, 'bound': b})


def run_m1(chk, P):
    """min-length coupling: the number of blocks handed to the multi-lane kernel and the amount subtracted from every lane's
    remaining length derive from the same lane-minimum search(es) on every path"""
    r = chk.rule('M1', 'in every out-of-order manager routine the length argument of the multi-lane kernel call and the vector subtracted '
                       'from the lane lengths before it originate from the same (v)phminposuw result(s) (a lane whose counter drops by more '
                       'than the kernel processed is completed early with a wrong result)', floor=60)
    from .. import asmfacts
    nsub_only = ncall_only = 0
    for rel, name, res in asmfacts.all_functions():
        subs = sorted((n[1], frozenset(n[2])) for n in res['notes'] if n[0] == 'minsub')
        calls = sorted((n[1], n[2], n[3]) for n in res['notes'] if n[0] == 'callpv')
        if not subs or not calls:
            nsub_only += bool(subs)
            ncall_only += bool(calls)
            continue
        prev = res['entry'] - 1
        for ca, tgt, regs in calls:
            mine = [(a, pv) for a, pv in subs if prev < a < ca]
            prev = ca
            if not mine:
                continue
            # which argument register carries the length is the callee's convention (arg2 for the hash / AES kernels, r8 for ZUC);
            # registers holding a stale intermediate minimum may also carry provenance: the subtrahend must agree with one of them
            key = '%s@%#x' % (name, ca - res['entry'])
            loc = res['lines'].get(ca, rel)
            fmt = lambda st: '{%s}' % ', '.join(('+%#x' % (x - res['entry'])) if isinstance(x, int) else 'other' for x in sorted(st, key=str))
            sets = {reg: frozenset(pv) for reg, pv in regs.items()}
            bad = [(a, spv) for a, spv in mine if spv not in sets.values()]
            r.check(not bad, key, loc,
                    '%s: the vector subtracted from the lane lengths at +%#x derives from the lane-minimum search(es) %s, but no argument of %s '
                    'does (%s): the kernel processes a different number of blocks than the lanes are charged' % (
                        name, (bad[0][0] - res['entry']) if bad else 0, fmt(bad[0][1]) if bad else '', tgt,
                        ', '.join('%s %s' % (rg, fmt(pv)) for rg, pv in sorted(sets.items()))),
                    detail={'kernel': tgt})
    chk.extra['m1_routines_with_only_a_subtraction'] = nsub_only
    chk.extra['m1_routines_with_only_a_kernel_length'] = ncall_only


def run(chk):
    P = cf.Program()
    chk.explanation = ('NOT decided: that lane contents never influence another lane inside the SIMD kernels, and that min-length scheduling '
                       'arithmetic is right for every occupancy (value-level). Decided (lane bookkeeping; breaking any of it corrupts or loses '
                       'co-scheduled jobs): the C multi-buffer managers pop/park on submit and push/clear/complete on every completed return, '
                       'and neutralise idle lanes on flush; every assembled out-of-order manager with a job_in_lane array that completes a '
                       'job also clears its slot and returns the lane, submit parks the job argument, and the stage bit is the manager\'s own; '
                       'every mode or algorithm parked in a manager with 16-bit lane lengths is bounded by validation; the block count handed to '
                       'the multi-lane kernel and the amount subtracted from all lane lengths derive from the same lane-minimum search '
                       '(provenance domain over the assembled routines).')
    run_l1(chk, P)
    run_l2(chk, P)
    run_l3(chk, P)
    run_m1(chk, P)
    from . import clones
    clones.rule_defuse(chk, 'D1', 'D2', ('mgr',), floor=50)
    clones.rule_tables(chk, 'N5', ('mgr',), floor=20)
    clones.rule_unreachable(chk, 'U1', ('mgr',), floor=20)
    clones.rule_insert_ladders(chk, 'N6', ('mgr',), floor=100)
    clones.rule_progressions(chk, 'N10')
    from . import twins
    twins.rule_common_flag(chk, P, 'Z1', floor=6)
    run_lanes(chk, P)


def run_lanes(chk, P):
    """V1 / V2: lane association in the assembled multi-buffer routines (imbv/lanes.py)"""
    from .. import lanes
    v1 = chk.rule('V1', 'a vector stored through the pointer of lane m of a per-lane pointer array (args.out[m], args.digest...) holds data of lane m '
                        'only — followed through the transposition networks (unpack / shuffle / insert / extract modelled exactly, everything else '
                        'element-wise); stores whose value is unknown are not decided', floor=400)
    v2 = chk.rule('V2', 'a per-lane pointer written back into a pointer array goes into the element it was loaded from', floor=20)
    res = lanes.analyse_all(P)
    for name, (rel, L) in sorted(res.items()):
        vec = [f for f in L.findings if f[1] == 'vec']
        ptr = [f for f in L.findings if f[1] == 'ptr']
        v1.instances += max(0, L.checked_stores - 1)
        v1.check(not vec, name, rel, '%s: %s' % (name, '; '.join('%#x %s' % (a, m) for a, _, m in vec[:4])))
        if L.checked_ptr_stores:
            v2.instances += max(0, L.checked_ptr_stores - 1)
            v2.check(not ptr, name, rel, '%s: %s' % (name, '; '.join('%#x %s' % (a, m) for a, _, m in ptr[:4])))
    chk.extra['lane_functions'] = len(res)
