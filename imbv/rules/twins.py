"""Twin arms: an `if` whose two arms call the same routines up to instruction-set tokens in their names (`_gfni` / `_no_gfni`, `_sse` /
`_avx`, ...) selects between two implementations of one step.  The arms are copies of one another, so the decisions taken inside
them (nested if / loop conditions, rendered with locals abstracted) must be the same: a guard edited in one arm only makes the
variants behave differently for the inputs that guard separates.  Contradiction rule, no baseline."""
import collections
import re

from .. import cf, guards

TOK = re.compile(r'_(no_gfni|gfni|vaes|vclmul|ni|shani|sse|avx512|avx2|avx|by8|by16|x4|x8|x16|t\d)(?=_|$)')


def stem(n):
    while True:
        s = TOK.sub('', n)
        if s == n:
            return s
        n = s


def _operands(e):
    """rendered non-constant operands of the comparisons in a condition"""
    out = set()
    e = cf.strip_casts(e)
    if not isinstance(e, dict):
        return out
    if e.get('k') == 'bin' and e['op'] in ('&&', '||'):
        return _operands(e['l']) | _operands(e['r'])
    if e.get('k') == 'un' and e.get('op') == '!':
        return _operands(e['e'])
    if e.get('k') == 'bin' and e['op'] in ('==', '!=', '<', '<=', '>', '>='):
        for side in (e['l'], e['r']):
            if cf.evalc(side) is None:
                out.add(guards.lv(side))
        return out
    out.add(guards.lv(e))
    return out


def twin_ifs(P):
    """yield (func, block id, terminator, [features of arm 0, features of arm 1]); features = (callee stems, raw callees, conditions)"""
    seen = set()
    for tu in P.tus():
        for f in P.funcs(tu):
            if (f.name, f.loc) in seen:
                continue
            seen.add((f.name, f.loc))
            dom = None
            for bid, b in f.blocks.items():
                t = b.get('term')
                if not t or t['kind'] != 'IfStmt':
                    continue
                su = b['succ']
                if len(su) != 2 or None in su or su[0] == su[1]:
                    continue
                if f.pred[su[0]] != [bid] or f.pred[su[1]] != [bid]:
                    continue
                if dom is None:
                    dom = f.dominators()
                feats = []
                for s in su:
                    calls, raw, conds = collections.Counter(), collections.Counter(), collections.Counter()
                    with guards.in_function(f, abstract=True):
                        for x in f.blocks:
                            if s not in dom.get(x, ()):
                                continue
                            for ev in f.blocks[x]['ev']:
                                if ev['k'] == 'call' and ev['e'].get('fn'):
                                    calls[stem(ev['e']['fn'])] += 1
                                    raw[ev['e']['fn']] += 1
                            tt = f.blocks[x].get('term')
                            if tt and tt['kind'] in ('IfStmt', 'WhileStmt', 'ForStmt', 'DoStmt') and ('fullcond' in tt or 'cond' in tt):
                                conds[(tt['kind'], guards.canon(guards.expand(f, tt.get('fullcond') or tt.get('cond'), x)))] += 1
                    feats.append((calls, raw, conds))
                (c0, r0, k0), (c1, r1, k1) = feats
                if c0 and c0 == c1 and r0 != r1:
                    # an else-if chain re-tests the selector inside an arm: that is a dispatch over one discriminant, not a pair of twins
                    with guards.in_function(f, abstract=True):
                        sel = _operands(guards.expand(f, t.get('fullcond') or t.get('cond') or {}, bid))
                    nested = ' '.join(k[1] for k in list(k0) + list(k1))
                    if any(o and o in nested for o in sel):
                        continue
                    yield f, bid, t, feats


def rule_twin_arms(chk, P, rid, floor=10):
    r = chk.rule(rid, 'the two arms of an `if` that call the same routines up to instruction-set tokens (`_gfni`/`_no_gfni`, ...) take the '
                      'same nested decisions: a guard is not edited in one arm only', floor=floor)
    for f, bid, t, feats in twin_ifs(P):
        k0, k1 = feats[0][2], feats[1][2]
        key = '%s@%s' % (f.name, (t.get('loc') or '').split('/')[-1])
        if k0 == k1:
            r.ok(key, sum(k0.values()))
            continue
        only0 = sorted('%s %s' % k for k in (k0 - k1))
        only1 = sorted('%s %s' % k for k in (k1 - k0))
        r.bad(key, t.get('loc') or f.loc,
              '%s: the arms of the `if` at %s call the same routines (%s / %s) but decide differently: only the first arm has %s; only the '
              'second has %s' % (f.name, t.get('loc'), ', '.join(sorted(feats[0][1])[:3]), ', '.join(sorted(feats[1][1])[:3]),
                                 only0 or 'nothing', only1 or 'nothing'))


# ------------------------------------------------------------------------------------------------------------------------------
# Z1: shortened-last-round selection in multi-lane C routines

def _one_call(f, s):
    evs = [ev for ev in f.blocks[s]['ev'] if ev['k'] in ('call', 'assign', 'return')]
    calls = [ev for ev in evs if ev['k'] == 'call' and ev['e'].get('fn')]
    return calls[0] if len(evs) == 1 and len(calls) == 1 else None


def selection_ifs(f):
    """`if (c) gen_short(...); else gen_full(...);` — both arms are one call, to the same routine with one differing constant argument or to
    routines whose names differ only in a number (8B / 16B / 32B / 64B)"""
    for bid, b in f.blocks.items():
        t = b.get('term')
        if not t or t['kind'] != 'IfStmt':
            continue
        su = b['succ']
        if len(su) != 2 or None in su or su[0] == su[1]:
            continue
        a, c = _one_call(f, su[0]), _one_call(f, su[1])
        if a is None or c is None:
            continue
        na, nc = a['e']['fn'], c['e']['fn']
        if re.sub(r'\d+', 'N', na) != re.sub(r'\d+', 'N', nc):
            continue
        A, C = a['e'].get('a', []), c['e'].get('a', [])
        if len(A) != len(C):
            continue
        if na == nc:
            diff = [i for i in range(len(A)) if guards.lv(A[i]) != guards.lv(C[i])]
            if len(diff) != 1:
                continue
        yield bid, t, a, c


def _cond_refs(f, bid, t):
    e = t.get('fullcond') or t.get('cond') or {}
    try:
        e = guards.expand(f, e, bid)      # a condition kept in a single-definition local counts as written out
    except Exception:
        pass
    return {nd['n'] for nd in cf.walk(e) if nd.get('k') == 'ref' and not nd.get('g')}


def pure_flags(f):
    """scalar integer locals that only ever steer control flow: never assigned anything but constants, read nowhere but in branch
    conditions, and set either by constant assignments of both 0 and 1 or by a callee through their address (an out-parameter)"""
    locs = {}
    for _, _, ev in f.events(('decl',)):
        for d in ev['d']:
            ty = d.get('ty', '')
            if re.match(r'^(const )?(unsigned( int)?|int|uint(8|16|32|64)_t|unsigned char|bool|_Bool)$', ty):
                locs[d['n']] = d
    if not locs:
        return set()
    bad = set()
    consts = collections.defaultdict(set)
    outp = set()
    for _, _, ev in f.events():
        if ev['k'] == 'assign':
            br = cf.base_ref(ev['lhs'])
            tgt = br['n'] if br is not None and cf.strip_casts(ev['lhs']).get('k') == 'ref' else None
            if tgt in locs:
                v = cf.evalc(ev.get('rhs') or ev.get('val') or {})
                if v is None or ev.get('op') not in (None, '='):
                    bad.add(tgt)
                else:
                    consts[tgt].add(int(v))
            for nd in cf.walk(ev.get('rhs') or ev.get('val') or {}):
                if nd.get('k') == 'ref' and nd['n'] in locs:
                    bad.add(nd['n'])
            if tgt is None:
                for nd in cf.walk(ev.get('lhs') or {}):
                    if nd.get('k') == 'ref' and nd['n'] in locs:
                        bad.add(nd['n'])
        elif ev['k'] == 'decl':
            for d in ev['d']:
                if d['n'] in locs and d.get('init') is not None:
                    v = cf.evalc(d['init'])
                    if v is None:
                        bad.add(d['n'])
                    else:
                        consts[d['n']].add(int(v))
                for nd in cf.walk(d.get('init') or {}):
                    if nd.get('k') == 'ref' and nd['n'] in locs and nd['n'] != d['n']:
                        # `&flag` handed to an initialising call is an out-parameter, anything else is a data use
                        pass
        elif ev['k'] in ('call', 'return'):
            pass
    # calls anywhere (also inside initialisers): `&flag` is an out-parameter, a by-value use is a data use
    for _, _, ev in f.events():
        for key in ('e', 'rhs', 'val', 'lhs'):
            x = ev.get(key)
            if not x:
                continue
            for nd in cf.walk(x):
                if nd.get('k') == 'call':
                    for a in nd.get('a', []):
                        s = cf.strip_casts(a)
                        if isinstance(s, dict) and s.get('k') == 'un' and s.get('op') == '&':
                            tt = cf.strip_casts(s['e'])
                            if isinstance(tt, dict) and tt.get('k') == 'ref' and tt['n'] in locs:
                                outp.add(tt['n'])
                                continue
                        for m in cf.walk(a):
                            if m.get('k') == 'ref' and m['n'] in locs:
                                bad.add(m['n'])
        if ev['k'] == 'decl':
            for d in ev['d']:
                for nd in cf.walk(d.get('init') or {}):
                    if nd.get('k') == 'call':
                        for a in nd.get('a', []):
                            s = cf.strip_casts(a)
                            if isinstance(s, dict) and s.get('k') == 'un' and s.get('op') == '&':
                                tt = cf.strip_casts(s['e'])
                                if isinstance(tt, dict) and tt.get('k') == 'ref' and tt['n'] in locs:
                                    outp.add(tt['n'])
        if ev['k'] == 'return':
            for nd in cf.walk(ev.get('e') or ev.get('val') or {}):
                if nd.get('k') == 'ref' and nd['n'] in locs:
                    bad.add(nd['n'])
    res = set()
    for n in locs:
        if n in bad:
            continue
        if n in outp or {0, 1} <= consts[n]:
            res.add(n)
    return res


def _loop_depth(f):
    """{block: number of loops it lies in}; a loop is given by its header h (target of a back edge): the blocks h dominates that reach h"""
    dom = f.dominators()
    reach = {}
    for b in f.blocks:
        seen, st = set(), [x for x in f.blocks[b]['succ'] if x is not None]
        while st:
            x = st.pop()
            if x in seen:
                continue
            seen.add(x)
            st.extend(y for y in f.blocks[x]['succ'] if y is not None)
        reach[b] = seen
    heads = {h for h in f.blocks for p in f.pred.get(h, []) if h in dom.get(p, ())}
    return {b: sum(1 for h in heads if h in dom.get(b, ()) and h in reach[b]) for b in f.blocks}


Z1_BASELINE = None


def _z1_baseline_path():
    import os
    return os.path.join(os.path.dirname(os.path.dirname(os.path.abspath(__file__))), 'data', 'z1_baseline.json')


def _guarded_selections(P):
    """{function: (number of once-for-all-lanes short/full selections that read an all-lanes flag, [unguarded selection sites], flags)}"""
    res = {}
    seen = set()
    for tu in P.tus():
        for f in P.funcs(tu):
            if (f.name, f.loc) in seen:
                continue
            seen.add((f.name, f.loc))
            sel = list(selection_ifs(f))
            if not sel:
                continue
            flags = pure_flags(f)
            depth = _loop_depth(f)
            guarded, unguarded = 0, []
            for bid, t, a, c in sel:
                if depth.get(bid) != 1:
                    continue
                if _cond_refs(f, bid, t) & flags:
                    guarded += 1
                else:
                    unguarded.append((bid, t, a, c))
            res[f.name] = (guarded, unguarded, flags, f)
    return res


def write_z1_baseline(P):
    import json
    cur = _guarded_selections(P)
    with open(_z1_baseline_path(), 'w') as fh:
        json.dump({'what': 'per function: number of short/full keystream-round selections (made once for all lanes) that read the all-lanes-end-'
                           'together flag on the reference tree', 'functions': {k: v[0] for k, v in sorted(cur.items()) if v[0]}}, fh, indent=0)
    return sum(1 for v in cur.values() if v[0])


def rule_common_flag(chk, P, rid, floor=5):
    """frozen from three seeded changes that dropped the same conjunct: the multi-lane ZUC-EIA3 C routines shorten the last common keystream
    round only if every lane ends there (the per-lane tail assumes a full round otherwise); the routine states that belief by keeping an
    all-lanes-equal flag, so every selection between the short and the full generation call that the minimum length steers must read it.
    The functions that did so on the reference tree must still do so (the flag cannot simply be removed together with its test)"""
    import json
    import os
    r = chk.rule(rid, 'in a routine that keeps an all-lanes-end-together flag (a scalar local that only steers control flow), every `if` inside a '
                      'loop that selects between a short and a full round of the same generation call reads that flag, and the routines that '
                      'guarded that choice on the reference tree still do: lanes longer than the shortest must not be given a shortened round', floor=floor)
    base = {}
    if os.path.exists(_z1_baseline_path()):
        base = json.load(open(_z1_baseline_path()))['functions']
    else:
        chk.broken('Z1 baseline missing')
        return
    cur = _guarded_selections(P)
    for name, (guarded, unguarded, flags, f) in sorted(cur.items()):
        if flags:
            for bid, t, a, c in unguarded:
                r.bad('%s@%s' % (name, (t.get('loc') or '').split('/')[-1]), t.get('loc') or f.loc,
                      '%s: the choice between %s and %s at %s does not read the routine\'s all-lanes-equal flag (%s): a lane longer than the '
                      'shortest one gets a shortened keystream round' % (name, a['e']['fn'] + '(' + ', '.join(guards.lv(x) for x in a['e'].get('a', [])) + ')',
                                                                       c['e']['fn'] + '(...)', t.get('loc'), ', '.join(sorted(flags))))
        want = base.get(name, 0)
        if want or guarded:
            # a routine that made the choice under the flag on the reference tree still makes it under the flag (how many selection sites it
            # has is free: two ISA arms may be merged into one helper call)
            r.check(guarded >= min(want, 1), name, f.loc, '%s no longer guards its short/full keystream-round selection with an all-lanes flag; on '
                                                          'the reference tree it does (the flag and its test were removed together)' % name)


# ------------------------------------------------------------------------------------------------------------------------------
# X3: constant arguments of per-architecture wrapper families

def _arch_groups(P):
    from . import c13
    groups = {}
    seen = set()
    for tu in P.tus():
        for f in P.funcs(tu):
            if (f.name, f.loc) in seen:
                continue
            seen.add((f.name, f.loc))
            st = c13.ARCH_SUFFIX.sub('', f.name)
            if st != f.name:
                groups.setdefault(st, []).append(f)
    return {k: v for k, v in groups.items() if len({x.loc.split(':')[0] for x in v}) >= 2}


def rule_wrapper_constants(chk, P, rid, floor=100):
    """the per-architecture wrapper files (sha_sse.c / sha_avx2.c / sha_avx512.c, sha_mb_*.c, the chacha20-poly1305 entry points, ...) hold
    one thin function per (algorithm, architecture) that passes constants to a shared worker.  Arranged as a matrix file x algorithm, a constant
    argument is either a property of the architecture (equal down a file: the arch selector) or of the algorithm (equal along a row: block size,
    pad size, digest selector).  A cell that fits neither is a constant copied from the wrong sibling."""
    r = chk.rule(rid, 'in a family of per-architecture wrapper functions every constant argument handed to the shared worker is either the '
                      'architecture\'s (equal for all algorithms of that file) or the algorithm\'s (equal for all architectures): no cell deviates from both', floor=floor)
    groups = _arch_groups(P)
    fams = {}
    for st, members in groups.items():
        files = tuple(sorted({m.loc.split(':')[0] for m in members}))
        fams.setdefault(files, {})[st] = members
    for files, stems in sorted(fams.items()):
        if len(stems) < 3 or len(files) < 2:
            continue
        # cells[(callee stem, arg index)][stem][file] = constant
        cells = {}
        where = {}
        for st, members in stems.items():
            for f in members:
                fl = f.loc.split(':')[0]
                per = {}
                for b, i, ev in f.events(('call',)):
                    fn = ev['e'].get('fn')
                    if not fn:
                        continue
                    cs = re.sub(r'\d+', 'N', stem(fn))
                    per.setdefault(cs, []).append(ev)
                for cs, evs in per.items():
                    if len(evs) != 1:
                        continue
                    for ai, a in enumerate(evs[0]['e'].get('a', [])):
                        v = cf.evalc(a)
                        if v is not None:
                            cells.setdefault((cs, ai), {}).setdefault(st, {})[fl] = int(v)
                            where[(cs, ai, st, fl)] = (f, evs[0])
        for (cs, ai), mat in sorted(cells.items()):
            rows = {st: row for st, row in mat.items() if len(row) >= 2}
            if len(rows) < 3:
                continue
            row_const = sum(1 for row in rows.values() if len(set(row.values())) == 1)
            cols = {}
            for st, row in rows.items():
                for fl, v in row.items():
                    cols.setdefault(fl, {})[st] = v
            col_const = sum(1 for c in cols.values() if len(c) >= 2 and len(set(c.values())) == 1)
            ncols = sum(1 for c in cols.values() if len(c) >= 2)
            per_stem = row_const >= max(2, 0.6 * len(rows))
            per_file = ncols >= 2 and col_const >= max(2, 0.6 * ncols)
            if per_stem == per_file:
                continue        # both (one constant everywhere) or neither (lane counts): nothing to say
            for st, row in sorted(rows.items()):
                for fl, v in sorted(row.items()):
                    f, ev = where[(cs, ai, st, fl)]
                    key = '%s:%s#%d' % (f.name, cs, ai)
                    if per_stem:
                        vals = list(row.values())
                        maj = max(set(vals), key=vals.count)
                        ok = v == maj or vals.count(maj) < 2
                        kind = 'the algorithm\'s (its architecture siblings pass %s)' % maj
                    else:
                        vals = list(cols[fl].values())
                        maj = max(set(vals), key=vals.count)
                        ok = v == maj or vals.count(maj) < 2
                        kind = 'the architecture\'s (the other functions of %s pass %s)' % (fl.split('/')[-1], maj)
                    r.check(ok, key, ev['loc'], '%s passes %d as argument %d of %s; in this wrapper family that argument is %s' % (
                        f.name, v, ai, ev['e'].get('fn'), kind))


# ------------------------------------------------------------------------------------------------------------------------------
# K1: key-size / direction tokens of C functions and their callees

_KS = re.compile(r'(?<![0-9])(128|192|256)(?![0-9])')


def _dirs(name):
    return {t[:3] for t in re.split(r'_+', name) if t in ('enc', 'dec', 'encrypt', 'decrypt')}


def rule_token_agreement(chk, P, rid, floor=150):
    r = chk.rule(rid, 'a C function named for one AES key size (128/192/256) or one direction (enc/dec) only calls routines named for the same '
                      'key size / direction (thin per-size wrappers around the assembly kernels: a copy-pasted callee of the sibling size)', floor=floor)
    seen = set()
    for tu in P.tus():
        for f in P.funcs(tu):
            if (f.name, f.loc) in seen:
                continue
            seen.add((f.name, f.loc))
            ks = set(_KS.findall(f.name))
            d = _dirs(f.name)
            for b, i, ev in f.events(('call',)):
                fn = ev['e'].get('fn')
                if not fn:
                    # a call through one of the manager's function pointers: the slot name carries the tokens (gcm192_dec_update)
                    c = ev['e'].get('callee')
                    if isinstance(c, dict) and c.get('k') == 'mem' and 'IMB_MGR' in (c.get('rec') or ''):
                        fn = re.sub(r'([a-z])(128|192|256)', r'\1_\2', c.get('f') or '')
                if not fn:
                    continue
                if 'finalize' in fn and len(d) == 1:
                    # the GCM tag computation is the same in both directions; decrypt code legitimately uses the enc_finalize slot
                    d_here = set()
                else:
                    d_here = d
                if len(ks) == 1:
                    k2 = set(_KS.findall(fn))
                    if k2:
                        r.check(k2 == ks, '%s->%s:size' % (f.name, fn), ev['loc'],
                                '%s (key size %s) calls %s (key size %s)' % (f.name, '/'.join(sorted(ks)), fn, '/'.join(sorted(k2))))
                if len(d_here) == 1:
                    d2 = _dirs(fn)
                    if len(d2) == 1:
                        r.check(d2 == d, '%s->%s:dir' % (f.name, fn), ev['loc'],
                                '%s (%s) calls %s (%s)' % (f.name, '/'.join(d), fn, '/'.join(d2)))


# ------------------------------------------------------------------------------------------------------------------------------
# X5: copies of one routine within a file (names equal up to numbers: sha1_/sha256_/sha512_create_extra_blocks, submit_flush_job_sha_1/256/512)

import json as _json
import os as _os

COPY_BASELINE = _os.path.join(_os.path.dirname(_os.path.dirname(_os.path.abspath(__file__))), 'data', 'copy_siblings_baseline.json')


def _norm_digits(s):
    return re.sub(r'\d+', 'N', s)


def _copy_features(f):
    conds, calls = collections.Counter(), collections.Counter()
    with guards.in_function(f, abstract=True):
        for bid, b in f.blocks.items():
            t = b.get('term')
            # loop statements are left out: `while (n--)` and `for (i = 0; i < n; i++)` are the same loop
            if t and ('fullcond' in t or 'cond' in t) and t['kind'] == 'IfStmt':
                conds[t['kind'] + ' ' + _norm_digits(guards.canon(guards.expand(f, t.get('fullcond') or t.get('cond'), bid)))] += 1
        for b, i, ev in f.events(('call',)):
            fn = ev['e'].get('fn') or (ev['e'].get('callee') or {}).get('f') or '?'
            calls[_norm_digits(fn)] += 1
    return conds, calls


def copy_groups(P):
    groups = {}
    seen = set()
    for tu in P.tus():
        for f in P.funcs(tu):
            if (f.name, f.loc) in seen:
                continue
            seen.add((f.name, f.loc))
            st = _norm_digits(f.name)
            if st != f.name:
                groups.setdefault((_os.path.basename(f.loc.split(':')[0]), st), []).append(f)
    return {k: v for k, v in groups.items() if len({m.name for m in v}) >= 2}


def write_copy_baseline(P):
    agree = []
    for (fl, st), ms in sorted(copy_groups(P).items()):
        fs = [_copy_features(m) for m in ms]
        if all(x == fs[0] for x in fs):
            agree.append([fl, st])
    with open(COPY_BASELINE, 'w') as fh:
        _json.dump({'what': 'groups of functions of one file whose names differ only in numbers and which take the same decisions and call the '
                            'same routines (up to numbers) on the reference tree', 'groups': agree}, fh, indent=0)
    return len(agree)


def rule_copy_siblings(chk, P, rid, floor=100):
    r = chk.rule(rid, 'copies of one routine within a file (names equal up to numbers) that take the same decisions and call the same routines on the '
                      'reference tree still do: an edit to one copy only (a guard, a dropped call, a constant put where the size parameter '
                      'stood) is a deviation', floor=floor)
    if not _os.path.exists(COPY_BASELINE):
        chk.broken('copy-sibling baseline missing')
        return
    base = {tuple(x) for x in _json.load(open(COPY_BASELINE))['groups']}
    for key, ms in sorted(copy_groups(P).items()):
        if key not in base:
            continue
        fs = [(m, _copy_features(m)) for m in ms]
        # the majority form is the reference; with two members either may be the edited one
        forms = collections.Counter(repr(sorted(x[1][0].items())) + repr(sorted(x[1][1].items())) for x in fs)
        major = forms.most_common(1)[0][0]
        for m, ft in fs:
            mine = repr(sorted(ft[0].items())) + repr(sorted(ft[1].items()))
            if mine == major:
                r.ok('%s:%s' % (key[0], m.name), len(ms))
                continue
            other = next(x for x in fs if repr(sorted(x[1][0].items())) + repr(sorted(x[1][1].items())) == major)
            dc = sorted('%s x%d' % (k, v) for k, v in (ft[0] - other[1][0]).items()) + sorted('%s x%d' % (k, v) for k, v in (ft[1] - other[1][1]).items())
            oc = sorted('%s x%d' % (k, v) for k, v in (other[1][0] - ft[0]).items()) + sorted('%s x%d' % (k, v) for k, v in (other[1][1] - ft[1]).items())
            r.bad('%s:%s' % (key[0], m.name), m.loc, '%s differs from its copy %s: only here %s; only there %s' % (
                m.name, other[0].name, dc[:4] or '-', oc[:4] or '-'))


# ------------------------------------------------------------------------------------------------------------------------------
# X4: field-by-field copies between records of the same shape

def _field_path(e):
    """(record, field, first constant index or None) of the outermost member access of an lvalue/rvalue like s.f[3][i], p->f"""
    e = cf.strip_casts(e)
    idx = []
    while isinstance(e, dict) and e.get('k') == 'idx':
        idx.append(cf.evalc(e['i']))
        e = cf.strip_casts(e['b'])
    if isinstance(e, dict) and e.get('k') == 'mem':
        consts = [x for x in reversed(idx) if x is not None]
        return e.get('rec') or '', e.get('f') or '', (consts[0] if consts else None)
    return None


def rule_field_copies(chk, P, rid, floor=100):
    r = chk.rule(rid, 'in a block that copies one record field by field into a record of another type (three or more statements copying a field '
                      'onto the field of the same name), every statement copies a field, and a constant element, onto itself: '
                      '`dst.fR2 = src.fR1[i]` is a copy-paste slip', floor=floor)
    seen = set()
    for tu in P.tus():
        for f in P.funcs(tu):
            if (f.name, f.loc) in seen:
                continue
            seen.add((f.name, f.loc))
            pairs = {}
            for b, i, ev in f.events(('assign',)):
                if ev.get('op') not in (None, '='):
                    continue
                l, rr = _field_path(ev['lhs']), _field_path(ev.get('rhs') or {})
                if not l or not rr or not l[0] or not rr[0] or l[0] == rr[0]:
                    continue
                pairs.setdefault((l[0], rr[0]), []).append((ev, l, rr))
            for (lt, rt), lst in pairs.items():
                same = sum(1 for ev, l, rr in lst if l[1] == rr[1])
                if same < 3:
                    continue
                for ev, l, rr in lst:
                    ok = l[1] == rr[1] and (l[2] is None or rr[2] is None or l[2] == rr[2])
                    r.check(ok, '%s@%s' % (f.name, ev['loc'].split('/')[-1]), ev['loc'],
                            '%s: %s = %s copies field `%s`%s of %s onto field `%s`%s of %s in a block of same-name field copies' % (
                                f.name, guards.lv(ev['lhs']), guards.lv(ev['rhs']), rr[1], '' if rr[2] is None else '[%d]' % rr[2], rt,
                                l[1], '' if l[2] is None else '[%d]' % l[2], lt))


# ------------------------------------------------------------------------------------------------------------------------------
# X6: per-architecture siblings (names equal up to instruction-set tokens, defined in different files)

ARCH_BASELINE = _os.path.join(_os.path.dirname(COPY_BASELINE), 'arch_siblings_baseline.json')


def _arch_features(f):
    conds, calls = collections.Counter(), collections.Counter()
    with guards.in_function(f, abstract=True):
        for bid, b in f.blocks.items():
            t = b.get('term')
            if t and ('fullcond' in t or 'cond' in t) and t['kind'] == 'IfStmt':
                conds[t['kind'] + ' ' + _norm_digits(guards.canon(guards.expand(f, t.get('fullcond') or t.get('cond'), bid)))] += 1
        for b, i, ev in f.events(('call',)):
            fn = ev['e'].get('fn') or (ev['e'].get('callee') or {}).get('f') or '?'
            calls[_norm_digits(stem(fn))] += 1
    return conds, calls


def _token_groups(P):
    groups = {}
    seen = set()
    for tu in P.tus():
        for f in P.funcs(tu):
            if (f.name, f.loc) in seen:
                continue
            seen.add((f.name, f.loc))
            st = stem(f.name)
            if st != f.name:
                # the dispatcher of an architecture (init_mb_mgr_avx2_internal) and its type-specific functions (.._avx2_t1_internal) are
                # different roles
                groups.setdefault(st + ('#type' if re.search(r'_t\d(_|$)', f.name) else ''), []).append(f)
    return {k: v for k, v in groups.items() if len({x.loc.split(':')[0] for x in v}) >= 2}


def arch_sibling_groups(P):
    res = {}
    for st, ms in _token_groups(P).items():
        by_name = {}
        for m in ms:
            by_name.setdefault((m.name, m.loc.split(':')[0]), m)
        if len(by_name) >= 2:
            res[st] = list(by_name.values())
    return res


def write_arch_baseline(P):
    agree = []
    for st, ms in sorted(arch_sibling_groups(P).items()):
        fs = [_arch_features(m) for m in ms]
        if all(x == fs[0] for x in fs):
            agree.append(st)
    with open(ARCH_BASELINE, 'w') as fh:
        _json.dump({'what': 'functions defined once per architecture (names equal up to instruction-set tokens) that take the same decisions and '
                            'call the same routines (up to those tokens and numbers) on the reference tree', 'groups': agree}, fh, indent=0)
    return len(agree)


def rule_arch_siblings(chk, P, rid, floor=60):
    r = chk.rule(rid, 'the per-architecture versions of one function (init_mb_mgr_sse/avx2/avx512, submit_snow3g_uea2_job_<variant>, ...) that '
                      'take the same decisions and make the same calls on the reference tree still do: a guard or a call dropped in one '
                      'architecture only makes that variant behave differently', floor=floor)
    if not _os.path.exists(ARCH_BASELINE):
        chk.broken('architecture-sibling baseline missing')
        return
    base = set(_json.load(open(ARCH_BASELINE))['groups'])
    for st, ms in sorted(arch_sibling_groups(P).items()):
        if st not in base:
            continue
        fs = [(m, _arch_features(m)) for m in ms]
        forms = collections.Counter(repr(sorted(x[1][0].items())) + repr(sorted(x[1][1].items())) for x in fs)
        major = forms.most_common(1)[0][0]
        for m, ft in fs:
            mine = repr(sorted(ft[0].items())) + repr(sorted(ft[1].items()))
            if mine == major:
                r.ok('%s:%s@%s' % (st, m.name, _os.path.basename(m.loc.split(':')[0])), len(ms))
                continue
            other = next(x for x in fs if repr(sorted(x[1][0].items())) + repr(sorted(x[1][1].items())) == major)
            dc = sorted('%s x%d' % (k, v) for k, v in (ft[0] - other[1][0]).items()) + sorted('%s x%d' % (k, v) for k, v in (ft[1] - other[1][1]).items())
            oc = sorted('%s x%d' % (k, v) for k, v in (other[1][0] - ft[0]).items()) + sorted('%s x%d' % (k, v) for k, v in (other[1][1] - ft[1]).items())
            r.bad('%s:%s@%s' % (st, m.name, _os.path.basename(m.loc.split(':')[0])), m.loc, '%s differs from its sibling %s: only here %s; only there %s' % (
                m.name, other[0].name, dc[:4] or '-', oc[:4] or '-'))


# ------------------------------------------------------------------------------------------------------------------------------
# X7: numbered parallel variables (a1/a2, b1/b2, pBufferIn1..4, ctx1/ctx2): a statement stays within its own index

_NUMVAR = re.compile(r'^([A-Za-z_]\w*?)(\d)$')
LANE_SUFFIX_EXCEPT = {
    ('S2_box_2', 'x'): 'the two outputs are extracted from one packed result m1 (elements 0 and 1)',
    ('snow3gStateInitialize_1', 'FSM'): 'FSM register R3 takes the S2 box output of R2 (the SNOW3G FSM update itself)',
}


def rule_lane_suffix(chk, P, rid, floor=60):
    r = chk.rule(rid, 'in a function that keeps parallel numbered variables (a1/a2, b1/b2, pBufferIn1..4) a statement that updates a variable of index i '
                      'reads numbered variables of index i only; moving a whole lane (`x1 = x2`) is the one accepted cross-index form', floor=floor)
    seen = set()
    for tu in P.tus():
        for f in P.funcs(tu):
            if (f.name, f.loc) in seen:
                continue
            seen.add((f.name, f.loc))
            names = set(p['name'] for p in (f.raw.get('params') or []))
            for _, _, ev in f.events(('decl',)):
                for d in ev['d']:
                    names.add(d['n'])
            fam = {}
            for n in names:
                m = _NUMVAR.match(n)
                if m:
                    fam.setdefault(m.group(1), set()).add(int(m.group(2)))
            fams = {k for k, v in fam.items() if len(v) >= 2}
            if not fams:
                continue
            for b, i, ev in f.events(('assign',)):
                br = cf.base_ref(ev['lhs'])
                if br is None:
                    continue
                m = _NUMVAR.match(br['n'])
                if not m or m.group(1) not in fams:
                    continue
                li = int(m.group(2))
                rfam = set()
                ridx = set()
                for nd in cf.walk(ev.get('rhs') or {}):
                    if nd.get('k') == 'ref':
                        m2 = _NUMVAR.match(nd['n'])
                        if m2 and m2.group(1) in fams:
                            ridx.add(int(m2.group(2)))
                            rfam.add(m2.group(1))
                if not ridx:
                    continue
                key = '%s@%s' % (f.name, ev['loc'].split('/')[-1])
                if li in ridx or len(ridx) != 1:
                    r.ok(key)
                    continue
                if ev.get('op') in (None, '=') and rfam == {m.group(1)}:
                    r.ok(key, 'lane move')
                    continue
                why = LANE_SUFFIX_EXCEPT.get((f.name, m.group(1)))
                if why:
                    r.ok(key, why)
                    continue
                r.bad(key, ev['loc'], '%s: `%s %s %s` updates index %d from variables of index %d only' % (
                    f.name, guards.lv(ev['lhs']), ev.get('op') or '=', guards.lv(ev.get('rhs') or {}), li, next(iter(ridx))))


def rule_case_sibling_args(chk, P, rid, floor=20, tus=None):
    """the cases of one switch that each make exactly one call are siblings: an integer variable (a length, a count) that all of them but
    one hand to their callee is expected in the odd one too (a case that passes the wrong length variable)"""
    from .. import guards
    r = chk.rule(rid, 'in a switch whose cases each make one call, an integer local / parameter that every other case passes to its callee is '
                      'also passed by the remaining one (four or more cases)', floor=floor)
    seen = set()
    for tu in (tus or P.tus()):
        for f in P.funcs(tu):
            if (f.name, f.loc) in seen:
                continue
            seen.add((f.name, f.loc))
            if not any((b.get('term') or {}).get('kind') == 'SwitchStmt' for b in f.blocks.values()):
                continue
            with guards.in_function(f):
                cctx = guards.case_contexts(f)
                # switch id = (rendering of the selector, head block is not available here: use the set of blocks sharing the rendering)
                groups = {}
                for b, i, ev in f.calls():
                    for sw, vals in (cctx.get(b) or {}).items():
                        if len(vals) != 1:
                            continue
                        groups.setdefault((sw, ev['loc'].rsplit(':', 1)[0]), {}).setdefault(next(iter(vals)), []).append(ev)
                # one function may switch on the same selector several times: split by proximity of source lines
                for (sw, _), cases in groups.items():
                    # one function may switch on the same selector several times: a run of calls on consecutive source lines, each under
                    # another case value, is one switch statement
                    items = sorted(((v, ev) for v, evs in cases.items() for ev in evs), key=lambda kv: int(kv[1]['loc'].rsplit(':', 1)[1]))
                    runs, cur = [], []
                    for v, ev in items:
                        ln = int(ev['loc'].rsplit(':', 1)[1])
                        if cur and (ln - int(cur[-1][1]['loc'].rsplit(':', 1)[1]) > 4 or v in {x for x, _ in cur}):
                            runs.append(cur)
                            cur = []
                        cur.append((v, ev))
                    if cur:
                        runs.append(cur)
                    for run in runs:
                        if len(run) < 4:
                            continue
                        ints = []
                        for v, ev in run:
                            s_ = set()
                            for a in ev['e'].get('a', []):
                                x = cf.strip_casts(a)
                                if isinstance(x, dict) and x.get('k') == 'ref' and not x.get('g') and not x.get('fn') and \
                                        re.search(r'\b(size_t|int|unsigned|uint\d+_t|long)\b', x.get('ty') or '') and '*' not in (x.get('ty') or ''):
                                    s_.add(x['n'])
                            ints.append(s_)
                        allv = set().union(*ints)
                        for name in sorted(allv):
                            have = [name in s_ for s_ in ints]
                            for k, (v, ev) in enumerate(run):
                                key = '%s:%s@%s' % (f.name, name, ev['loc'].split('/')[-1])
                                if sum(have) == len(run) - 1 and not have[k]:
                                    r.bad(key, ev['loc'], '%s: every other case of the switch on %s passes `%s` to its callee; the case at %s calls %s '
                                                          'without it' % (f.name, sw, name, ev['loc'], ev['e'].get('fn') or '?'))
                                elif have[k]:
                                    r.ok(key)
    return r
