"""C05 — jobs come back exactly once, in order, complete; queue accounting exact (structural clauses).
Q1 ring ownership   Q2 hand-back pairing (typestate over every path)   Q3 emptiness protocol
Q4 full queue forces completion; completion loops end only on COMPLETED   Q5 job/burst sibling agreement"""
import re
from .. import cf, guards
from . import shared
from .c14 import handler_assignments, _recname

RING = ('earliest_job', 'next_job')
ROLE_FIELDS = ('submit_job', 'submit_job_nocheck', 'flush_job', 'get_completed_job', 'get_next_job', 'queue_size',
               'submit_burst', 'submit_burst_nocheck', 'flush_burst', 'get_next_burst')
WRITER_ROLES = ('submit_job', 'submit_job_nocheck', 'flush_job', 'get_completed_job', 'submit_burst', 'submit_burst_nocheck',
                'flush_burst')


def ring_field(e):
    """'earliest_job'/'next_job' if e is state->earliest_job / state->next_job"""
    e = cf.strip_casts(e)
    if isinstance(e, dict) and e.get('k') == 'mem' and e['f'] in RING and _recname(e['rec']) == 'IMB_MGR':
        return e['f']
    return None


def addr_ring_field(e):
    e = cf.strip_casts(e)
    if isinstance(e, dict) and e.get('k') == 'un' and e['op'] == '&':
        return ring_field(e['e'])
    return None


def closure(P, tu, roots):
    """functions of tu reachable from roots through direct calls (same TU)"""
    seen = set()
    st = list(roots)
    while st:
        n = st.pop()
        if n in seen or not P.has(tu, n):
            continue
        seen.add(n)
        for _, _, ev in P.func(tu, n).calls():
            c = ev['e'].get('fn')
            if c:
                st.append(c)
    return seen


def is_jobs_earliest(e):
    e = cf.strip_casts(e)
    return isinstance(e, dict) and e.get('k') == 'call' and e.get('fn') == 'JOBS' and len(e['a']) == 2 and ring_field(e['a'][1]) == 'earliest_job'


def status_test_edges(f, bid, var, completed):
    """for a terminator testing var->status against COMPLETED: (complete_succ, incomplete_succ) else None"""
    b = f.blocks[bid]
    t = b.get('term')
    if not t or len(b['succ']) != 2 or t.get('cond') is None or t['kind'] == 'BinaryOperator' and False:
        return None
    c = t['cond']

    def is_status(n):
        if n.get('k') == 'mem' and n['f'] == 'status':
            br = cf.base_ref(n)
            return br is not None and br['n'] == var
        return False
    if not any(is_status(n) for n in cf.walk(c)):
        return None
    from .c20 import subst_eval
    v_inc = subst_eval(c, is_status, completed - 1)
    v_inc0 = subst_eval(c, is_status, 0)
    v_com = subst_eval(c, is_status, completed)
    v_com2 = subst_eval(c, is_status, completed + 1)
    if None in (v_inc, v_com, v_inc0, v_com2) or bool(v_inc) != bool(v_inc0) or bool(v_com) != bool(v_com2) or bool(v_inc) == bool(v_com):
        return None
    return (b['succ'][0], b['succ'][1]) if v_com else (b['succ'][1], b['succ'][0])


def run_q2(chk, P, tu, roles, COMPLETED):
    """typestate over all paths of the single-job hand-back functions"""
    r = chk.rule_q2
    done = set()
    for role in ('submit_job', 'flush_job', 'get_completed_job'):
        sym = roles.get(role)
        if not sym:
            continue
        # the body may sit in a forceinline callee (submit_job_and_check)
        cands = [n for n in closure(P, tu, [sym]) if any(addr_ring_field(a) == 'earliest_job' for _, _, ev in P.func(tu, n).calls()
                                                         for a in ev['e'].get('a', []))]
        for fn in cands:
            if (tu, fn) in done:
                continue
            done.add((tu, fn))
            f = P.func(tu, fn)
            env = {}
            key0 = '%s:%s' % (tu.split('__')[0], fn)
            # abstract state: (src of each job-typed local: 'earliest'|'null'|'other', checked(bool), adv(0,1,2))
            jobvars = set()
            for _, _, ev in f.events(('decl', 'assign')):
                if ev['k'] == 'decl':
                    for d in ev['d']:
                        if 'IMB_JOB *' in d['ty']:
                            jobvars.add(d['n'])
            init = (tuple(sorted((v, 'other') for v in jobvars)), False, 0)
            states = {f.entry: {init}}
            work = [f.entry]
            viol = []
            nret = 0
            while work:
                b = work.pop()
                outs = set()
                for stt in list(states[b]):
                    src = dict(stt[0])
                    checked = stt[1]
                    adv = stt[2]
                    for ev in f.blocks[b]['ev']:
                        if ev['k'] in ('assign', 'decl'):
                            pairs = []
                            if ev['k'] == 'assign' and ev['op'] == '=':
                                l = cf.strip_casts(ev['lhs'])
                                if l.get('k') == 'ref' and l['n'] in jobvars:
                                    pairs.append((l['n'], ev.get('rhs')))
                            elif ev['k'] == 'decl':
                                for d in ev['d']:
                                    if d['n'] in jobvars and d.get('init') is not None:
                                        pairs.append((d['n'], d['init']))
                            for v, rhs in pairs:
                                if is_jobs_earliest(rhs):
                                    src[v] = 'earliest'
                                    checked = False
                                elif cf.is_int(rhs, 0):
                                    src[v] = 'null'
                                else:
                                    src[v] = 'other'
                            if ev['k'] == 'assign' and ring_field(ev['lhs']) == 'earliest_job':
                                pass
                        elif ev['k'] == 'call':
                            e = ev['e']
                            if e.get('fn') in ('ADV_JOBS', 'ADV_N_JOBS') and e['a'] and addr_ring_field(e['a'][0]) == 'earliest_job':
                                adv = min(adv + 1, 2)
                            if e.get('fn') in ('complete_job', 'complete_burst_job') and len(e['a']) > 1:
                                a1 = cf.strip_casts(e['a'][1])
                                if a1.get('k') == 'ref' and src.get(a1['n']) == 'earliest':
                                    checked = True
                        elif ev['k'] == 'return':
                            nret += 1
                            val = cf.strip_casts(ev.get('val')) if ev.get('val') is not None else None
                            loc = ev.get('sloc') or ev['loc']
                            if val is not None and val.get('k') == 'ref' and val['n'] in jobvars:
                                s_ = src.get(val['n'])
                            elif val is not None and cf.is_int(val, 0):
                                s_ = 'null'
                            else:
                                s_ = 'other'
                            if s_ == 'earliest':
                                if not checked:
                                    viol.append((loc, 'returns the earliest job without testing status >= COMPLETED or completing it'))
                                if adv != 1:
                                    viol.append((loc, 'returns the earliest job after advancing earliest_job %s times' % ('0' if adv == 0 else 'more than 1')))
                            else:
                                if adv != 0:
                                    viol.append((loc, 'earliest_job advanced but the earliest job is not the one returned (job lost)'))
                    outs.add((b, tuple(sorted(src.items())), checked, adv))
                for (_, srct, checked, adv) in outs:
                    src = dict(srct)
                    # edge effects: status test
                    edges = f.edges(b, env)
                    for s_, lab in edges:
                        ch = checked
                        for v in jobvars:
                            if src.get(v) == 'earliest':
                                te = status_test_edges(f, b, v, COMPLETED)
                                if te and s_ == te[0] and s_ != te[1]:
                                    ch = True
                        ns = (srct, ch, adv)
                        if ns not in states.setdefault(s_, set()):
                            states[s_].add(ns)
                            work.append(s_)
            uniq = sorted(set(viol))
            r.check(not uniq, key0, f.loc, '%s: %s' % (fn, '; '.join('%s (%s)' % (m, l.split('/')[-1]) for l, m in uniq[:4])))
            r.check(nret > 0, key0 + ':returns', f.loc, '%s has no return' % fn)


def run_burst(chk, P, tu, roles, COMPLETED):
    """hand-back stores of the burst API: jobs[n++] = job guarded by a COMPLETED test or completion; the count that
    advances earliest_job is the count of hand-back stores"""
    r = chk.rule_q2b
    for role in ('submit_burst', 'flush_burst'):
        sym = roles.get(role)
        if not sym:
            continue
        for fn in closure(P, tu, [sym]):
            f = P.func(tu, fn)
            advs = [(b, i, ev) for b, i, ev in f.calls() if ev['e'].get('fn') in ('ADV_JOBS', 'ADV_N_JOBS') and ev['e']['a'] and
                    addr_ring_field(ev['e']['a'][0]) == 'earliest_job']
            if not advs:
                continue
            key0 = '%s:%s' % (tu.split('__')[0], fn)
            # hand-back stores: jobs[<counter>++] = <jobvar>
            stores = []
            for b, i, ev in f.events(('assign',)):
                l = cf.strip_casts(ev['lhs'])
                if ev['op'] == '=' and l.get('k') == 'idx' and cf.strip_casts(l['b']).get('k') == 'ref' and cf.strip_casts(l['b']).get('p'):
                    idx = cf.strip_casts(l['i'])
                    rhs = cf.strip_casts(ev.get('rhs'))
                    if rhs.get('k') == 'ref' and 'IMB_JOB *' in rhs.get('ty', ''):
                        cnt = None
                        if idx.get('k') == 'un' and idx['op'] == '++':
                            cnt = cf.strip_casts(idx['e']).get('n')
                        stores.append((b, i, ev, rhs['n'], cnt, idx))
            # exclude the invalid-job hand-back jobs[0] = jobs[i]
            hb = [s for s in stores if s[4] is not None]
            r.check(bool(hb), key0 + ':stores', f.loc, '%s advances earliest_job but hands back no job' % fn)
            # each hand-back store is guarded: since the last assignment to the job variable, a COMPLETED test (complete
            # edge) or a completion call happened on every path
            for b, i, ev, jv, cnt, idx in hb:
                ok = _guarded_store(f, b, i, jv, COMPLETED)
                r.check(ok, '%s:store@%s' % (key0, (ev.get('sloc') or ev['loc']).split(':')[-1]), ev.get('sloc') or ev['loc'],
                        '%s hands back `%s` without a status >= COMPLETED test or completion on some path' % (fn, jv))
            counters = {s[4] for s in hb}
            for b, i, ev in advs:
                e = ev['e']
                if e['fn'] == 'ADV_N_JOBS':
                    n = cf.strip_casts(e['a'][1]) if len(e['a']) > 1 else {}
                    r.check(n.get('k') == 'ref' and n['n'] in counters, key0 + ':adv-count', ev['loc'],
                            '%s advances earliest_job by `%s`, which is not the counter of handed-back jobs %s' % (
                                fn, cf.render(n), sorted(counters)))
                    # the counter is only modified by the hand-back stores
                    for c in counters:
                        others = [x for _, _, x in f.events(('assign',)) if cf.strip_casts(x['lhs']).get('n') == c and
                                  not (x['op'] == '=' and cf.evalc(x.get('rhs')) == 0)]
                        incs = [x for x in others if x['op'] == '++']
                        r.check(len(incs) == len([s for s in hb if s[4] == c]) and len(others) == len(incs), key0 + ':counter:' + c, f.loc,
                                '%s: hand-back counter %s is modified outside the hand-back stores' % (fn, c))
                else:
                    # ADV_JOBS once per hand-back store: same block as a store
                    same = any(sb == b for sb, _, _, _, _, _ in hb)
                    r.check(same, key0 + ':adv-paired', ev['loc'], '%s: ADV_JOBS(&earliest_job) is not paired with a hand-back store' % fn)


def _guarded_store(f, b, i, jv, COMPLETED):
    """backward search from (b,i): every path reaches a COMPLETED-edge / completion call before an assignment to jv"""
    seen = set()
    st = [(b, i, None)]
    while st:
        cb, ci, came_from = st.pop()
        evs = f.blocks[cb]['ev'][:ci] if ci is not None else f.blocks[cb]['ev']
        hit = False
        for ev in reversed(evs):
            if ev['k'] == 'call' and ev['e'].get('fn') in ('complete_job', 'complete_burst_job') and len(ev['e']['a']) > 1 and \
                    cf.strip_casts(ev['e']['a'][1]).get('n') == jv:
                hit = True
                break
            if ev['k'] == 'assign' and cf.strip_casts(ev['lhs']).get('n') == jv:
                return False
            if ev['k'] == 'decl' and any(d['n'] == jv and d.get('init') is not None for d in ev['d']):
                return False
        if hit:
            continue
        if cb == f.entry:
            return False
        for p in f.pred[cb]:
            te = status_test_edges(f, p, jv, COMPLETED)
            if te and te[0] == cb and te[1] != cb:
                continue  # arrived over the "complete" edge
            if (p, cb) in seen:
                continue
            seen.add((p, cb))
            st.append((p, None, cb))
    return True


def run_q6(q6, P, tu, fname, vt):
    """the request count R of get_next_burst(state, R, jobs) may be read only (a) in a rejecting guard, (b) in the comparison and the
    assignment of the clamp `if (F > R) F = R` / `F = min(F, R)` where F holds queue_sz_remaining(); every other read lets the request
    bypass the free count"""
    f = P.func(tu, fname)
    if len(f.params) < 2:
        q6.bad(vt, f.loc, '%s has no request-count parameter' % fname)
        return
    R = f.params[1]['name']
    # locals holding the free count
    free = set()
    for _, _, ev in f.events(('decl', 'assign')):
        if ev['k'] == 'decl':
            for d in ev['d']:
                if d.get('init') is not None and any(n.get('k') == 'call' and n.get('fn') == 'queue_sz_remaining' for n in cf.walk(d['init'])):
                    free.add(d['n'])
        else:
            l = cf.strip_casts(ev['lhs'])
            if l.get('k') == 'ref' and ev.get('rhs') is not None and \
                    any(n.get('k') == 'call' and n.get('fn') == 'queue_sz_remaining' for n in cf.walk(ev['rhs'])):
                free.add(l['n'])
    q6.check(bool(free), vt + ':free', f.loc, '%s does not read queue_sz_remaining()' % fname)

    def mentions(e, name):
        return any(n.get('k') == 'ref' and n.get('n') == name for n in cf.walk(e or {}))

    def is_free_expr(e):
        return any(n.get('k') == 'ref' and n.get('n') in free for n in cf.walk(e or {})) or \
            any(n.get('k') == 'call' and n.get('fn') == 'queue_sz_remaining' for n in cf.walk(e or {}))
    bad = []
    nuse = 0
    for bid, b in f.blocks.items():
        t = b.get('term')
        if t and t.get('cond') is not None and mentions(t.get('fullcond') or t['cond'], R):
            nuse += 1
            c = t.get('fullcond') or t['cond']
            succ_guard = any(s_ is not None and guards.is_guard_block(f.blocks[s_]) for s_ in b['succ'])
            if not (succ_guard or is_free_expr(c)):
                bad.append(('condition `%s`' % cf.render(c), t.get('loc') or f.loc))
        for ev in b['ev']:
            if ev['k'] == 'assign' and mentions(ev.get('rhs'), R):
                nuse += 1
                l = cf.strip_casts(ev['lhs'])
                rhs = cf.strip_casts(ev['rhs'])
                ok = l.get('k') == 'ref' and l['n'] in free and ev['op'] == '=' and \
                    ((rhs.get('k') == 'ref' and rhs['n'] == R) or (rhs.get('k') == 'cond' and is_free_expr(rhs)))
                if ok and rhs.get('k') == 'ref':
                    # the plain assignment must sit under a comparison of the free count with R
                    dom = f.dominators()
                    ok = any((f.blocks[d].get('term') or {}).get('cond') is not None and
                             mentions(f.blocks[d]['term'].get('fullcond') or f.blocks[d]['term']['cond'], R) and
                             is_free_expr(f.blocks[d]['term'].get('fullcond') or f.blocks[d]['term']['cond']) for d in dom.get(bid, ()) if d != bid)
                if not ok:
                    bad.append(('`%s %s %s`' % (cf.render(ev['lhs']), ev['op'], cf.render(ev['rhs'])), ev.get('sloc') or ev['loc']))
            elif ev['k'] == 'decl':
                for d in ev['d']:
                    if d.get('init') is not None and mentions(d['init'], R):
                        nuse += 1
                        i_ = cf.strip_casts(d['init'])
                        if i_.get('k') == 'cond' and is_free_expr(i_):
                            free.add(d['n'])
                        else:
                            bad.append(('`%s = %s`' % (d['n'], cf.render(d['init'])), ev['loc']))
            elif ev['k'] in ('call', 'return'):
                for k in ('e', 'val'):
                    if ev.get(k) is not None and mentions(ev[k], R) and not (ev['k'] == 'call' and ev['e'].get('fn') == 'imb_set_errno'):
                        nuse += 1
                        bad.append(('`%s`' % cf.render(ev[k]), ev.get('sloc') or ev['loc']))
    q6.check(nuse >= 2, vt + ':uses', f.loc, '%s: the clamp of the request count against the free count is gone' % fname)
    for what, loc in bad:
        q6.bad('%s:%s' % (vt, loc.split(':')[-1]), loc, '%s: the request count %s is used in %s: slots are handed out without regard to the number of free slots' % (
            fname, R, what))
    if not bad:
        q6.ok(vt)


def run(chk):
    P = cf.Program()
    chk.explanation = ('Structural clauses of the in-order job ring, decided on the CFG of every variant TU: ring offsets are written '
                       'only by the queue functions and only through ADV_JOBS/ADV_N_JOBS or the literals -1/0/next_job; on every path '
                       'of submit/flush/get-completed the earliest job is handed back only after a status >= COMPLETED test or '
                       'complete_job(), with exactly one advance, and an advance always returns that job; burst hand-back stores are '
                       'guarded and counted; the empty marker is set only when earliest == next after an advance and readers test for '
                       'it; a full queue forces completion; completion loops end only on COMPLETED; job and burst siblings agree. '
                       'Not decided: the full FIFO/linearisability claim over all call histories (an inductive invariant over ring '
                       'offsets that interval abstract interpretation cannot carry).')
    COMPLETED = P.enum('IMB_STATUS_COMPLETED')
    q1 = chk.rule('Q1', 'earliest_job/next_job written only by the queue functions, only via ADV_JOBS/ADV_N_JOBS or -1/0/next_job; '
                        'jobs[] reached only through JOBS()/&jobs[0]', floor=150)
    chk.rule_q2 = chk.rule('Q2', 'single-job API: the earliest job is returned only after a COMPLETED test/completion with exactly one '
                                 'advance; an advance returns that job; NULL advances nothing', floor=50)
    chk.rule_q2b = chk.rule('Q2b', 'burst API: every handed-back job passed a COMPLETED test/completion; earliest_job advances by the '
                                   'number handed back', floor=50)
    q3 = chk.rule('Q3', 'empty marker: earliest_job = -1 only under earliest_job == next_job after an advance; offset readers are '
                        'dominated by an emptiness test', floor=80)
    q4 = chk.rule('Q4', 'full queue forces completion of the oldest job; completion loops terminate only on status >= COMPLETED',
                  floor=40)
    q5 = chk.rule('Q5', 'job-API and burst-API siblings (resubmit / submit_new / complete) run the same stage operations for each chain order', floor=20)
    q6 = chk.rule('Q6', 'get_next_burst hands out no more slots than are free: the requested count is used only in parameter guards and in '
                        'the clamp against the free count', floor=8)
    q7 = chk.rule('Q7', 'every path that hands a job to the stage dispatch (submit_new_job / submit_new_burst_job) first sets its status to '
                        'BEING_PROCESSED: a ring slot keeps the status of its previous use', floor=9)
    from . import c12 as _c12
    _c12.run_v9(chk, P, 'Q8', lambda fn: bool(re.search(r'burst|queue|submit_job_and_check|get_next_job|get_completed_job|flush_job', fn)), 200)
    q10 = chk.rule('Q10', 'a queue function that turns earliest_job == next_job into the empty marker reaches every return through that '
                          'normalisation, or leaves on a pure emptiness test / a rejected argument / the verdict of another normalising function / '
                          '(when no ring-changing caller relies on it) without having changed the ring', floor=27)
    q9 = chk.rule('Q9', 'a contiguous-slot count (get_queue_sz_end) is taken from the ring offset that is then advanced by it (ADV_N_JOBS)', floor=9)
    nvar = 0
    mgr = P.record('IMB_MGR')
    jobsz = P.record('IMB_JOB')['size']
    njobs = next((f.get('count') for f in mgr['fields'] if f['name'] == 'jobs'), None)
    if not njobs:
        chk.broken('IMB_MGR.jobs[] not found')
        return
    from . import c06 as _c06
    _c06.run_t11(chk, P)
    for tu in P.variant_tus():
        ha = handler_assignments(P, tu)
        roles = {k: v[0] for k, v in ha.items() if k in ROLE_FIELDS}
        if len(roles) < 8:
            chk.broken('%s: only %d queue handlers assigned' % (tu, len(roles)))
            continue
        nvar += 1
        vt = tu.split('__')[0]
        allowed = closure(P, tu, [roles[r_] for r_ in WRITER_ROLES if r_ in roles]) | \
            {f.name for f in P.funcs(tu) if re.match(r'init_mb_mgr_\w+_internal$', f.name)}
        run_q7(q7, P, tu, vt)
        run_q9(q9, P, tu, vt)
        run_q10(q10, P, tu, vt)
        # ---- Q6
        if roles.get('get_next_burst') and P.has(tu, roles['get_next_burst']):
            run_q6(q6, P, tu, roles['get_next_burst'], vt)
        # ---- Q1
        for f in P.funcs(tu):
            for b, i, ev in f.events(('assign', 'call', 'decl')):
                loc = ev.get('sloc') or ev['loc']
                if ev['k'] == 'assign':
                    rf = ring_field(ev['lhs'])
                    if rf:
                        key = '%s:%s:%s%s' % (vt, f.name, rf, ev['op'])
                        okfn = f.name in allowed
                        rhs = ev.get('rhs')
                        okv = ev['op'] == '=' and (cf.evalc(rhs) in (-1, 0) or ring_field(rhs) == 'next_job')
                        if rf == 'next_job':
                            okv = ev['op'] == '=' and cf.evalc(rhs) == 0
                        q1.check(okfn and okv, key, loc, '%s writes %s %s %s%s' % (
                            f.name, rf, ev['op'], cf.render(rhs) if rhs else '',
                            '' if okfn else ' (not a queue function)'))
                    # any store through a pointer derived from &ring field is impossible to see here: covered by calls
                elif ev['k'] == 'call':
                    for a in ev['e'].get('a', []):
                        rf = addr_ring_field(a)
                        if rf:
                            key = '%s:%s:&%s->%s' % (vt, f.name, rf, ev['e'].get('fn'))
                            q1.check(ev['e'].get('fn') in ('ADV_JOBS', 'ADV_N_JOBS') and f.name in allowed, key, loc,
                                     '%s passes &%s to %s' % (f.name, rf, ev['e'].get('fn')))
                # jobs[] access
                for k in ('lhs', 'rhs', 'e', 'val'):
                    for n in cf.walk(ev.get(k) or {}):
                        if n.get('k') == 'mem' and n['f'] == 'jobs' and _recname(n['rec']) == 'IMB_MGR':
                            okj = f.name == 'JOBS'
                            q1.check(okj or _is_jobs0(ev, n), '%s:%s:jobs' % (vt, f.name), loc,
                                     '%s indexes state->jobs[] directly (%s)' % (f.name, cf.render(ev.get(k))[:80]))
                if ev['k'] == 'decl':
                    for d in ev['d']:
                        for n in cf.walk(d.get('init') or {}):
                            if n.get('k') == 'mem' and n['f'] == 'jobs' and _recname(n['rec']) == 'IMB_MGR':
                                q1.check(f.name == 'JOBS', '%s:%s:jobs' % (vt, f.name), loc,
                                         '%s takes state->jobs outside JOBS()' % f.name)
        # ADV_JOBS / ADV_N_JOBS bodies
        for fn in ('ADV_JOBS', 'ADV_N_JOBS'):
            if not P.has(tu, fn):
                q1.bad('%s:%s' % (vt, fn), tu, '%s not found' % fn)
                continue
            f = P.func(tu, fn)
            stepok = wrapok = resetok = False
            for b, i, ev in f.events(('assign',)):
                l = cf.strip_casts(ev['lhs'])
                if l.get('k') == 'un' and l['op'] == '*':
                    rhs = ev.get('rhs')
                    if ev['op'] == '+=':
                        v = cf.evalc(rhs)
                        if fn == 'ADV_JOBS':
                            stepok = v == jobsz
                        else:
                            rr = cf.strip_casts(rhs)
                            stepok = rr.get('k') == 'bin' and rr['op'] == '*' and jobsz in (cf.evalc(rr['l']), cf.evalc(rr['r']))
                    elif ev['op'] == '=' and fn == 'ADV_JOBS':
                        resetok = cf.evalc(rhs) == 0
                    elif ev['op'] == '-=' and fn == 'ADV_N_JOBS':
                        resetok = cf.evalc(rhs) == jobsz * njobs
            for b in f.blocks.values():
                t = b.get('term')
                if t and t.get('cond'):
                    c = guards.canon(t.get('fullcond') or t['cond'])
                    if c == '*ptr >= %d' % (jobsz * njobs):
                        wrapok = True
            q1.check(stepok and wrapok and resetok, '%s:%s:body' % (vt, fn), f.loc,
                     '%s: step sizeof(IMB_JOB)=%d / wrap at %d*%d / reset not recognised (step %s wrap %s reset %s)' % (
                         fn, jobsz, njobs, jobsz, stepok, wrapok, resetok))
        # ---- Q2
        run_q2(chk, P, tu, roles, COMPLETED)
        run_burst(chk, P, tu, roles, COMPLETED)
        # ---- Q3
        for f in P.funcs(tu):
            if f.name not in allowed and f.name not in closure(P, tu, [roles.get('queue_size'), roles.get('get_next_burst')]):
                continue
            dom = None
            for b, i, ev in f.events(('assign',)):
                if ring_field(ev['lhs']) == 'earliest_job' and cf.evalc(ev.get('rhs')) == -1 and not f.name.startswith('init_mb_mgr'):
                    dom = dom or f.dominators()
                    # control dependent on `earliest_job == next_job` (true edge) evaluated after an advance
                    ok = False
                    for d in dom.get(b, ()):
                        t = f.blocks[d].get('term')
                        if not t or t['kind'] != 'IfStmt':
                            continue
                        c = guards.canon(t.get('fullcond') or t['cond'])
                        if c in ('state->earliest_job == state->next_job',) and f.blocks[d]['succ'][0] in dom.get(b, ()):
                            # an advance of earliest_job precedes the test on every path to it
                            # an advance of earliest_job flows into the test (loops may run zero times statically, so
                            # this is a may-precede: the test block is reachable from an advance)
                            advb = [bb for bb, _, e in f.calls() if e['e'].get('fn') in ('ADV_JOBS', 'ADV_N_JOBS') and
                                    e['e']['a'] and addr_ring_field(e['e']['a'][0]) == 'earliest_job']
                            ok = any(d in f.reachable(bb) for bb in advb)
                    q3.check(ok, '%s:%s:empty@%s' % (vt, f.name, ev['loc'].split(':')[-1]), ev.get('sloc') or ev['loc'],
                             '%s marks the queue empty without `earliest_job == next_job` holding after an advance' % f.name)
            # readers of earliest_job as an offset
            for b, i, ev in f.calls():
                e = ev['e']
                uses = [a for a in e.get('a', []) if ring_field(a) == 'earliest_job']
                if not uses or e.get('fn') not in ('JOBS', 'get_queue_sz_end'):
                    continue
                dom = dom or f.dominators()
                ok = _nonempty_here(P, tu, f, b, dom)
                q3.check(ok, '%s:%s:read@%s' % (vt, f.name, ev['loc'].split(':')[-1]), ev.get('sloc') or ev['loc'],
                         '%s uses earliest_job as an offset (%s) without an emptiness test dominating it' % (f.name, e.get('fn')))
        # queue_sz first test
        if P.has(tu, 'queue_sz'):
            f = P.func(tu, 'queue_sz')
            dom_ = f.dominators()
            # whatever the statement shape (early return, or the computation nested under the test): the ring offsets are read only on the
            # non-empty side of an emptiness test, and the empty side returns 0
            reads = [(b, ev) for b, _, ev in f.calls() if ev['e'].get('fn') in ('get_queue_sz', 'get_queue_sz_end', 'JOBS')]
            okq = bool(reads) and all(_nonempty_here(P, tu, f, b, dom_) for b, _ in reads)
            empties = []
            for d, db in f.blocks.items():
                t = db.get('term')
                if t and t['kind'] == 'IfStmt' and len(db['succ']) == 2:
                    c = guards.canon(t.get('fullcond') or t['cond'])
                    if c == 'state->earliest_job < 0':
                        empties.append(db['succ'][0])
                    elif c == 'state->earliest_job >= 0':
                        empties.append(db['succ'][1])
            okz = bool(empties)
            for e_ in empties:
                okr, _ = cf.walk_paths_must(f, e_, None, lambda ev: ev['k'] == 'return' and cf.evalc(ev.get('val')) == 0,
                                            lambda ev: ev['k'] == 'return')
                okz = okz and okr
            q3.check(okq and okz, '%s:queue_sz' % vt, f.loc,
                     'queue_sz reads the ring offsets without the emptiness test (state->earliest_job < 0) guarding them, or does not return 0 for an empty queue')
        # ---- Q4
        sj = roles.get('submit_job')
        for fn in closure(P, tu, [sj]):
            f = P.func(tu, fn)
            for bid, b in f.blocks.items():
                t = b.get('term')
                if not t or t['kind'] != 'IfStmt':
                    continue
                c = guards.canon(t.get('fullcond') or t['cond'])
                if c != 'state->earliest_job == state->next_job':
                    continue
                full = b['succ'][0]
                # after ADV_JOBS(&next_job): full branch must complete the earliest job before returning it
                okc, _ = cf.walk_paths_must(f, full, None,
                                            lambda e: e['k'] == 'call' and e['e'].get('fn') == 'complete_job',
                                            lambda e: e['k'] == 'return')
                q4.check(okc, '%s:%s:full' % (vt, fn), t['loc'], '%s: the full-queue branch returns the oldest job without completing it' % fn)
        for fn in ('complete_job', 'complete_burst_job', 'RESUBMIT_JOB', 'RESUBMIT_BURST_JOB'):
            if not P.has(tu, fn):
                q4.bad('%s:%s' % (vt, fn), tu, '%s not found' % fn)
                continue
            f = P.func(tu, fn)
            nloops = 0
            for bid, b in f.blocks.items():
                t = b.get('term')
                if not t or t['kind'] != 'WhileStmt':
                    continue
                nloops += 1
                c = guards.canon(t.get('fullcond') or t['cond'])
                want = 'job->status < %d' % COMPLETED
                okl = c == want or c == '(job != 0 && %s)' % want
                q4.check(okl, '%s:%s:loop%d' % (vt, fn, nloops), t['loc'], '%s loops while `%s`, expected `%s`' % (fn, c, want))
            q4.check(nloops >= 1, '%s:%s:loops' % (vt, fn), f.loc, '%s has no completion loop' % fn)
        # ---- Q5
        orders = P.enum_types.get('IMB_CHAIN_ORDER', {})
        for a, b_ in (('RESUBMIT_JOB', 'RESUBMIT_BURST_JOB'), ('submit_new_job', 'submit_new_burst_job'), ('complete_job', 'complete_burst_job')):
            if P.has(tu, a) and P.has(tu, b_):
                for oname, ov in sorted(orders.items()):
                    for st_name, stv in (('no stage done', None),):
                        sa, sb = stage_calls(P, tu, a, ov), stage_calls(P, tu, b_, ov)
                        q5.check(sa == sb, '%s:%s~%s:%s' % (vt, a, b_, oname), P.func(tu, b_).loc,
                                 '%s and %s run different stages for chain order %s: %s vs %s' % (a, b_, oname, sorted(sa), sorted(sb)))
            else:
                q5.bad('%s:%s~%s' % (vt, a, b_), tu, 'sibling pair not found')
    if nvar < 8:
        chk.broken('only %d variant TUs analysed' % nvar)


def role_name(n):
    if not n:
        return '?'
    for pat, role in ((r'^(SUBMIT_JOB_CIPHER|CALL_SUBMIT_CIPHER)$', 'CIPHER_SUBMIT'), (r'^(SUBMIT_JOB_HASH\w*|CALL_SUBMIT_HASH)$', 'HASH_SUBMIT'),
                      (r'^(FLUSH_JOB_CIPHER|CALL_FLUSH_CIPHER)$', 'CIPHER_FLUSH'), (r'^(FLUSH_JOB_HASH\w*|CALL_FLUSH_HASH)$', 'HASH_FLUSH'),
                      (r'^RESUBMIT_(BURST_)?JOB$', 'RESUBMIT')):
        if re.match(pat, n):
            return role
    return n


SIB = {'SUBMIT_JOB_CIPHER': 'CIPHER_SUBMIT', 'CALL_SUBMIT_CIPHER': 'CIPHER_SUBMIT', 'SUBMIT_JOB_HASH': 'HASH_SUBMIT',
       'CALL_SUBMIT_HASH': 'HASH_SUBMIT', 'FLUSH_JOB_CIPHER': 'CIPHER_FLUSH', 'CALL_FLUSH_CIPHER': 'CIPHER_FLUSH',
       'FLUSH_JOB_HASH': 'HASH_FLUSH', 'CALL_FLUSH_HASH': 'HASH_FLUSH', 'RESUBMIT_JOB': 'RESUBMIT', 'RESUBMIT_BURST_JOB': 'RESUBMIT'}



def run_q7(q7, P, tu, vt):
    """a job slot keeps the status of its previous use (the ring is not cleared; the self-test leaves COMPLETED behind): every path that
    hands a job to the stage dispatch first stamps it BEING_PROCESSED, on the checked and the no-check entry alike"""
    BP = P.enum('IMB_STATUS_BEING_PROCESSED')
    for f in P.funcs(tu):
        sites = [(b, i, ev) for b, i, ev in f.events(('call', 'assign', 'decl')) if any(
            n.get('k') == 'call' and re.match(r'^submit_new(_burst)?_job$', n.get('fn') or '') for k in ('e', 'rhs', 'val') for n in cf.walk(ev.get(k) or {}))]
        if not sites:
            continue

        def is_stamp(ev):
            if ev['k'] != 'assign' or ev.get('op') not in (None, '='):
                return False
            l = cf.strip_casts(ev['lhs'])
            return isinstance(l, dict) and l.get('k') == 'mem' and l.get('f') == 'status' and 'IMB_JOB' in (l.get('rec') or '') and \
                cf.evalc(ev.get('rhs') or {}) == BP

        def is_dispatch(ev):
            return any(n.get('k') == 'call' and re.match(r'^submit_new(_burst)?_job$', n.get('fn') or '')
                       for k in ('e', 'rhs', 'val') for n in cf.walk(ev.get(k) or {}))
        bad = None
        seen = set()
        st = [f.entry]
        while st and bad is None:
            b = st.pop()
            if b in seen or b is None:
                continue
            seen.add(b)
            stamped = False
            for ev in f.blocks[b]['ev']:
                if is_stamp(ev):
                    stamped = True
                    break
                if is_dispatch(ev):
                    bad = ev
                    break
            if stamped or bad:
                continue
            st.extend(s_ for s_, _ in f.edges(b, None))
        q7.check(bad is None, '%s:%s' % (vt, f.name), (bad or sites[0][2])['loc'],
                 '%s: a path reaches %s without job->status = IMB_STATUS_BEING_PROCESSED: the slot keeps the status of its previous use and '
                 'the job is handed back as completed without having been processed' % (f.name, 'the stage dispatch at %s' % (bad or {}).get('loc')))


def run_q9(q9, P, tu, vt):
    """the number of contiguous slots is measured from the ring offset that is advanced next: a count taken from next_job while earliest_job is
    advanced by it (or the reverse) walks off the jobs actually awaiting return"""
    for f in P.funcs(tu):
        sites = []
        for b, i, ev in f.events(('assign', 'decl', 'call')):
            xs = [ev.get('rhs'), ev.get('e')] + [d.get('init') for d in ev.get('d', [])] if ev['k'] != 'call' else [ev.get('e')]
            for x in xs:
                for n in cf.walk(x or {}):
                    if n.get('k') == 'call' and n.get('fn') == 'get_queue_sz_end' and n.get('a'):
                        rf = ring_field(n['a'][0])
                        if rf:
                            sites.append((b, i, ev, rf))
        seen_site = set()
        for b, i, ev, rf in sites:
            if (b, i) in seen_site:
                continue
            seen_site.add((b, i))
            # first ADV_N_JOBS reachable from here
            found = None
            seenb, st = set(), [(b, i + 1)]
            while st and found is None:
                bb, i0 = st.pop()
                if (bb, i0 > 0) in seenb:
                    continue
                seenb.add((bb, i0 > 0))
                hit = False
                for e2 in f.blocks[bb]['ev'][i0:]:
                    if e2['k'] == 'call' and e2['e'].get('fn') == 'ADV_N_JOBS' and e2['e'].get('a'):
                        found = addr_ring_field(e2['e']['a'][0])
                        hit = True
                        break
                if not hit:
                    st.extend((s_, 0) for s_, _ in f.edges(bb, None))
            if found is None:
                q9.ok('%s:%s:%s' % (vt, f.name, rf), 'count only')
                continue
            q9.check(found == rf, '%s:%s:%s@%s' % (vt, f.name, rf, ev['loc'].split('/')[-1]), ev['loc'],
                     '%s measures the contiguous slots from %s but then advances %s by that count' % (f.name, rf, found))


def _ring_store(ev):
    if ev['k'] == 'assign':
        return ring_field(ev['lhs'])
    if ev['k'] == 'call' and ev['e'].get('fn') in ('ADV_JOBS', 'ADV_N_JOBS') and ev['e'].get('a'):
        return addr_ring_field(ev['e']['a'][0])
    return None


def _local_defs(f, name):
    out = []
    for b, i, ev in f.events(('assign', 'decl')):
        if ev['k'] == 'assign':
            l = cf.strip_casts(ev['lhs'])
            if isinstance(l, dict) and l.get('k') == 'ref' and l['n'] == name:
                out.append((b, i, ev.get('rhs') if ev.get('op') in (None, '=') else None))
        else:
            for d in ev['d']:
                if d['n'] == name and d.get('init') is not None:
                    out.append((b, i, d['init']))
    return out


def _reaching(f, name, bid):
    """right-hand sides of the definitions of local `name` that reach the end of block bid (None for a compound assignment)"""
    defs = _local_defs(f, name)
    where = {}
    for b, i, r_ in defs:
        where.setdefault(b, []).append(i)
    out = []
    for b, i, r_ in defs:
        if any(j > i for j in where[b]):
            continue                    # overwritten later in its own block
        if b == bid:
            out.append(r_)
            continue
        seen, st, hit = set(), list(f.succ(b)), False
        while st and not hit:
            x = st.pop()
            if x in seen:
                continue
            seen.add(x)
            if x in where:
                continue                # redefined on this path (a definition inside bid itself comes before its terminator)
            if x == bid:
                hit = True
                break
            st.extend(f.succ(x))
        if hit:
            out.append(r_)
    return out


def _emptiness_edge(f, bid):
    """index (0 = true edge, 1 = false edge) of the successor taken when the ring is EMPTY, if the block ends in a pure emptiness test
    (`state->earliest_job < 0`, `queue_sz(state) == 0` after substituting single-definition locals), else None"""
    t = f.blocks[bid].get('term')
    if not t or t['kind'] != 'IfStmt' or len(f.blocks[bid]['succ']) != 2:
        return None
    try:
        with guards.in_function(f):
            c = cf.strip_casts(guards.expand(f, t.get('fullcond') or t.get('cond'), bid))
    except Exception:
        c = cf.strip_casts(t.get('fullcond') or t.get('cond') or {})
    neg = False
    while isinstance(c, dict) and c.get('k') == 'un' and c['op'] == '!':
        c, neg = cf.strip_casts(c['e']), not neg
    if not (isinstance(c, dict) and c.get('k') == 'bin'):
        return None
    l, r_, op = cf.strip_casts(c['l']), cf.strip_casts(c['r']), c['op']
    if cf.evalc(r_) != 0:
        return None
    if isinstance(l, dict) and l.get('k') == 'ref' and not l.get('p') and not l.get('g'):
        rd = _reaching(f, l['n'], bid)
        if len(rd) == 1 and rd[0] is not None:
            l = cf.strip_casts(rd[0])
    empty_when_true = None
    if ring_field(l) == 'earliest_job' and op in ('<', '>='):
        empty_when_true = op == '<'
    elif isinstance(l, dict) and l.get('k') == 'call' and l.get('fn') == 'queue_sz' and op in ('==', '!=', '>'):
        empty_when_true = op == '=='
    if empty_when_true is None:
        return None
    if neg:
        empty_when_true = not empty_when_true
    return 0 if empty_when_true else 1


def run_q10(q10, P, tu, vt):
    """ring normalisation: `earliest_job == next_job` means FULL unless the function that advanced earliest_job up to next_job turns the pair
    into the empty marker (-1 / 0).  A queue function that carries this normalisation reaches each of its returns through it - or leaves on a
    pure emptiness test, on a rejected argument, or (when nobody delegates to it after changing the ring) without having changed the ring."""
    funcs = {f.name: f for f in P.funcs(tu)}
    norm = {}
    writers = set()
    for f in funcs.values():
        nb = []
        for bid, b in f.blocks.items():
            t = b.get('term')
            if not t or t['kind'] != 'IfStmt':
                continue
            c = cf.strip_casts(t.get('fullcond') or t.get('cond') or {})
            if isinstance(c, dict) and c.get('k') == 'bin' and c['op'] == '==' and {ring_field(c['l']), ring_field(c['r'])} == {'earliest_job', 'next_job'}:
                # ... whose true side writes the empty marker (the same comparison without it is the FULL test of the submit path)
                t0 = b['succ'][0]
                region = [x for x in f.blocks if t0 is not None and (x == t0 or t0 in f.dominators().get(x, ()))]
                if any(ev['k'] == 'assign' and ring_field(ev['lhs']) == 'earliest_job' and cf.evalc(ev.get('rhs') or {}) == -1
                       for x in region for ev in f.blocks[x]['ev']):
                    nb.append(bid)
        if nb:
            norm[f.name] = nb
        if any(_ring_store(ev) for _, _, ev in f.events(('assign', 'call'))):
            writers.add(f.name)
    # Q11 half: taking jobs OUT of the ring (earliest_job advanced, next_job untouched) can empty it: the advance is followed by the
    # normalisation on every path to a return
    for name in sorted(writers):
        f = funcs[name]
        advs = [(b, i, ev) for b, i, ev in f.events(('call',)) if ev['e'].get('fn') in ('ADV_JOBS', 'ADV_N_JOBS') and ev['e'].get('a')]
        if not any(addr_ring_field(ev['e']['a'][0]) == 'earliest_job' for _, _, ev in advs) or \
                any(addr_ring_field(ev['e']['a'][0]) == 'next_job' for _, _, ev in advs):
            continue
        nb = set(norm.get(name, ()))
        for b, i, ev in advs:
            if addr_ring_field(ev['e']['a'][0]) != 'earliest_job':
                continue
            bad = None
            seen, st = set(), [b]
            first = True
            while st and bad is None:
                x = st.pop()
                if x in seen:
                    continue
                seen.add(x)
                evs = f.blocks[x]['ev'][i + 1:] if first else f.blocks[x]['ev']
                first = False
                for e2 in evs:
                    if e2['k'] == 'return':
                        v = cf.strip_casts(e2.get('val') or {})
                        if not (isinstance(v, dict) and v.get('k') == 'call' and v.get('fn') in norm):
                            bad = e2
                        break
                else:
                    if x not in nb:
                        st.extend(f.succ(x))
            q10.check(bad is None, '%s:%s:adv@%s' % (vt, name, ev['loc'].split('/')[-1]), (bad or ev)['loc'],
                      '%s advances earliest_job at %s and can return at %s without turning earliest_job == next_job into the empty marker: the '
                      'ring that just gave up its last job reads as FULL' % (name, ev['loc'], (bad or ev)['loc']))
    relied_on = set()
    for g in writers:
        for _, _, ev in funcs[g].calls():
            c = ev['e'].get('fn')
            if c in norm and c != g:
                relied_on.add(c)
    for name, nb in sorted(norm.items()):
        f = funcs[name]
        dom = f.dominators()
        avoid = f.reachable(None, None, stop=lambda b: b in nb) - set(nb)
        # blocks from which a return can be reached without passing a normalisation test
        for bid in sorted(avoid):
            b = f.blocks[bid]
            rets = [ev for ev in b['ev'] if ev['k'] == 'return']
            if not rets:
                continue
            ok = None
            # (ii) reached only over the EMPTY edge of a pure emptiness test
            for d in dom.get(bid, ()):
                e = _emptiness_edge(f, d)
                if e is None:
                    continue
                su = f.blocks[d]['succ'][e]
                if su is not None and (su == bid or su in dom.get(bid, ())) and f.pred[su] == [d]:
                    ok = 'empty'
            # (iii) a rejected argument
            if ok is None and guards.is_guard_block(b, func=f):
                ok = 'reject'
            # (iv) the verdict of another function that normalises
            if ok is None:
                v = cf.strip_casts(rets[-1].get('val') or {})
                if isinstance(v, dict) and v.get('k') == 'call' and v.get('fn') in norm:
                    ok = 'delegates'
            # (v) nothing changed the ring on any normalisation-free path to here (not for functions others rely on)
            if ok is None and name not in relied_on:
                back = set()
                st = [bid]
                while st:
                    x = st.pop()
                    if x in back or x not in avoid:
                        continue
                    back.add(x)
                    st.extend(f.pred[x])
                if not any(_ring_store(ev) for x in back for ev in f.blocks[x]['ev']):
                    ok = 'ring untouched'
            q10.check(ok is not None, '%s:%s@%s' % (vt, name, rets[-1]['loc'].split('/')[-1]), rets[-1]['loc'],
                      '%s returns at %s without passing its `earliest_job == next_job` normalisation, and the branch that leads there is not a pure '
                      'emptiness test%s: a ring left with earliest_job == next_job reads as FULL (queue size 256, no slot offered, jobs never '
                      'submitted handed back)' % (name, rets[-1]['loc'], ' (callers that changed the ring rely on this function to normalise it)'
                                                  if name in relied_on else ''), detail=ok)


def stage_calls(P, tu, fname, order, depth=0, seen=None):
    """the stage operations (cipher / hash submit and flush, resubmit) a function can reach for one chain order, each with the
    ordinal of its first occurrence on a path — through helpers of the same TU, not into the dispatch functions themselves"""
    seen = seen if seen is not None else set()
    if (fname, order) in seen or depth > 3 or not P.has(tu, fname):
        return set()
    seen.add((fname, order))
    f = P.func(tu, fname)
    out = set()
    for b in f.reachable(None, {'.chain_order': order}):
        for ev in f.blocks[b]['ev']:
            for k in ('e', 'rhs', 'val', 'lhs'):
                for n in cf.walk(ev.get(k) or {}):
                    if n.get('k') != 'call' or not n.get('fn'):
                        continue
                    rn = role_name(n['fn'])
                    if rn in ('CIPHER_SUBMIT', 'HASH_SUBMIT', 'CIPHER_FLUSH', 'HASH_FLUSH', 'RESUBMIT'):
                        out.add(rn)
                    elif P.has(tu, n['fn']):
                        out |= stage_calls(P, tu, n['fn'], order, depth + 1, seen)
            if ev['k'] == 'decl':
                for d in ev['d']:
                    for n in cf.walk(d.get('init') or {}):
                        if n.get('k') == 'call' and n.get('fn'):
                            rn = role_name(n['fn'])
                            if rn in ('CIPHER_SUBMIT', 'HASH_SUBMIT', 'CIPHER_FLUSH', 'HASH_FLUSH', 'RESUBMIT'):
                                out.add(rn)
                            elif P.has(tu, n['fn']):
                                out |= stage_calls(P, tu, n['fn'], order, depth + 1, seen)
    return out


def skeleton(f):
    """order-insensitive-free structural skeleton: per block in CFG order, events (call names mapped to roles, assignment
    targets) and canonical terminator condition"""
    out = []
    order = []
    seen = set()
    st = [f.entry]
    while st:
        b = st.pop()
        if b in seen:
            continue
        seen.add(b)
        order.append(b)
        for s in reversed(f.succ(b)):
            st.append(s)
    idx = {b: i for i, b in enumerate(order)}
    for b in order:
        evs = []
        for ev in f.blocks[b]['ev']:
            if ev['k'] == 'call':
                evs.append('call ' + role_name(ev['e'].get('fn')))
            elif ev['k'] == 'assign':
                evs.append('asg %s %s' % (guards.lv(ev['lhs']), ev['op']))
            elif ev['k'] == 'return':
                evs.append('ret ' + (_retname(ev['val']) if ev.get('val') is not None else ''))
            elif ev['k'] == 'decl':
                evs.append('decl ' + ','.join(d['n'] for d in ev['d']))
        t = f.blocks[b].get('term')
        c = guards.canon(t.get('fullcond') or t.get('cond')) if t and t.get('cond') else None
        out.append((tuple(evs), c, tuple(idx.get(s) for s in f.succ(b))))
    return out


def _retname(e):
    e = cf.strip_casts(e)
    if isinstance(e, dict) and e.get('k') == 'call':
        return role_name(e.get('fn')) + '()'
    return guards.lv(e)


def _firstdiff(a, b):
    for i, (x, y) in enumerate(zip(a, b)):
        if x != y:
            return 'block %d: %s  vs  %s' % (i, x, y)
    return 'length %d vs %d' % (len(a), len(b))


def _is_jobs0(ev, n):
    # &state->jobs[0]
    for k in ('lhs', 'rhs', 'e', 'val'):
        for x in cf.walk(ev.get(k) or {}):
            if x.get('k') == 'un' and x['op'] == '&':
                y = cf.strip_casts(x['e'])
                if y.get('k') == 'idx' and cf.strip_casts(y['b']) is n and cf.is_int(y['i'], 0):
                    return True
    return False


def _must_precede(f, bid, pred):
    """every path from entry to block bid contains an event satisfying pred"""
    stop = {b for b in f.blocks if any(pred(e) for e in f.blocks[b]['ev'])}
    if bid in stop:
        # the event must come before the terminator: events precede terminators by construction
        return True, None
    reach = f.reachable(stop=lambda b: b in stop)
    return (bid not in reach), None


def _nonempty_here(P, tu, f, b, dom):
    """block b is dominated by: the false edge of `earliest_job < 0`; or by an assignment earliest_job = next_job; or by the
    false edge of a `queue_sz(state) == 0`-style early return"""
    for d in dom.get(b, ()):
        db = f.blocks[d]
        for ev in db['ev']:
            if ev['k'] == 'assign' and ring_field(ev['lhs']) == 'earliest_job' and ring_field(ev.get('rhs')) == 'next_job' and d != b:
                return True
        t = db.get('term')
        if not t or t['kind'] != 'IfStmt' or len(db['succ']) != 2:
            continue
        # a test kept in a single-definition local (`const int was_empty = state->earliest_job < 0`) counts as written out
        with guards.in_function(f):
            c = guards.canon(guards.expand(f, t.get('fullcond') or t['cond'], d))
        if c in ('state->earliest_job < 0', 'state->earliest_job >= 0'):
            # either the non-empty successor dominates b, or the empty branch terminates / establishes non-emptiness
            fs, ts = (db['succ'][1], db['succ'][0]) if c == 'state->earliest_job < 0' else (db['succ'][0], db['succ'][1])
            if fs in dom.get(b, ()) and (ts not in dom.get(b, ())):
                return True
            tb = f.blocks[ts]
            if any(ev['k'] == 'return' for ev in tb['ev']) or any(
                    ev['k'] == 'assign' and ring_field(ev['lhs']) == 'earliest_job' and ring_field(ev.get('rhs')) == 'next_job' for ev in tb['ev']):
                return True
            # both branches end in goto exit (submit: previously-empty branch leaves through `goto exit`)
            if b not in f.reachable(ts):
                return True
        m = re.match(r'^(\w+) == 0$', c or '')
        if m:
            # variable initialised from queue_sz(state)
            var = m.group(1)
            for _, _, ev in f.events(('assign', 'decl')):
                rhs = None
                if ev['k'] == 'assign' and cf.strip_casts(ev['lhs']).get('n') == var:
                    rhs = ev.get('rhs')
                if ev['k'] == 'decl':
                    for dd in ev['d']:
                        if dd['n'] == var:
                            rhs = dd.get('init')
                rr = cf.strip_casts(rhs) if rhs else None
                if isinstance(rr, dict) and rr.get('k') == 'call' and rr.get('fn') == 'queue_sz':
                    tb = f.blocks[db['succ'][0]]
                    if any(e['k'] == 'return' for e in tb['ev']):
                        return True
    return False
