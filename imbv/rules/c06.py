"""C06 — every permitted cipher x hash suite runs exactly the named algorithms (decided cell by cell).
T1 table geometry / index arithmetic   T2 cell agreement (mode, key size, direction, family of every kernel reached)
T3 accepted set from the validators (light and full agree; AEAD pairing symmetric)   T4 stage bits
T5 chain order / GCM bypass   T6 submit/flush pairing on the same out-of-order manager"""
import re
from .. import cf, guards, build, dispatch as D
from . import shared
from .c14 import _recname

# tokens a mode may show besides its own name's tokens (one reason each)
EXTRA = {
    'IMB_CIPHER_DOCSIS_SEC_BPI': {'cbc': 'DOCSIS BPI is AES-CBC with', 'cfb': 'CFB residual-block termination', 'crc': 'optional CRC32 insertion'},
    'IMB_CIPHER_DES': {'cbc': 'DES mode is DES-CBC'},
    'IMB_CIPHER_DES3': {'cbc': '3DES mode is 3DES-CBC'},
    'IMB_CIPHER_CCM': {'ctr': 'CCM cipher stage is AES-CTR'},
    'IMB_CIPHER_CHACHA20_POLY1305': {'aead': 'kernel is named aead_chacha20_poly1305'},
    'IMB_CIPHER_CHACHA20_POLY1305_SGL': {'aead': 'kernel is named aead_chacha20_poly1305_sgl'},
    'IMB_CIPHER_SNOW_V_AEAD': {'ghash': 'SNOW-V AEAD authenticates with GHASH'},
    'IMB_CIPHER_SM4_GCM': {'ctr': 'SM4-GCM = SM4-CTR +', 'ecb': 'hash key from SM4-ECB of zero block +', 'ghash': 'GHASH'},
    'IMB_CIPHER_PON_AES_CNTR': {'crc': 'PON computes CRC/BIP alongside'},
}
HEXTRA = {
    'IMB_AUTH_AES_CCM': {'cbc': 'CCM authentication is CBC-MAC'},
    'IMB_AUTH_PON_CRC_BIP': {},
    'IMB_AUTH_SNOW_V_AEAD': {}, 'IMB_AUTH_DOCSIS_CRC32': {'ethernet': '', 'fcs': ''},
}
ONE_SIDED = {('IMB_CIPHER_DOCSIS_SEC_BPI', 'IMB_AUTH_DOCSIS_CRC32'):
             'DOCSIS BPI is a documented stand-alone cipher mode; only the CRC32 side requires the pairing'}
SKIP_CALLS = {'imb_set_errno', 'memcpy', 'memset', 'memmove', 'BSWAP64', '__builtin_bswap64', '__builtin_bswap32', 'clear_mem',
              'force_memset_zero', 'clear_var', 'clear_scratch_gps', 'clear_scratch_xmms_sse', 'clear_scratch_xmms_avx',
              'clear_scratch_ymms', 'clear_scratch_zmms', 'CLEAR_SCRATCH_GPS', 'CLEAR_SCRATCH_SIMD_REGS'}


def resolve(M, tu, name):
    return M[tu].get(name, name)


def key_class(k):
    return ((k - 1) >> 3) & 3


def accepted_keys(P, tu, fn, modes):
    """{mode enumerator: set(key lengths) | None (= any)} extracted from the key_len guards of a validator"""
    f = P.func(tu, fn)
    cat = guards.catalogue(f)
    inv = {v: v for k, v in modes.items()}
    acc = {}
    cond_only = {}
    seen_modes = set()
    for g in cat:
        for sexpr, vals in g['cases'].items():
            if 'cipher_mode' in sexpr:
                for v in vals:
                    if v != 'default':
                        seen_modes.add(v)
    # every explicit label of the cipher_mode switch is a mode the validator knows (a case may hold no guard at all)
    for sexpr, labs in guards.SWITCH_LABELS.get((f.tu, f.name), {}).items():
        if 'cipher_mode' in sexpr:
            seen_modes.update(v for v in labs if v != 'default')
    for g in cat:
        if g['err'] != 'IMB_ERR_JOB_KEY_LEN':
            continue
        ms = None
        for sexpr, vals in g['cases'].items():
            if 'cipher_mode' in sexpr:
                ms = [inv.get(v, v) for v in vals if v != 'default']
        if ms is None:
            raise build.AnalysisBroken('key length guard outside the cipher_mode switch at %s' % g['loc'])
        c = g['cond']
        m = re.match(r'^\(?((?:key_len_in_bytes != \d+(?: && )?)+)\)?$', c)
        only = None
        if not m:
            m2 = re.match(r'^\(cipher_mode == (\d+) && key_len_in_bytes != (\d+)\)$', c)
            if m2:
                only = inv.get(int(m2.group(1)))
                ks = {int(m2.group(2))}
            else:
                raise build.AnalysisBroken('unrecognised key length guard `%s` at %s' % (c, g['loc']))
        else:
            ks = {int(x) for x in re.findall(r'!= (\d+)', m.group(1))}
        if g['ctx']:
            if not all(re.match(r'^job->msg_len_to_cipher_in_bytes [!=]= 0$', x) for x in g['ctx']):
                raise build.AnalysisBroken('key length guard under unrecognised context %s at %s' % (g['ctx'], g['loc']))
            # the key is only constrained when there is something to cipher (PON without CTR): not an unconditional rule
            for mo in ms:
                cond_only.setdefault(mo, set()).update(ks)
            continue
        for mo in ms:
            if only and mo != only:
                continue
            acc[mo] = (acc[mo] & ks) if mo in acc else set(ks)
    for mo in seen_modes:
        acc.setdefault(mo, None)
    return acc, cond_only


def ooo_args(P, tu, calls):
    """{ooo field} handed to out-of-order manager routines (callees not defined in this TU), resolving locals through
    the nearest preceding initialiser `T *p = state-><x>_ooo` (same block first, then function-wide if unique)"""
    out = set()
    for c in calls:
        if not c.get('name') or P.has(tu, c['name']) or not P.has(tu, c['in']):
            continue
        f = P.func(tu, c['in'])
        for a in c['args']:
            a = cf.strip_casts(a)
            if not isinstance(a, dict):
                continue
            if a.get('k') == 'mem' and a['f'].endswith('_ooo'):
                out.add(a['f'])
            elif a.get('k') == 'ref' and not a.get('p') and not a.get('g'):
                fld = None
                if 'bid' in c:
                    for ev in reversed(f.blocks[c['bid']]['ev'][:c['idx']]):
                        if ev['k'] == 'decl':
                            for d in ev['d']:
                                i = cf.strip_casts(d.get('init'))
                                if d['n'] == a['n'] and isinstance(i, dict) and i.get('k') == 'mem' and i['f'].endswith('_ooo'):
                                    fld = i['f']
                        if fld:
                            break
                if fld is None:
                    cands = set()
                    for _, _, ev in f.events(('decl', 'assign')):
                        if ev['k'] == 'decl':
                            for d in ev['d']:
                                i = cf.strip_casts(d.get('init'))
                                if d['n'] == a['n'] and isinstance(i, dict) and i.get('k') == 'mem' and i['f'].endswith('_ooo'):
                                    cands.add(i['f'])
                        else:
                            l = cf.strip_casts(ev['lhs'])
                            i = cf.strip_casts(ev.get('rhs'))
                            if l.get('k') == 'ref' and l['n'] == a['n'] and isinstance(i, dict) and i.get('k') == 'mem' and i['f'].endswith('_ooo'):
                                cands.add(i['f'])
                    if len(cands) == 1:
                        fld = cands.pop()
                    elif len(cands) > 1:
                        fld = '?ambiguous:' + ','.join(sorted(cands))
                if fld:
                    out.add(fld)
    return out


def cell_names(calls):
    names = set()
    for c in calls:
        for n in (c['name'], c['macro']):
            if n and n not in SKIP_CALLS and not n.startswith(('__builtin', '_mm')):
                names.add(n)
    return names


def wrapper_target(P, tu, M, wname):
    """a table entry wrapper: its single dispatch call -> (callee name, [const args after state, job])"""
    f = P.func(tu, wname)
    calls = [ev for _, _, ev in f.calls()]
    if len(calls) != 1:
        return None
    e = calls[0]['e']
    return e.get('fn'), [cf.evalc(a) for a in e['a'][2:]], calls[0].get('macro')


class _Mute:
    """a rule sink that records nothing (used when only the cell rules are wanted)"""
    instances = 0

    def ok(self, *a, **k):
        pass

    def bad(self, *a, **k):
        pass

    def check(self, cond, *a, **k):
        return cond

    def note(self, *a):
        pass


def run(chk, mode_filter=None, alg_filter=None, only_cells=False, ids=('T2', 'T2h', 'T6')):
    P = cf.Program()
    M = build.macros()
    modes = {k: v for k, v in P.enum_types['IMB_CIPHER_MODE'].items()}
    algs = {k: v for k, v in P.enum_types['IMB_HASH_ALG'].items()}
    inv_modes = {}
    for k, v in modes.items():
        inv_modes.setdefault(v, k)  # first name wins (aliases CNTR/CTR share a value)
    inv_algs = {}
    for k, v in algs.items():
        inv_algs.setdefault(v, k)
    NUM = modes.get('IMB_CIPHER_NUM')
    ANUM = algs.get('IMB_AUTH_NUM')
    ENC = P.enum('IMB_DIR_ENCRYPT')
    if not only_cells:
        chk.explanation = ('The finite cipher x key-size x direction and hash matrices are decided cell by cell from the source of every variant '
                       'TU: table geometry and the index arithmetic shared by writer and readers; for every cell that validation accepts, '
                       'constant propagation of (mode, key size) through the dispatch functions yields the set of kernels reached, whose '
                       'names must carry the mode\'s family, the job\'s key size and the table\'s direction; the accepted set is extracted '
                       'from the two validators, which must agree, with symmetric AEAD pairing; stage bits, chain order and '
                       'submit/flush pairing on the same out-of-order manager. Not decided: that the kernel behind a correct cell '
                       'computes the algorithm.')
    if only_cells:
        t1 = t3 = t4 = t5 = _Mute()
        t2 = chk.rule(ids[0], 'every accepted cipher table cell of the selected modes dispatches to kernels of the named mode, key size '
                              'and direction (all variants)', floor=100) if mode_filter else _Mute()
        t2h = chk.rule(ids[1], 'every hash table cell of the selected algorithms dispatches to kernels of the named algorithm / digest size',
                       floor=100) if alg_filter else _Mute()
        t6 = chk.rule(ids[2], 'selected cells flush the out-of-order manager they park jobs in', floor=50)
    else:
        t1 = chk.rule('T1', 'table geometry and index arithmetic agree between set_cipher_suite_id / SUBMIT_JOB_CIPHER / CALL_* readers', floor=40)
        t2 = chk.rule('T2', 'every accepted table cell dispatches to kernels of the named mode, key size and direction', floor=1500)
        t2h = chk.rule('T2h', 'hash table entry i wraps the dispatch of algorithm i and reaches kernels of that algorithm', floor=700)
        t3 = chk.rule('T3', 'accepted (mode,key) sets: light and full validator agree; AEAD pairing rules are symmetric', floor=60)
        t4 = chk.rule('T4', 'cipher dispatch ORs only COMPLETED_CIPHER (or COMPLETED for whole-job AEAD), hash dispatch only COMPLETED_AUTH', floor=300)
        t5 = chk.rule('T5', 'submit_new_job: GCM bypass only for IMB_CIPHER_GCM, first stage by chain_order, then RESUBMIT', floor=16)
        t6 = chk.rule('T6', 'a cell that parks jobs in an out-of-order manager flushes the same manager', floor=400)
        run_t7(chk, P)
        run_t11(chk, P)
        # asm side of T4: stage bits are OR-ed into job->status (rule J2 of C14, shared)
        from . import c14 as _c14
        _c14.run_j2(chk, P)
        # the burst path dispatches by suite id: its guards (stale suite id rejected, ...) are those of the reference tree
        from . import c12 as _c12
        _c12.run_v9(chk, P, 'T9', lambda fn: 'burst' in fn, 100)
        from . import callctx
        _vt = set(P.variant_tus())
        # the job / burst dispatch code lives in the nine variant TUs; range checks of common code (error-string lookup, ...) are not its subject
        callctx.rule_call_contexts(chk, P, 'T10', lambda tu, fn, callee, cargs, atoms: tu in _vt, 1000)
    nvar = 0
    acc_ref = None
    for tu in P.variant_tus():
        vt = tu.split('__')[0]
        if not P.has(tu, 'calc_cipher_tab_index'):
            chk.broken('%s: calc_cipher_tab_index missing' % tu)
            continue
        nvar += 1
        tabs = {n: P.table(tu, n) for n in ('tab_submit_cipher', 'tab_flush_cipher', 'tab_submit_hash', 'tab_flush_hash')}
        GAP = None
        # ---- T1
        f = P.func(tu, 'calc_cipher_tab_index')
        rets = [ev for _, _, ev in f.events(('return',))]
        c = guards.lv(rets[0]['val']) if rets else ''
        m = re.search(r'job->cipher_mode << (\d+)', c)
        m2 = re.search(r'\(\(job->cipher_direction & (\d+)\) << (\d+)\)|\(\((\d+) & job->cipher_direction\) << (\d+)\)', c)
        m3 = re.search(r'\(3 & \(\(job->key_len_in_bytes - 1\) >> 3\)\)|\(\(\(job->key_len_in_bytes - 1\) >> 3\) & 3\)', c)
        okidx = bool(m and m2 and m3 and int(m.group(1)) == 2)
        t1.check(okidx, vt + ':index', f.loc, 'calc_cipher_tab_index is no longer (mode<<2) + ((key_len-1)>>3 & 3) + ((dir & ENC) << s): %s' % c)
        if okidx:
            g = [x for x in m2.groups() if x is not None]
            dmask, dshift = int(g[0]), int(g[1])
            GAP = (1 << dshift) // 4 * 1 if dmask == 1 else None
            # encrypt half offset = (ENC & mask) << shift
            encoff = (ENC & dmask) << dshift
            t1.check(len(tabs['tab_submit_cipher']['elems']) == 2 * encoff and len(tabs['tab_flush_cipher']['elems']) == 2 * encoff,
                     vt + ':len', tabs['tab_submit_cipher']['loc'],
                     'cipher tables have %d/%d entries, index arithmetic addresses %d' % (
                         len(tabs['tab_submit_cipher']['elems']), len(tabs['tab_flush_cipher']['elems']), 2 * encoff))
            t1.check(NUM * 4 <= encoff, vt + ':gap', f.loc, 'IMB_CIPHER_NUM*4 = %d exceeds the per-direction table half %d' % (NUM * 4, encoff))
        else:
            continue
        t1.check(len(tabs['tab_submit_hash']['elems']) == ANUM and len(tabs['tab_flush_hash']['elems']) == ANUM, vt + ':hashlen',
                 tabs['tab_submit_hash']['loc'], 'hash tables have %d/%d entries, IMB_AUTH_NUM is %d' % (
                     len(tabs['tab_submit_hash']['elems']), len(tabs['tab_flush_hash']['elems']), ANUM))
        # readers
        for fn, tab, idxkind in (('SUBMIT_JOB_CIPHER', 'tab_submit_cipher', 'calc'), ('FLUSH_JOB_CIPHER', 'tab_flush_cipher', 'calc'),
                                 ('CALL_SUBMIT_CIPHER', 'tab_submit_cipher', 'suite0'), ('CALL_FLUSH_CIPHER', 'tab_flush_cipher', 'suite0'),
                                 ('CALL_SUBMIT_HASH', 'tab_submit_hash', 'suite1'), ('CALL_FLUSH_HASH', 'tab_flush_hash', 'suite1'),
                                 ('SUBMIT_JOB_HASH', 'tab_submit_hash', 'hash'), ('FLUSH_JOB_HASH', 'tab_flush_hash', 'hash')):
            rf = resolve(M, tu, fn)
            if not P.has(tu, rf):
                t1.bad('%s:%s' % (vt, fn), tu, '%s not found' % fn)
                continue
            g = P.func(tu, rf)
            ok = False
            what = ''
            for _, _, ev in g.calls():
                ce = cf.strip_casts(ev['e'].get('callee'))
                if isinstance(ce, dict) and ce.get('k') == 'idx':
                    base = cf.strip_casts(ce['b'])
                    what = guards.lv(ce)
                    if base.get('n') != tab:
                        continue
                    idx = cf.strip_casts(ce['i'])
                    if idxkind == 'calc':
                        # idx is a local initialised from calc_cipher_tab_index(job)
                        ok = _local_from(g, idx, lambda e: e.get('k') == 'call' and e.get('fn') == 'calc_cipher_tab_index')
                    elif idxkind.startswith('suite'):
                        n = int(idxkind[-1])
                        ok = _local_from(g, idx, lambda e, n=n: e.get('k') == 'idx' and cf.strip_casts(e['b']).get('f') == 'suite_id' and cf.is_int(e['i'], n)) or \
                            (idx.get('k') == 'idx' and cf.strip_casts(idx['b']).get('f') == 'suite_id' and cf.is_int(idx['i'], n))
                    else:
                        ok = _local_from(g, idx, lambda e: e.get('k') == 'mem' and e['f'] == 'hash_alg') or \
                            (idx.get('k') == 'mem' and idx['f'] == 'hash_alg')
            t1.check(ok, '%s:%s' % (vt, fn), g.loc, '%s does not index %s with the agreed index (%s)' % (fn, tab, what))
        if P.has(tu, 'set_cipher_suite_id'):
            g = P.func(tu, 'set_cipher_suite_id')
            asg = {}
            for _, _, ev in g.events(('assign',)):
                l = cf.strip_casts(ev['lhs'])
                if l.get('k') == 'idx' and cf.strip_casts(l['b']).get('n') == 'id':
                    asg[cf.evalc(l['i'])] = ev.get('rhs')
            ok0 = 0 in asg and _local_from(g, cf.strip_casts(asg[0]), lambda e: e.get('k') == 'call' and e.get('fn') == 'calc_cipher_tab_index')
            ok1 = 1 in asg and _local_from(g, cf.strip_casts(asg[1]), lambda e: e.get('k') == 'mem' and e['f'] == 'hash_alg')
            t1.check(ok0 and ok1, vt + ':set_cipher_suite_id', g.loc,
                     'set_cipher_suite_id no longer stores (calc_cipher_tab_index(job), job->hash_alg)')
        # ---- T3
        acc, cond = accepted_keys(P, tu, 'is_job_invalid', modes)
        accl, _ = accepted_keys(P, tu, 'is_job_invalid_light', modes)
        for mo in sorted(set(acc) | set(accl)):
            t3.check(acc.get(mo, 'absent') == accl.get(mo, 'absent'), '%s:%s' % (vt, inv_modes.get(mo, mo)), tu,
                     'validators disagree on key lengths of %s: full %s, light %s' % (
                         inv_modes.get(mo, mo), acc.get(mo, 'mode rejected'), accl.get(mo, 'mode rejected')))
        if acc_ref is None:
            acc_ref = acc
        for name, v in modes.items():
            if name in ('IMB_CIPHER_NUM',) or v == 0:
                continue
            t3.check(v in acc, '%s:%s accepted' % (vt, name), tu, 'mode %s is rejected by is_job_invalid' % name)
        _pairing(t3, P, tu, vt, modes, algs)
        # ---- T2 cipher cells
        for tabname, op in (('tab_submit_cipher', 'submit'), ('tab_flush_cipher', 'flush')):
            tab = tabs[tabname]
            for i, el in enumerate(tab['elems']):
                half = i // encoff
                dirn = 'enc' if half == 1 else 'dec'
                mv = (i % encoff) >> 2
                cls = i & 3
                mname = inv_modes.get(mv)
                ent = cf.strip_casts(el['e'])
                ename = ent.get('n') if isinstance(ent, dict) and ent.get('k') == 'ref' else None
                key = '%s:%s[%s,%s,class%d]' % (vt, tabname, dirn, (mname or mv), cls)
                if mname is None or mname == 'IMB_CIPHER_NUM' or mv == 0 or mv >= NUM:
                    continue
                if only_cells and not (mode_filter and mode_filter(mname)):
                    continue
                ks = acc.get(mv)
                if ks is None and mv in cond:
                    ks = cond[mv]  # key only constrained when ciphering happens: check the cells of those key sizes
                okk = [k for k in (ks if ks is not None else (8, 16, 24, 32)) if key_class(k) == cls]
                if not okk:
                    # cell not reachable by a validated job: anything callable is fine, but a valid mode must not be NULL
                    t2.check(ename is not None, key + ':nonnull', el['loc'], 'table cell for valid mode %s is NULL' % mname)
                    continue
                if ename is None:
                    t2.bad(key, el['loc'], 'accepted cell (%s, key %s, %s) holds no function' % (mname, okk, dirn))
                    continue
                wt = wrapper_target(P, tu, M, ename) if P.has(tu, ename) else None
                if wt is None and not P.has(tu, ename) and P.decl(ename, tu) is not None:
                    # the table holds a kernel directly (GCM: #define submit_cipher_*_aes_gcm_* AES_GCM_*_IV_*)
                    wt = (ename, [], None)
                if wt is None:
                    t2.bad(key, el['loc'], 'table entry %s is not a single-dispatch wrapper' % ename)
                    continue
                callee, cargs, mac = wt
                want = resolve(M, tu, '%s_JOB_CIPHER_%s' % (op.upper(), dirn.upper()))
                gcm_direct = callee is not None and 'gcm' in D.raw_tokens(callee) and mname == 'IMB_CIPHER_GCM'
                if callee != want and not gcm_direct:
                    t2.bad(key, el['loc'], '%s entry %s calls %s, expected %s' % (tabname, ename, callee, want))
                    continue
                for K in okk:
                    if gcm_direct:
                        calls = [{'name': callee, 'macro': mac, 'args': [], 'in': ename, 'loc': el['loc']}]
                        calls += D.collect_calls(P, tu, callee, {}) if P.has(tu, callee) else []
                        mode_arg, key_arg = mv, K
                    else:
                        mode_arg, key_arg = (cargs + [None, None])[:2]
                        if mode_arg != mv:
                            t2.bad(key, el['loc'], 'cell of %s dispatches mode %s' % (mname, inv_modes.get(mode_arg, mode_arg)))
                            continue
                        calls = D.collect_calls(P, tu, want, {'cipher_mode': mode_arg, 'key_sz': key_arg})
                    names = cell_names(calls)
                    fam, _ = D.enum_family(mname)
                    fam -= {'null'}
                    toks = set()
                    for n in names:
                        toks |= D.family_tokens(n)
                    allowed = fam | set(EXTRA.get(mname, {}))
                    bad = []
                    if op == 'submit' or names:
                        if fam - toks and (op == 'submit'):
                            bad.append('no kernel of family %s is reached (reached: %s)' % (sorted(fam - toks), sorted(names)[:6]))
                        if toks - allowed:
                            off = sorted(n for n in names if D.family_tokens(n) - allowed)
                            bad.append('reaches %s whose family %s is not part of %s' % (off[:4], sorted(toks - allowed), mname))
                    for n in sorted(names):
                        dn = D.dims(n)
                        if dn['key'] and D.KEYBITS[K] not in dn['key']:
                            bad.append('%s is a %s-bit kernel but the job has a %d-byte key' % (n, '/'.join(sorted(dn['key'])), K))
                        if dn['dir'] and dn['dir'] != {dirn} and dn['dir'] != {'enc', 'dec'} and not (n.startswith(('IMB_', 'SUBMIT_JOB_AES_CBC', 'FLUSH_JOB_AES_CBC', 'submit_job_aes', 'flush_job_aes')) and mname in ('IMB_CIPHER_GCM_SGL', 'IMB_CIPHER_DOCSIS_SEC_BPI')):
                            if not _dir_exception(mname, n, dirn):
                                bad.append('%s is a %s kernel in the %s table half' % (n, '/'.join(sorted(dn['dir'])), dirn))
                        if dn['op'] and dn['op'] != {op} and n.lower().startswith(('submit_job', 'flush_job')):
                            bad.append('%s reached from the %s table' % (n, op))
                    t2.check(not bad, key + ':K%d' % K, el['loc'], '%s (%s, %d-byte key, %s): %s' % (ename, mname, K, dirn, '; '.join(bad[:3])),
                             detail={'kernels': sorted(names)[:8]})
                    # ---- T6 pairing (collected per cell for submit, compared against flush below)
                    if op == 'submit':
                        sub_ooo = ooo_args(P, tu, calls)
                        fl_want = resolve(M, tu, 'FLUSH_JOB_CIPHER_%s' % dirn.upper())
                        fcalls = D.collect_calls(P, tu, fl_want, {'cipher_mode': mode_arg, 'key_sz': key_arg}) if not gcm_direct else []
                        fl_ooo = ooo_args(P, tu, fcalls)
                        t6.check(sub_ooo <= fl_ooo, key + ':K%d:ooo' % K, el['loc'],
                                 '%s with %d-byte key parks jobs in %s but the flush path reaches %s' % (mname, K, sorted(sub_ooo), sorted(fl_ooo)))
                        for o in sub_ooo:
                            do = D.dims(o)
                            t6.check(not do['key'] or D.KEYBITS[K] in do['key'], key + ':K%d:%s' % (K, o), el['loc'],
                                     '%s with %d-byte key uses manager %s' % (mname, K, o))
        # ---- T2h hash cells
        for tabname, op in (('tab_submit_hash', 'submit'), ('tab_flush_hash', 'flush')):
            tab = tabs[tabname]
            want = resolve(M, tu, '%s_JOB_HASH_EX' % op.upper())
            for i, el in enumerate(tab['elems']):
                aname = inv_algs.get(i)
                ent = cf.strip_casts(el['e'])
                ename = ent.get('n') if isinstance(ent, dict) and ent.get('k') == 'ref' else None
                key = '%s:%s[%s]' % (vt, tabname, aname or i)
                if i == 0:
                    continue
                if only_cells and not (alg_filter and alg_filter(aname)):
                    continue
                if ename is None or not P.has(tu, ename):
                    t2h.bad(key, el['loc'], 'hash table entry %d (%s) is not a function' % (i, aname))
                    continue
                wt = wrapper_target(P, tu, M, ename)
                if wt is None or wt[0] != want:
                    t2h.bad(key, el['loc'], 'entry %s does not call %s' % (ename, want))
                    continue
                alg_arg = wt[1][0] if wt[1] else None
                if alg_arg != i:
                    t2h.bad(key, el['loc'], 'entry %d (%s) dispatches algorithm %s' % (i, aname, inv_algs.get(alg_arg, alg_arg)))
                    continue
                calls = D.collect_calls(P, tu, want, {'hash_alg': i})
                names = cell_names(calls)
                fam, allt = D.enum_family(aname)
                fam -= {'null', 'custom'} if aname != 'IMB_AUTH_CUSTOM' else set()
                toks = set()
                for n in names:
                    toks |= D.family_tokens(n)
                bad = []
                if op == 'submit' and aname not in ('IMB_AUTH_NULL',) and _hash_dispatched_here(aname):
                    if not (fam & toks) and fam:
                        bad.append('no kernel of family %s reached (reached %s)' % (sorted(fam), sorted(names)[:6]))
                for n in sorted(names):
                    dn = D.dims(n)
                    da = D.dims(re.sub(r'^IMB_AUTH_', '', aname))
                    if dn['digest'] and da['digest'] and dn['digest'] != da['digest']:
                        bad.append('%s is a SHA-%s kernel under %s' % (n, '/'.join(sorted(dn['digest'])), aname))
                    if dn['key'] and da['key'] and dn['key'] != da['key']:
                        bad.append('%s has key/size token %s under %s' % (n, '/'.join(sorted(dn['key'])), aname))
                    if dn['op'] and dn['op'] != {op} and n.lower().startswith(('submit_job', 'flush_job')):
                        bad.append('%s reached from the %s table' % (n, op))
                    hm = 'hmac' in D.raw_tokens(n)
                    if dn['digest'] and ('hmac' in allt) != hm and 'sha' in D.raw_tokens(n):
                        bad.append('%s mixes plain/HMAC with %s' % (n, aname))
                t2h.check(not bad, key, el['loc'], '%s (%s): %s' % (ename, aname, '; '.join(bad[:3])), detail={'kernels': sorted(names)[:6]})
                if op == 'submit':
                    so = ooo_args(P, tu, calls)
                    fw = resolve(M, tu, 'FLUSH_JOB_HASH_EX')
                    fo = ooo_args(P, tu, D.collect_calls(P, tu, fw, {'hash_alg': i}))
                    t6.check(so <= fo, key + ':ooo', el['loc'], '%s parks jobs in %s but its flush path reaches %s' % (aname, sorted(so), sorted(fo)))
                    for o in so:
                        do = D.dims(o)
                        da = D.dims(re.sub(r'^IMB_AUTH_', '', aname))
                        t6.check(not (do['digest'] and da['digest'] and do['digest'] != da['digest']) and
                                 not (do['key'] and da['key'] and do['key'] != da['key']), key + ':' + o, el['loc'],
                                 '%s uses manager %s' % (aname, o))
        if only_cells:
            continue
        # ---- T4 stage bits
        CIPH = P.enum('IMB_STATUS_COMPLETED_CIPHER')
        AUTH = P.enum('IMB_STATUS_COMPLETED_AUTH')
        COMP = P.enum('IMB_STATUS_COMPLETED')
        for roots, okbits, what in (
                ([resolve(M, tu, x) for x in ('SUBMIT_JOB_CIPHER_ENC', 'SUBMIT_JOB_CIPHER_DEC', 'FLUSH_JOB_CIPHER_ENC', 'FLUSH_JOB_CIPHER_DEC')],
                 {CIPH, COMP}, 'cipher'),
                ([resolve(M, tu, x) for x in ('SUBMIT_JOB_HASH_EX', 'FLUSH_JOB_HASH_EX')], {AUTH}, 'hash')):
            seen = set()
            st = list(roots)
            while st:
                fn = st.pop()
                if fn in seen or not P.has(tu, fn):
                    continue
                seen.add(fn)
                g = P.func(tu, fn)
                for _, _, ev in g.events(('assign', 'call')):
                    if ev['k'] == 'call':
                        if ev['e'].get('fn'):
                            st.append(ev['e']['fn'])
                        continue
                    l = cf.strip_casts(ev['lhs'])
                    if l.get('k') == 'mem' and l['f'] == 'status':
                        v = cf.evalc(ev.get('rhs'))
                        # a stage bit is OR-ed in (the other stage may have completed already: assigning it would run that stage
                        # again after RESUBMIT); only whole-job outcomes are assigned
                        okb = (ev['op'] == '|=' and v in okbits) or (ev['op'] == '=' and v in (COMP, P.enum('IMB_STATUS_INTERNAL_ERROR')))
                        # whole-job AEAD helpers are shared by both stages; they assign COMPLETED
                        t4.check(okb, '%s:%s:%s@%s' % (vt, what, fn, (ev.get('sloc') or ev['loc']).split(':')[-1]), ev.get('sloc') or ev['loc'],
                                 '%s dispatch (%s) sets status %s %s: the %s stage would be recorded as the other stage' % (
                                     what, fn, ev['op'], cf.render(ev.get('rhs')), what))
        # ---- T5
        for fn, sc, sh, rs in (('submit_new_job', 'SUBMIT_JOB_CIPHER', 'SUBMIT_JOB_HASH', 'RESUBMIT_JOB'),
                               ('submit_new_burst_job', 'CALL_SUBMIT_CIPHER', 'CALL_SUBMIT_HASH', 'RESUBMIT_BURST_JOB')):
            if not P.has(tu, fn):
                t5.bad('%s:%s' % (vt, fn), tu, '%s missing' % fn)
                continue
            g = P.func(tu, fn)
            sh_r = resolve(M, tu, sh)
            ok = True
            why = ''
            # first branch: cipher_mode == GCM -> return cipher submit
            conds = []
            for bid, b in g.blocks.items():
                t = b.get('term')
                if t and t['kind'] == 'IfStmt':
                    conds.append((guards.canon(t['fullcond']), bid))
            cs = {c for c, _ in conds}
            if 'job->cipher_mode == %d' % modes['IMB_CIPHER_GCM'] not in cs:
                ok, why = False, 'GCM bypass test changed: %s' % sorted(cs)
            co = 'job->chain_order == %d' % P.enum('IMB_ORDER_CIPHER_HASH')
            if co not in cs:
                ok, why = False, 'chain order test changed: %s' % sorted(cs)
            else:
                # which stage is submitted first is decided by constant propagation of the chain order (whatever the statement shape:
                # assign-then-resubmit, or `return RESUBMIT(state, SUBMIT_x(state, job))`)
                from . import c05
                ch = P.enum('IMB_ORDER_CIPHER_HASH')
                hc = P.enum('IMB_ORDER_HASH_CIPHER')
                tc = c05.stage_calls(P, tu, fn, ch) - {'RESUBMIT'}
                fc = c05.stage_calls(P, tu, fn, hc) - {'RESUBMIT'}
                # the GCM bypass submits the cipher stage alone whatever the order
                if tc != {'CIPHER_SUBMIT'} or fc - {'CIPHER_SUBMIT'} != {'HASH_SUBMIT'}:
                    ok, why = False, 'CIPHER_HASH order starts with %s, HASH_CIPHER with %s' % (sorted(tc), sorted(fc))
            # every non-bypass path ends with RESUBMIT
            if not any(ev['e'].get('fn') == rs for _, _, ev in g.calls()):
                ok, why = False, 'no %s after the first stage' % rs
            t5.check(ok, '%s:%s' % (vt, fn), g.loc, '%s: %s' % (fn, why))
    if nvar < 8:
        chk.broken('only %d variant TUs analysed' % nvar)


def _hash_dispatched_here(aname):
    # algorithms whose processing is done entirely by the cipher stage (hash stage is a no-op by design)
    return aname not in ('IMB_AUTH_AES_GMAC', 'IMB_AUTH_SM4_GCM', 'IMB_AUTH_PON_CRC_BIP', 'IMB_AUTH_SNOW_V_AEAD', 'IMB_AUTH_GCM_SGL',
                         'IMB_AUTH_CHACHA20_POLY1305', 'IMB_AUTH_CHACHA20_POLY1305_SGL', 'IMB_AUTH_DOCSIS_CRC32', 'IMB_AUTH_CUSTOM')


def _dir_exception(mname, n, dirn):
    # GCM finalisation is direction-free; decrypt of CTR-like modes uses the encrypt primitive; CFB decrypt uses the
    # encrypt key schedule kernels named *_enc for the residual block
    t = set(D.raw_tokens(n))
    if 'finalize' in t or 'gcm' in t and 'enc' in t and 'sgl' in D.raw_tokens(mname.lower()):
        return True
    if mname in ('IMB_CIPHER_DOCSIS_SEC_BPI',) and ('cfb' in t or 'one' in t):
        return True
    return False


def _local_from(f, idx, pred):
    """idx is a local whose initialiser/only assignment satisfies pred (or idx itself does)"""
    idx = cf.strip_casts(idx)
    if not isinstance(idx, dict):
        return False
    if pred(idx):
        return True
    if idx.get('k') != 'ref':
        return False
    for _, _, ev in f.events(('decl', 'assign')):
        if ev['k'] == 'decl':
            for d in ev['d']:
                if d['n'] == idx['n'] and d.get('init') is not None:
                    i = cf.strip_casts(d['init'])
                    return isinstance(i, dict) and pred(i)
        else:
            if cf.strip_casts(ev['lhs']).get('n') == idx['n']:
                i = cf.strip_casts(ev.get('rhs'))
                return isinstance(i, dict) and pred(i)
    return False


def _pairing(t3, P, tu, vt, modes, algs):
    """AEAD pairing: cipher-side rule M => H has the hash-side rule H => M, in both validators"""
    inv_m = {}
    for k, v in modes.items():
        inv_m.setdefault(v, k)
    inv_a = {}
    for k, v in algs.items():
        inv_a.setdefault(v, k)
    for fn in ('is_job_invalid', 'is_job_invalid_light'):
        cat = guards.catalogue(P.func(tu, fn))
        m2h = set()
        h2m = set()
        for g in cat:
            c = g['cond'] or ''
            mm = re.match(r'^hash_alg != (\d+)$', c)
            if mm and g['err'] == 'IMB_ERR_HASH_ALGO':
                for sexpr, vals in g['cases'].items():
                    if 'cipher_mode' in sexpr and len([v for v in vals if v != 'default']) == 1:
                        m2h.add((inv_m[[v for v in vals if v != 'default'][0]], inv_a[int(mm.group(1))]))
            mm = re.match(r'^\(cipher_mode == (\d+) && hash_alg != (\d+)\)$', c)
            if mm and g['err'] == 'IMB_ERR_HASH_ALGO':
                m2h.add((inv_m[int(mm.group(1))], inv_a[int(mm.group(2))]))
            mm = re.match(r'^cipher_mode != (\d+)$', c)
            if mm and g['err'] == 'IMB_ERR_CIPH_MODE':
                for sexpr, vals in g['cases'].items():
                    if 'hash_alg' in sexpr and len([v for v in vals if v != 'default']) == 1:
                        h2m.add((inv_m[int(mm.group(1))], inv_a[[v for v in vals if v != 'default'][0]]))
        for pr in sorted(m2h | h2m):
            if pr in ONE_SIDED:
                t3.ok('%s:%s:%s<->%s' % (vt, fn, pr[0], pr[1]), ONE_SIDED[pr])
                continue
            t3.check(pr in m2h and pr in h2m, '%s:%s:%s<->%s' % (vt, fn, pr[0], pr[1]), P.func(tu, fn).loc,
                     '%s: AEAD pairing %s <-> %s is enforced only on the %s side' % (fn, pr[0], pr[1], 'cipher' if pr in m2h else 'hash'))
        t3.check(len(m2h) >= 6, '%s:%s:pairs' % (vt, fn), P.func(tu, fn).loc, '%s enforces only %d AEAD pairings' % (fn, len(m2h)))


# ---------------------------------------------------------------------------------------------------------------------------
# T7: the stage handler of a job is looked up from that job's own suite id

_TAB = re.compile(r'^tab_(submit|flush)_(cipher|hash)$')


def _tab_reads(e, out, parent_call=None):
    e0 = cf.strip_casts(e)
    if not isinstance(e0, dict):
        return
    if e0.get('k') == 'idx':
        b = cf.strip_casts(e0['b'])
        if isinstance(b, dict) and b.get('k') == 'ref' and b.get('g') and _TAB.match(b['n']):
            out.append((b['n'], e0['i'], parent_call))
    if e0.get('k') == 'call':
        c = e0.get('callee')
        if isinstance(c, dict):
            _tab_reads(c, out, e0)
        for a in e0.get('a', []) or []:
            _tab_reads(a, out, None)
        return
    for key in ('l', 'r', 'e', 'b', 'i', 't', 'f', 'c'):
        v = e0.get(key)
        if isinstance(v, dict):
            _tab_reads(v, out, None)


def run_t11(chk, P):
    """a flush handler that is given the JOB (custom cipher / custom hash: nothing is ever queued for these stages) instead of an out-of-order
    manager hands that job back only when it has just run the stage: complete_job() resubmits whatever a flush returns, so returning a job
    whose stage bit is already set sends it into the manager of its OTHER stage a second time (the job then sits in several lanes)"""
    t11 = chk.rule('T11', 'a FLUSH_JOB_* handler whose only argument is the job returns a non-NULL job only on the not-set edge of a test of '
                          'job->status & IMB_STATUS_COMPLETED_{CIPHER,AUTH}: a job that already has this stage is waiting in another one', floor=9)
    for tu in P.variant_tus():
        vt = tu.split('__')[0]
        for f in P.funcs(tu):
            if not re.match(r'^FLUSH_JOB_\w+$', f.name) or len(f.params) != 1 or 'IMB_JOB' not in (f.params[0].get('type') or ''):
                continue
            dom = f.dominators()
            for b, i, ev in f.events(('return',)):
                v = ev.get('val')
                if v is None or cf.evalc(v) == 0:
                    continue
                ok = False
                for d in dom.get(b, ()):
                    t = f.blocks[d].get('term')
                    if d == b or not t or t['kind'] != 'IfStmt' or len(f.blocks[d]['succ']) != 2:
                        continue
                    c = cf.strip_casts(t.get('fullcond') or t.get('cond') or {})
                    neg = False
                    while isinstance(c, dict) and c.get('k') == 'un' and c['op'] == '!':
                        c, neg = cf.strip_casts(c['e']), not neg
                    if isinstance(c, dict) and c.get('k') == 'bin' and c['op'] in ('!=', '==') and cf.evalc(c['r']) == 0:
                        neg = neg != (c['op'] == '==')
                        c = cf.strip_casts(c['l'])
                    if not (isinstance(c, dict) and c.get('k') == 'bin' and c['op'] == '&'):
                        continue
                    if not any(nd.get('k') == 'mem' and nd.get('f') == 'status' for nd in cf.walk(c)):
                        continue
                    notset = f.blocks[d]['succ'][0] if neg else f.blocks[d]['succ'][1]
                    if notset is not None and (notset == b or notset in dom.get(b, ())):
                        ok = True
                t11.check(ok, '%s:%s@%s' % (vt, f.name, ev['loc'].split('/')[-1]), ev['loc'],
                          '%s returns its job without having tested that the stage is still to do: for a job that already has it, complete_job() '
                          'resubmits the job to its other stage, where it is already parked' % f.name)


def run_t7(chk, P):
    from .. import guards
    t7 = chk.rule('T7', 'a handler fetched from tab_submit/flush_cipher/hash is indexed by suite_id[0] (cipher) / suite_id[1] (hash) of a job and applied '
                        'to that same job, in the same expression: a multi-buffer submit may return a DIFFERENT job, so a handler kept across '
                        'iterations runs the job of another session through the wrong algorithm', floor=30)
    for tu in P.variant_tus():
        vt = tu.split('__')[0]
        for f in P.funcs(tu):
            assigned = set()
            for _, _, ev in f.events(('assign',)):
                l = cf.strip_casts(ev['lhs'])
                if isinstance(l, dict) and l.get('k') == 'ref':
                    assigned.add(l['n'])
            inits = {}
            for _, _, ev in f.events(('decl',)):
                for d in ev['d']:
                    if d.get('init') is not None:
                        inits[d['n']] = d['init']
            with guards.in_function(f):
                for b, i, ev in f.events():
                    exprs = [ev.get(k) for k in ('e', 'rhs', 'val') if ev.get(k)]
                    if ev['k'] == 'decl':
                        exprs += [d['init'] for d in ev['d'] if d.get('init') is not None]
                    for x in exprs:
                        reads = []
                        _tab_reads(x, reads)
                        for tab, index, call in reads:
                            want = 0 if tab.endswith('cipher') else 1
                            ix = cf.strip_casts(guards.expand(f, index, b))
                            for _ in range(3):      # a local holding the index stands for its (only) initialiser, a call included
                                if isinstance(ix, dict) and ix.get('k') == 'ref' and not ix.get('p') and not ix.get('g') and \
                                        ix['n'] in inits and ix['n'] not in assigned:
                                    ix = cf.strip_casts(inits[ix['n']])
                            # the index is computed from one job: suite_id[k] of it (burst / resubmit paths) or its hash_alg (job API)
                            jobs_ = set()
                            for nd in cf.walk(ix if isinstance(ix, dict) else {}):
                                if nd.get('k') == 'mem' and 'IMB_JOB' in (nd.get('rec') or ''):
                                    jobs_.add(guards.lv(nd['b']).lstrip('&'))
                                elif nd.get('k') == 'ref' and re.search(r'\bIMB_JOB \*', nd.get('ty') or ''):
                                    jobs_.add(guards.lv(nd))
                            job = next(iter(jobs_)) if len(jobs_) == 1 else None
                            okidx = job is not None
                            if isinstance(ix, dict) and ix.get('k') == 'idx':
                                m = cf.strip_casts(ix['b'])
                                if isinstance(m, dict) and m.get('k') == 'mem' and m.get('f') == 'suite_id':
                                    okidx = okidx and cf.evalc(ix['i']) == want
                            key = '%s:%s:%s@%s' % (vt, f.name, tab, ev['loc'].split('/')[-1])
                            if not okidx:
                                t7.bad(key, ev['loc'], '%s reads %s[%s]: not suite_id[%d] of a job' % (f.name, tab, guards.lv(index), want))
                                continue
                            if call is None:
                                t7.bad(key, ev['loc'], '%s fetches a handler from %s[%s->suite_id[%d]] without calling it in the same expression: by the '
                                                       'time it is called the job variable may designate another job (multi-buffer submits return a '
                                                       'different job than they were given)' % (f.name, tab, job, want))
                                continue
                            args = call.get('a', [])
                            t7.check(len(args) >= 2 and guards.lv(args[1]) == job, key, ev['loc'],
                                     '%s applies the handler of %s to %s' % (f.name, job, guards.lv(args[1]) if len(args) >= 2 else '?'))
