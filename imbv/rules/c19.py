"""C19 — SAFE_LOOKUP: no key-dependent branches or addresses in DES / KASUMI / SNOW3G.
K-a table ownership (AST): every use of a lookup table in the SAFE_LOOKUP translation units goes through a constant-time
    lookup primitive, a full-width load, a constant index, or a reasoned public index
K-c the lookup primitives themselves are constant-time (object-level taint: the index never reaches an address or a branch)
K-b secret-taint over the C code of the five TUs (key schedule pointees -> branch conditions / subscripts), field-sensitive"""
import os, re, subprocess
from .. import cf, build, asmint, asmfacts

TUS = ['x86_64__des_basic.c', 'sse_t1__kasumi_sse.c', 'sse_t1__snow3g_sse.c', 'avx2_t1__snow3g_avx2.c', 'avx512_t1__snow3g_avx512.c']
LOOKUP_FN = re.compile(r'^(lookup_\d+bit_(sse|avx)|lookup_\d+x8bit_\w+|lut16x8b_256|LOOKUP\d+_\w+)$')
FULL_LOAD = {'_mm_loadu_si128', '_mm_load_si128', '_mm256_loadu_si256', '_mm256_load_si256', '_mm512_loadu_si512',
             'broadcast_m128i_to_m256i', '_mm_lddqu_si128'}
# tables indexed by public quantities (one reason each)
PUBLIC_INDEX = {
    'reflect_tab': 'bit reflection of CRC input bytes (DOCSIS CRC of the public frame), not of key-derived data',
    'C': 'KASUMI key-schedule constants indexed by the loop counter',
    'kasumiWrapperArray': 'dispatch on the public number of buffers',
    'mtab_shl': 'shift mask selected by the public bit length / offset', 'mtab_shr': 'shift mask selected by the public bit length / offset',
}


def run_ka(chk, P):
    r = chk.rule('Ka', 'every use of a constant table in the SAFE_LOOKUP units is a lookup-primitive argument, a full-width load, a '
                       'constant index, or a reasoned public index', floor=150)
    ntab = 0
    for tu in TUS:
        if tu not in P.facts:
            chk.broken('%s is not in the compile database' % tu)
            continue
        cglobals = {g['name'] for t in P.tus() for g in P.facts[t]['globals'] if g['const'] and '[' in g['type']}
        for f in P.funcs(tu):
            uses = []

            def scan(e, ctx):
                if not isinstance(e, dict):
                    return
                k = e.get('k')
                if k == 'call':
                    for i, a in enumerate(e.get('a', [])):
                        scan(a, ('arg', e.get('fn'), i))
                    if e.get('callee'):
                        scan(e['callee'], ctx)
                    return
                if k == 'idx':
                    b = cf.strip_casts(e['b'])
                    if isinstance(b, dict) and b.get('k') == 'ref' and b.get('g') and '[' in b.get('ty', ''):
                        uses.append((b['n'], 'index', e['i'], ctx, e))
                        scan(e['i'], ctx)
                        return
                if k == 'ref' and e.get('g') and '[' in e.get('ty', ''):
                    uses.append((e['n'], 'decay', None, ctx, e))
                    return
                for kk in ('b', 'i', 'e', 'l', 'r', 'c', 't', 'f'):
                    if isinstance(e.get(kk), dict):
                        scan(e[kk], ctx)
                if isinstance(e.get('a'), list):
                    for a in e['a']:
                        scan(a, ctx)
            locs = {}
            for _, _, ev in f.events():
                for kk in ('e', 'lhs', 'rhs', 'val'):
                    if ev.get(kk):
                        n0 = len(uses)
                        scan(ev[kk], None)
                        for u in uses[n0:]:
                            locs[id(u[4])] = ev.get('sloc') or ev['loc']
                if ev['k'] == 'decl':
                    for d in ev['d']:
                        if d.get('init'):
                            n0 = len(uses)
                            scan(d['init'], None)
                            for u in uses[n0:]:
                                locs[id(u[4])] = ev.get('sloc') or ev['loc']
            for b in f.blocks.values():
                t = b.get('term')
                if t and t.get('cond'):
                    n0 = len(uses)
                    scan(t['cond'], None)
                    for u in uses[n0:]:
                        locs[id(u[4])] = t.get('sloc') or t['loc']
            for name, kind, idx, ctx, node in uses:
                if name not in cglobals:
                    continue
                ntab += 1
                loc = locs.get(id(node), f.loc)
                key = '%s:%s:%s@%s' % (tu.split('__')[1], f.name, name, loc.split(':')[-1])
                fn = ctx[1] if ctx and ctx[0] == 'arg' else None
                if kind == 'index':
                    if cf.evalc(idx) is not None:
                        r.ok(key, 'constant index')
                    elif name in PUBLIC_INDEX:
                        r.ok(key, PUBLIC_INDEX[name])
                    elif fn and LOOKUP_FN.match(fn):
                        r.ok(key, 'element address handed to ' + fn)
                    else:
                        r.bad(key, loc, '%s: table %s is indexed directly by `%s` (%s): a data-dependent address under SAFE_LOOKUP' % (
                            f.name, name, cf.render(idx)[:60], 'argument of %s' % fn if fn else 'plain subscript'))
                else:
                    if fn and LOOKUP_FN.match(fn):
                        r.ok(key, 'table argument of constant-time primitive ' + fn)
                    elif fn in FULL_LOAD:
                        r.ok(key, 'full-width load of a 16-byte shuffle LUT (%s)' % fn)
                    else:
                        r.bad(key, loc, '%s: table %s %s: not a constant-time lookup primitive or full-width load' % (
                            f.name, name, ('is passed to %s' % fn) if fn else 'decays to a pointer outside a call'))
    chk.extra['table_uses'] = ntab
    # the scalar lookups pass a size covering the whole table
    rs = chk.rule('Ka2', 'each scalar constant-time lookup scans at least the whole table (size argument >= element count)', floor=100)
    sizes = {}
    for t in P.tus():
        for g in P.facts[t]['globals']:
            if g['const'] and g.get('count'):
                sizes.setdefault(g['name'], g['count'])
    for tu in TUS:
        if tu not in P.facts:
            continue
        for f in P.funcs(tu):
            for _, _, ev in f.calls():
                fn = ev['e'].get('fn') or ''
                if not re.match(r'^lookup_\d+bit_(sse|avx)$', fn):
                    continue
                a = ev['e']['a']
                tb = cf.base_ref(a[0])
                sz = cf.evalc(a[2]) if len(a) > 2 else None
                if tb is None or tb['n'] not in sizes:
                    continue
                rs.check(sz is not None and sz >= sizes[tb['n']], '%s:%s:%s' % (tu.split('__')[1], f.name, tb['n']), ev.get('sloc') or ev['loc'],
                         '%s scans %s elements of %s which has %d: indices beyond the scan are never found / scan length depends on nothing else' % (
                             fn, sz, tb['n'], sizes[tb['n']]))


# ------------------------------------------------------------------------------------------------ K-c

def taint_function(entry, insns, src_regs, src_ptrs):
    """forward may-taint over registers + flags.  -> list of (addr, what) violations"""
    GPR = asmint.GPR64
    init = (frozenset(src_regs), False)
    states = {entry: init}
    work = [entry]
    viol = []
    seenv = set()
    ptrs = set(src_ptrs)

    def regs_in(op):
        out = set()
        m = asmint.parse_mem(op)
        if m:
            for k in ('base', 'index'):
                if m[k] and m[k] not in ('rip', 'eip'):
                    out.add(asmint.SUB.get(m[k], m[k]))
            return out, True, m
        o = op.split('{')[0].strip()
        if o in asmint.SUB:
            out.add(asmint.SUB[o])
        elif asmint.VREG.match(o):
            out.add('v%d' % asmint.vnum(o))
        elif re.match(r'^k[0-7]$', o):
            out.add(o)
        mk = re.findall(r'\{(k[0-7])\}', op)
        for x in mk:
            out.add(x)
        return out, False, None
    steps = 0
    while work:
        a = work.pop()
        steps += 1
        if steps > 200000:
            viol.append((a, 'taint analysis did not terminate'))
            break
        T, F = states[a]
        T = set(T)
        ins = insns[a]
        mn = ins['mn']
        ops = asmint.split_ops(ins['ops'])

        def flow(to, t, f_):
            if to is None or to not in insns:
                return
            st = (frozenset(t), f_)
            old = states.get(to)
            if old is None:
                states[to] = st
                work.append(to)
            else:
                n = (old[0] | st[0], old[1] or st[1])
                if n != old:
                    states[to] = n
                    work.append(to)
        if mn in ('ret', 'rep_ret'):
            continue
        if mn == 'jmp':
            if 'reloc' not in ins:
                try:
                    flow(int(ops[0].split()[0], 16), T, F)
                except (ValueError, IndexError):
                    pass
            continue
        if mn in asmint.JCC:
            if F and (a, 'br') not in seenv:
                seenv.add((a, 'br'))
                viol.append((a, 'conditional branch on flags derived from the secret index'))
            try:
                flow(int(ops[0].split()[0], 16), T, F)
            except (ValueError, IndexError):
                pass
            flow(ins['next'], T, F)
            continue
        if mn == 'call':
            for r_ in asmint.CALLER:
                T.discard(r_)
            flow(ins['next'], T, False)
            continue
        # address operands
        srcs_t = False
        dst = None
        for i, op in enumerate(ops):
            rs, ismem, m = regs_in(op)
            if ismem:
                if rs & T and (a, 'addr') not in seenv:
                    seenv.add((a, 'addr'))
                    viol.append((a, 'memory operand addressed through a register derived from the secret index (%s)' % ', '.join(sorted(rs & T))))
                # loads through a source pointer are tainted data
                if i > 0 and m and m['base'] and asmint.SUB.get(m['base']) in ptrs:
                    srcs_t = True
                if i > 0 and 'stack' in T and m and m['base'] in ('rsp', 'rbp'):
                    srcs_t = True
            else:
                if i == 0:
                    dst = rs
                else:
                    if rs & T:
                        srcs_t = True
        rmw = mn not in ('mov', 'movzx', 'movsx', 'movsxd', 'lea', 'movdqa', 'movdqu', 'vmovdqa', 'vmovdqu', 'vmovdqa64', 'vmovdqu64', 'vmovdqu8',
                         'movd', 'movq', 'vmovd', 'vmovq', 'vpbroadcastb', 'vpbroadcastd', 'vpbroadcastq', 'vpbroadcastw', 'pshufd', 'vpshufd',
                         'movaps', 'movups', 'vmovaps', 'vmovups', 'vbroadcasti128', 'vinserti128', 'kmovq', 'kmovd', 'kmovw') or len(ops) >= 3 and False
        if mn in ('cmp', 'test', 'ptest', 'vptest', 'bt', 'comisd', 'ucomisd'):
            t2 = False
            for op in ops:
                rs, ismem, m = regs_in(op)
                if not ismem and rs & T:
                    t2 = True
            flow(ins['next'], T, t2 or srcs_t)
            continue
        zero_self = len(ops) >= 2 and mn in ('xor', 'sub', 'pxor', 'vpxor', 'vpxorq', 'vpxord', 'xorps', 'vxorps') and \
            all(o.split('{')[0].strip() == ops[-1].split('{')[0].strip() for o in ops[-2:]) and (len(ops) == 2 and ops[0] == ops[1] or len(ops) == 3 and ops[1] == ops[2])
        newF = F
        if dst is not None and ops and asmint.parse_mem(ops[0]) is None:
            dst_t = srcs_t or (rmw and len(ops) == 2 and bool(dst & T)) or (mn.startswith('cmov') and F) or (mn.startswith('set') and F)
            if zero_self:
                dst_t = False
            for d in dst:
                if d.startswith('k') and len(d) == 2:
                    pass
                if dst_t:
                    T.add(d)
                else:
                    T.discard(d)
            if mn in ('add', 'sub', 'and', 'or', 'xor', 'shl', 'shr', 'sar', 'inc', 'dec', 'neg', 'imul', 'popcnt', 'lzcnt', 'tzcnt', 'bsf', 'bsr'):
                newF = dst_t
        elif ops and asmint.parse_mem(ops[0]) is not None:
            # store: tainted data to the stack taints the stack
            m = asmint.parse_mem(ops[0])
            st_t = False
            for op in ops[1:]:
                rs, ismem, _ = regs_in(op)
                if rs & T:
                    st_t = True
            if st_t and m and m['base'] in ('rsp', 'rbp'):
                T.add('stack')
        if mn in ('mul', 'div', 'idiv') and srcs_t:
            T.update(('rax', 'rdx'))
        flow(ins['next'], T, newF)
    return viol, len(states)


def run_kc(chk, P):
    r = chk.rule('Kc', 'constant-time lookup primitives: the index never reaches an address operand or a conditional branch', floor=12)
    objs = None
    src = os.path.join(build.REPO, 'lib/x86_64/constant_lookup_fns.asm')
    ent = [e for e in build.asm_entries() if e['file'] == src]
    if not ent:
        chk.broken('constant_lookup_fns.asm not in the compile database')
        return
    obj = os.path.join(build.scratch(), 'constant_lookup_fns.o')
    args = [a for a in ent[0]['args']]
    cmd = []
    skip = False
    for a in args[:-1]:
        if skip:
            skip = False
            continue
        if a == '-o':
            skip = True
            continue
        cmd.append(a)
    rr = subprocess.run(cmd + ['-o', obj, args[-1]], capture_output=True, text=True)
    if rr.returncode != 0:
        chk.broken('cannot assemble constant_lookup_fns.asm: ' + rr.stderr[:300])
        return
    insns, labels, funcs, syms = asmint.parse_obj(obj)
    n = 0
    for name, entry in sorted(funcs.items()):
        if not name.startswith('lookup_'):
            continue
        d = P.decl(name)
        src_regs, src_ptrs = set(), set()
        if d:
            gi = 0
            vi = 0
            for p in d['params']:
                t = p['type']
                isvec = '__m' in t
                if isvec:
                    if re.search(r'ind|idx', p['name']):
                        src_regs.add('v%d' % vi)
                    vi += 1
                else:
                    reg = asmint.ARGREGS[gi]
                    if re.search(r'ind|idx', p['name']):
                        if '*' in t:
                            src_ptrs.add(reg)
                        else:
                            src_regs.add(reg)
                    gi += 1
        if not src_regs and not src_ptrs:
            r.bad(name, src, 'cannot identify the secret index parameter of %s from its prototype' % name)
            continue
        viol, nst = taint_function(entry, insns, src_regs, src_ptrs)
        n += 1
        r.check(not viol, name, src, '%s: %s' % (name, '; '.join('%#x %s [%s]' % (a, w, insns[a]['txt']) for a, w in viol[:3])),
                detail={'sources': sorted(src_regs | src_ptrs), 'instructions': nst})
    # positive fixture: a table-indexing lookup must be flagged
    fx = os.path.join(os.path.dirname(os.path.dirname(os.path.dirname(os.path.abspath(__file__)))), 'fixtures', 'lookup_bad.asm')
    fobj = os.path.join(build.scratch(), 'lookup_bad.o')
    rr = subprocess.run(['nasm', '-felf64', '-o', fobj, fx], capture_output=True, text=True)
    if rr.returncode != 0:
        chk.broken('lookup fixture does not assemble')
        return
    fi, _, ff, _ = asmint.parse_obj(fobj)
    v1, _ = taint_function(ff['fx_lookup_direct'], fi, {'rsi'}, set())
    v2, _ = taint_function(ff['fx_lookup_branch'], fi, {'rsi'}, set())
    v3, _ = taint_function(ff['fx_lookup_scan'], fi, {'rsi'}, set())
    r.check(any('address' in w for _, w in v1), 'fixture:direct', fx, 'taint engine failed to flag the direct-index fixture')
    r.check(any('branch' in w for _, w in v2), 'fixture:branch', fx, 'taint engine failed to flag the secret-branch fixture')
    r.check(not v3, 'fixture:scan', fx, 'taint engine flags the constant-time scan fixture: %s' % v3)


def run(chk):
    P = cf.Program()
    chk.explanation = ('SAFE_LOOKUP build of the C implementations of DES/3DES/DOCSIS-DES, KASUMI and SNOW3G (five translation units): '
                       'every use of a constant table is a constant-time lookup primitive argument, a full-width 16-byte LUT load, a '
                       'constant index or a reasoned public index (gathers and plain subscripts by data are violations); scalar lookups '
                       'scan the whole table; the 13 assembly lookup primitives are shown constant-time by an object-level taint '
                       '(index to address operand / conditional branch); and a field-sensitive secret-taint over the C code tracks key '
                       'schedule pointees to branch conditions and subscripts. Scope: multi-buffer SNOW3G/ZUC assembly managers and DES '
                       'AVX512 assembly are not analysed (SECURITY.md limits the claim to the C implementations).')
    run_ka(chk, P)
    run_kc(chk, P)
    from . import c19_taint
    c19_taint.run_kb(chk, P)
