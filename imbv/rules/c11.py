"""C11 — key-preparation helpers produce exactly the standard key material (selection clauses only; values not decided).
H1 imb_hmac_ipad_opad: per algorithm the block/digest sizes, the hash used for over-long keys, the one-block function and
   the ipad/opad constants all belong to the same algorithm; MD5 over-long keys are refused
H2 helper slots of every variant bound to symbols of the same algorithm / key size"""
import re
from .. import cf, build, dispatch as D, guards
from . import inits

STD = {  # algorithm: (block size, digest size, digest token)
    'IMB_AUTH_HMAC_SHA_1': (64, 20, '1'), 'IMB_AUTH_HMAC_SHA_224': (64, 28, '224'), 'IMB_AUTH_HMAC_SHA_256': (64, 32, '256'),
    'IMB_AUTH_HMAC_SHA_384': (128, 48, '384'), 'IMB_AUTH_HMAC_SHA_512': (128, 64, '512'), 'IMB_AUTH_HMAC_SM3': (64, 32, 'sm3'),
    'IMB_AUTH_MD5': (64, None, 'md5'),
}
HELPER_SLOTS = re.compile(r'^(keyexp_|cmac_subkey_gen_|xcbc_keyexp|des_key_sched|sm4_keyexp|sha\d+(_one_block)?$|md5_one_block|'
                          r'gcm\d+_(pre|precomp)|ghash_pre|gcm\d+_|ghash|hmac_ipad_opad|sm3|kasumi|snow3g|zuc)')


def algo_token(name):
    n = name.lower()
    if 'md5' in n:
        return 'md5'
    if 'sm3' in n:
        return 'sm3'
    m = re.search(r'sha_?(1|224|256|384|512)', n)
    return m.group(1) if m else None


def run(chk):
    P = cf.Program()
    chk.explanation = ('Selection clauses of the key-preparation helpers: in imb_hmac_ipad_opad, for every accepted algorithm (constant '
                       'propagation of sha_type), the over-long test uses the block size and digest size of that algorithm, the key is '
                       'hashed with the full hash of that algorithm, the one-block function of that algorithm produces ipad and opad, the '
                       'pad constants are 0x36 / 0x5c, and HMAC-MD5 keys longer than one block are refused with IMB_ERR_KEY_LEN before '
                       'any hashing; the helper slots of all nine variants are bound to kernels of the same algorithm and key size. '
                       'NOT decided: the values the helpers compute.')
    h1 = chk.rule('H1', 'imb_hmac_ipad_opad uses block size, digest size, key hash, one-block function and pad constants of the same '
                        'algorithm for every accepted sha_type; MD5 over-long keys refused', floor=40)
    fs = P.find('imb_hmac_ipad_opad')
    if not fs:
        chk.broken('imb_hmac_ipad_opad not found')
        return
    tu, f = fs[0]
    algs = P.enum_types['IMB_HASH_ALG']
    KEYLEN = P.enum('IMB_ERR_KEY_LEN')
    for aname, (blk, dig, tok) in sorted(STD.items()):
        v = algs[aname]
        env = {'sha_type': v}
        reach = f.reachable(None, env)
        # (a) local_key_len selection
        sel = None
        for b in reach:
            for ev in f.blocks[b]['ev']:
                if ev['k'] == 'assign' and cf.strip_casts(ev['lhs']).get('n') == 'local_key_len':
                    r = cf.strip_casts(ev.get('rhs'))
                    if r.get('k') == 'cond':
                        sel = (guards.canon(r['c']), guards.lv(r['t']), cf.evalc(r['f']))
                    elif sel is None:
                        sel = ('plain', guards.lv(r), None)
        key = aname.replace('IMB_AUTH_', '')
        if dig is not None:
            h1.check(sel == ('key_len < %d' % (blk + 1), 'key_len', dig), key + ':sizes', f.loc,
                     '%s: over-long test / substitute length is %s, expected key_len <= %d ? key_len : %d' % (aname, sel, blk, dig))
        else:
            # MD5: keys longer than a block are refused
            guard = [g for g in guards.catalogue(f) if g['err'] == 'IMB_ERR_KEY_LEN']
            okm = False
            for g in guard:
                cases = [vals for k_, vals in g['cases'].items() if 'sha_type' in k_]
                if cases and v in cases[0] and ('key_len >= %d' % (blk + 1)) in ' '.join(g['ctx'] + [g['cond'] or '']):
                    okm = True
            h1.check(okm, key + ':refuse', f.loc, 'HMAC-MD5 keys longer than %d bytes are no longer refused with IMB_ERR_KEY_LEN' % blk)
        # (b) calls under this algorithm: every hash handler / function reached carries this algorithm's token
        full = []
        oneblk = []
        pads = []
        # calls reached under this algorithm, in the function itself and in the helpers it calls with the algorithm / pad constants
        for rec in D.collect_calls(P, tu, f.name, env):
            nm = rec['name']
            if nm is None and rec.get('callee') is not None:
                c = cf.strip_casts(rec['callee'])
                nm = c.get('f') if c.get('k') == 'mem' else None
            if nm == 'memset':
                if len(rec['args']) > 1:
                    pads.append((cf.evalc(rec['args'][1], rec.get('env')), rec['bid']))
                continue
            if not nm or nm in ('imb_set_errno', 'safe_memcpy', 'imb_clear_mem', 'memcpy'):
                continue
            t = algo_token(nm)
            if t is None:
                continue
            (oneblk if 'one_block' in nm else full).append((nm, t, rec['loc']))
        if sel is not None and sel[0] == 'plain':
            full = []
        for nm, t, loc in full + oneblk:
            h1.check(t == tok, '%s:%s' % (key, nm), loc, '%s reaches %s (algorithm %s), expected %s' % (aname, nm, t, tok))
        if sel is not None and sel[0] == 'plain':
            # local_key_len is always key_len for this algorithm: the key-hashing switch is infeasible for it
            full = []
        if dig is not None:
            h1.check(len(full) >= 1, key + ':keyhash', f.loc, '%s: over-long keys are not hashed with the full %s hash' % (aname, tok))
        else:
            h1.check(len(full) == 0, key + ':nokeyhash', f.loc, 'HMAC-MD5 path hashes the key (%s) instead of refusing over-long keys' % full)
        h1.check(len(oneblk) == 2, key + ':oneblock', f.loc, '%s: expected one-block calls for ipad and opad, found %s' % (aname, [x[0] for x in oneblk]))
        h1.check(sorted(p for p, _ in pads if p is not None) == [0x36, 0x5c], key + ':pads', f.loc,
                 '%s: pad constants are %s, expected 0x36 and 0x5c' % (aname, [hex(p) for p, _ in pads if p is not None]))
    # ipad constant feeds ipad_hash, opad constant feeds opad_hash
    dom = f.dominators()
    for const, outp in ((0x36, 'ipad_hash'), (0x5c, 'opad_hash')):
        okc = False
        for b, blk_ in f.blocks.items():
            for ev in blk_['ev']:
                # the pad block is built here (memset) or in a helper that receives the pad byte as a constant argument
                if ev['k'] == 'call' and ((ev['e'].get('fn') == 'memset' and cf.evalc(ev['e']['a'][1]) == const) or
                                          (ev['e'].get('fn') and P.has(tu, ev['e']['fn']) and
                                           any(cf.evalc(a) == const for a in ev['e'].get('a', [])))):
                    # dominated by `outp != NULL` test and all one-block calls dominated by this block write to outp
                    conds = [guards.canon(f.blocks[d]['term'].get('fullcond')) for d in dom.get(b, ()) if (f.blocks[d].get('term') or {}).get('kind') == 'IfStmt' and f.blocks[d]['succ'][0] in dom[b]]
                    outs = set()
                    for b2, blk2 in f.blocks.items():
                        if b in dom.get(b2, ()):
                            for ev2 in blk2['ev']:
                                if ev2['k'] == 'call':
                                    for a in ev2['e'].get('a', []):
                                        a0 = cf.strip_casts(a)
                                        if isinstance(a0, dict) and a0.get('k') == 'ref' and a0['n'] in ('ipad_hash', 'opad_hash'):
                                            outs.add(a0['n'])
                    okc = ('%s != 0' % outp) in conds and outs == {outp}
        h1.check(okc, 'pad:%#x->%s' % (const, outp), f.loc, 'the %#x pad block does not feed exactly %s' % (const, outp))
    # H2
    inits.rule_bindings(chk, P, 'H2', select=lambda k, v: bool(HELPER_SLOTS.match(k.lower())) or
                        bool(re.search(r'KEYEXP|SUBKEY|KEY_SCHED|ONE_BLOCK|_PRE\b|PRECOMP', k)), floor=250)
    inits.rule_handlers(chk, P, 'H3', 'H3b', 'H3c')


_run_inner = run


def run(chk):
    _run_inner(chk)
    from . import padding
    padding.rule_sha_padding(chk, cf.PROGRAM[0] or cf.Program())
    from . import twins
    twins.rule_token_agreement(chk, cf.PROGRAM[0] or cf.Program(), 'K1', floor=150)
    run_h7(chk, cf.PROGRAM[0] or cf.Program())
    from . import clones as _clones
    _clones.rule_signature_siblings(chk, 'N9')
    from . import twins as _twins
    _twins.rule_case_sibling_args(chk, cf.PROGRAM[0] or cf.Program(), 'X8', floor=5, tus=[t for t in (cf.PROGRAM[0] or cf.Program()).tus() if 'hmac_ipad_opad' in t or 'ipad_opad' in t])
    from . import ivcover
    ivcover.run(chk, cf.PROGRAM[0] or cf.Program(), 'H8')


# ---------------------------------------------------------------------------------------------------------------------------
# H7: bit positions of the 3GPP IV generators (TS 35.201 / 35.215 / 35.221: COUNT, BEARER, DIRECTION, FRESH placement)

IV_SPEC = {
    # function: {(parameter role, bit position it is shifted to): number of places}
    'zuc_eea3_iv_gen': {('bearer', 3): 1, ('dir', 2): 1},            # IV[4] = BEARER || DIRECTION || 00
    'zuc_eia3_iv_gen': {('bearer', 3): 1, ('dir', 7): 2},            # IV[4] = BEARER || 000; IV[8] ^= DIR << 7; IV[14] ^= DIR << 7
    'snow3g_f8_iv_gen': {('bearer', 27): 1, ('dir', 26): 1},         # BEARER || DIRECTION || 0^26 as a 32-bit word
    'snow3g_f9_iv_gen': {('dir', 15): 1, ('dir', 31): 1},            # FRESH ^ (DIR << 15), COUNT ^ (DIR << 31)
    'kasumi_f8_iv_gen': {('bearer', 3): 1, ('dir', 2): 1},           # COUNT || BEARER || DIRECTION || 0..0
    'kasumi_f9_iv_gen': {},
}
IV_WORDS = {'zuc_eea3_iv_gen': {'count'}, 'zuc_eia3_iv_gen': {'count'}, 'snow3g_f8_iv_gen': {'count'},
            'snow3g_f9_iv_gen': {'count', 'fresh'}, 'kasumi_f8_iv_gen': {'count'}, 'kasumi_f9_iv_gen': {'count', 'fresh'}}


IV_XOR = {'zuc_eia3_iv_gen', 'snow3g_f9_iv_gen'}      # generators whose direction bit is XOR-ed onto counter / fresh words


def _dir_combiners(f):
    """operators that combine a value derived from the direction parameter (the parameter itself, shifted, or a local initialised from it)
    with anything else"""
    dirs = {p['name'] for p in (f.raw.get('params') or []) if p['name'].startswith('dir')}
    for _, _, ev in f.events(('decl',)):
        for d in ev['d']:
            if d.get('init') is not None and any(nd.get('k') == 'ref' and nd['n'] in dirs for nd in cf.walk(d['init'])):
                dirs.add(d['n'])

    def derived(e):
        e = cf.strip_casts(e)
        if not isinstance(e, dict):
            return False
        if e.get('k') == 'ref':
            return e['n'] in dirs
        if e.get('k') == 'bin' and e['op'] in ('<<', '>>'):
            return derived(e['l'])
        if e.get('k') == 'cond':
            return derived(e.get('c') or {})
        return False
    ops = set()
    for _, _, ev in f.events(('assign', 'decl')):
        exprs = [ev.get('rhs')] if ev['k'] == 'assign' else [d.get('init') for d in ev['d']]
        if ev['k'] == 'assign' and ev.get('op') not in (None, '=') and derived(ev.get('rhs') or {}):
            ops.add(ev['op'])
        for x in exprs:
            for nd in cf.walk(x or {}):
                if nd.get('k') == 'bin' and nd['op'] in ('|', '^', '+', '&', '-') and (derived(nd['l']) != derived(nd['r'])):
                    ops.add(nd['op'])
    return ops


def _iv_shifts(f):
    import collections
    params = {p['name'] for p in (f.raw.get('params') or [])}
    shifts = collections.Counter()
    words = set()
    seen_nodes = set()

    def visit(x):
        for nd in cf.walk(x):
            if id(nd) in seen_nodes:
                continue
            seen_nodes.add(id(nd))
            if nd.get('k') == 'bin' and nd['op'] == '<<':
                l = cf.strip_casts(nd['l'])
                k = cf.evalc(nd['r'])
                if isinstance(l, dict) and l.get('k') == 'ref' and l['n'] in params and k is not None:
                    shifts[(l['n'], int(k))] += 1
            elif nd.get('k') == 'cond':
                c = cf.strip_casts(nd.get('c') or {})
                t, e = cf.evalc(nd.get('t') or {}), cf.evalc(nd.get('f') or {})
                if isinstance(c, dict) and c.get('k') == 'ref' and c['n'] in params and t is not None and e == 0 and t > 0 and t & (t - 1) == 0:
                    shifts[(c['n'], int(t).bit_length() - 1)] += 1      # p ? (1 << k) : 0 for a one-bit p
            elif nd.get('k') == 'call' and 'bswap' in (nd.get('fn') or ''):
                for a in nd.get('a', []):
                    for m in cf.walk(a):
                        if m.get('k') == 'ref' and m['n'] in params:
                            words.add(m['n'])
    for _, _, ev in f.events():
        if ev['k'] == 'assign':
            visit(ev.get('rhs') or {})
        elif ev['k'] == 'decl':
            for d in ev['d']:
                if d.get('init') is not None:
                    visit(d['init'])
    return shifts, words


def run_h7(chk, P):
    h7 = chk.rule('H7', 'the 3GPP IV generators place BEARER and DIRECTION at the bit positions of TS 35.201 / 35.215 / 35.221 and feed COUNT / FRESH '
                        'whole through the byte swap (shift amounts and the number of places they occur, per generator)', floor=6)
    for fn, spec in sorted(IV_SPEC.items()):
        fs = [f for _, f in P.find(fn)]
        if not fs:
            chk.broken('%s not found' % fn)
            continue
        f = fs[0]
        shifts, words = _iv_shifts(f)
        got = {k: v for k, v in shifts.items()}
        if fn in IV_XOR:
            bad_ops = _dir_combiners(f) - {'^', '^='}
            h7.check(not bad_ops, fn + ':xor', f.loc,
                     '%s combines the direction bit with %s; TS 35.215 / 35.221 define these IV words as DIRECTION XOR COUNT / FRESH '
                     '(an OR sets the bit where the XOR must toggle it when the counter bit is already 1)' % (fn, sorted(bad_ops)))
        h7.check(got == spec and IV_WORDS[fn] <= words, fn, f.loc,
                 '%s shifts %s and byte-swaps %s; the specification places %s and needs %s whole' % (
                     fn, sorted(got.items()), sorted(words), sorted(spec.items()), sorted(IV_WORDS[fn])))
