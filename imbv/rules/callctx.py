"""Call contexts: under which conditions does a function call which routine, and with which constant arguments.  For every call in
the C dispatch code (job API, burst API, per-algorithm job_api_*.h helpers, DOCSIS/PON/KASUMI/SNOW3G wrappers) of every TU the
normal form is (callee, constant arguments, set of condition atoms that hold on entry to the call's block): the canonical
conditions of the dominating `if`s (with polarity, single-definition locals expanded, other locals abstracted to their type) and
the case labels of enclosing switches.  The rule requires every such triple recorded on the reference tree
(`imbv/data/callctx_baseline.json`) to be still present in the same function: a dropped conjunct, a moved boundary (`>=` -> `>`),
a call moved under another case, or a constant argument copied from a sibling changes the triple.  Additional calls, additional
functions and renamed functions pass.  Necessary condition only; the catalogue holds facts (atoms), not source text."""
import json
import os

from .. import cf, guards

BASELINE = os.path.join(os.path.dirname(os.path.dirname(os.path.abspath(__file__))), 'data', 'callctx_baseline.json')
SKIP = {'imb_set_errno', 'memcpy', 'memset', 'memmove', 'IMB_ASSERT', '__assert_fail',
        # scrubbing is C13's subject (where and how often a function scrubs is free as long as every path does)
        'clear_mem', 'imb_clear_mem', 'force_memset_zero', 'force_memset_zero_vol', 'clear_var', 'clear_scratch_gps', 'clear_scratch_xmms_sse',
        'clear_scratch_xmms_avx', 'clear_scratch_ymms', 'clear_scratch_zmms'}


def _full_ctx(func, dom, bid):
    """canonical conditions of every dominating `if` one of whose sides leads exclusively here (early-return guards included)"""
    ctx = []
    for d in sorted(dom.get(bid, ()), reverse=True):
        if d == bid:
            continue
        db = func.blocks[d]
        t = db.get('term')
        if not t or t['kind'] != 'IfStmt' or 'fullcond' not in t:
            continue
        su = db['succ']
        if len(su) != 2 or su[0] is None or su[1] is None:
            continue
        tdom = (su[0] == bid or su[0] in dom[bid]) and func.pred[su[0]] == [d]
        fdom = (su[1] == bid or su[1] in dom[bid]) and func.pred[su[1]] == [d]
        if tdom and not fdom:
            ctx.append(guards.canon(guards.expand(func, t['fullcond'], d)))
        elif fdom and not tdom:
            ctx.append(guards.canon(guards.expand(func, t['fullcond'], d), True))
        elif not tdom and not fdom:
            # the block lies behind the join of an `if` one of whose arms leaves the function: the other arm's condition holds here
            t_term = guards._terminating(func, su[0]) and func.pred[su[0]] == [d]
            f_term = guards._terminating(func, su[1]) and func.pred[su[1]] == [d]
            if t_term and not f_term:
                ctx.append(guards.canon(guards.expand(func, t['fullcond'], d), True))
            elif f_term and not t_term:
                ctx.append(guards.canon(guards.expand(func, t['fullcond'], d)))
    return ctx


import re as _re

_REL = _re.compile(r'(<=|>=|<|>|&(?!&))')


def _relational(atom):
    """boundary and bit tests (`len >= 16`, `(off & 7) != 0`): the conditions whose exact form matters.  Equality atoms select the mode, key
    size or algorithm; they move between functions, parameters and switch labels when dispatch code is refactored and are decided by the
    table-cell rules instead"""
    return bool(_REL.search(_re.sub(r'\$<[^>]*>', '$', atom.replace('->', '.'))))


def _own(func):
    """[(callee name or None for indirect, is call event, relational atoms on entry)] for every call of the function"""
    out = []
    dom = func.dominators()
    with guards.in_function(func, abstract=True):
        cctx = guards.case_contexts(func)
        ctxs = {}
        for bid, b in func.blocks.items():
            calls = [ev for ev in b['ev'] if ev['k'] == 'call']
            if not calls:
                continue
            if bid not in ctxs:
                atoms = list(_full_ctx(func, dom, bid)) + list(guards.case_atoms(func, cctx.get(bid, {})))
                ctxs[bid] = sorted(set(a for a in atoms if _relational(a)))
            for ev in calls:
                fn = ev['e'].get('fn')
                if not fn:
                    c = ev['e'].get('callee')
                    if isinstance(c, dict) and c.get('k') == 'mem' and 'IMB_MGR' in (c.get('rec') or ''):
                        fn = '->' + (c.get('f') or '?')       # a direct-API slot of the manager (IMB_KASUMI_F8_1_BUFFER_BIT, IMB_GHASH, ...)
                if not fn or fn in SKIP or fn.startswith(('__builtin', '_mm')):
                    continue        # other indirect calls (handler tables, function-pointer parameters) are bound elsewhere
                out.append((fn, ctxs[bid]))
    return out


def triples(P, tu, func, memo, depth=0):
    """{json [extern callee, [], atoms]}: the routines outside the TU this function reaches, each with the boundary / bit-test atoms
    accumulated along the chain of TU-local helpers — helper names are not part of the fact, so extracting, inlining or renaming a
    static helper changes nothing"""
    key = (tu, func.name)
    if key in memo:
        return memo[key]
    memo[key] = set()       # recursion guard
    res = set()
    try:
        own = _own(func)
    except Exception:
        own = []
    for fn, atoms in own:
        if P.has(tu, fn) and fn != func.name:
            if depth < 4:
                for t in triples(P, tu, P.func(tu, fn), memo, depth + 1) | _plain(P, tu, fn, memo):
                    k, _, a2 = json.loads(t)
                    a = sorted(set(atoms) | set(a2))
                    if a:
                        res.add(json.dumps([k, [], a]))
        elif atoms:
            res.add(json.dumps([fn, [], atoms]))
    memo[key] = res
    return res


def _plain(P, tu, fn, memo):
    """extern callees a TU-local function reaches under no boundary condition of its own (needed to attach the caller's atoms to them)"""
    key = ('plain', tu, fn)
    if key in memo:
        return memo[key]
    memo[key] = set()
    res = set()
    try:
        own = _own(P.func(tu, fn))
    except Exception:
        own = []
    for c, atoms in own:
        if atoms:
            continue
        if P.has(tu, c) and c != fn:
            res |= _plain(P, tu, c, memo)
        else:
            res.add(json.dumps([c, [], []]))
    memo[key] = res
    return res


def collect(P, tus=None):
    """{tu: {function: set of triples}}"""
    res = {}
    for tu in (tus or P.tus()):
        per = {}
        memo = {}
        for f in P.funcs(tu):
            t = triples(P, tu, f, memo)
            if t:
                per[f.name] = t
        if per:
            res[tu] = per
    return res


def _closure(P, tu, fn, memo):
    """functions of the TU reachable from fn through direct calls (fn included)"""
    if (tu, fn) in memo:
        return memo[(tu, fn)]
    seen, st = set(), [fn]
    while st:
        n = st.pop()
        if n in seen or not P.has(tu, n):
            continue
        seen.add(n)
        for _, _, ev in P.func(tu, n).calls():
            c = ev['e'].get('fn')
            if c and c not in seen:
                st.append(c)
    memo[(tu, fn)] = seen
    return seen


def write_baseline(P):
    cur = collect(P)
    with open(BASELINE, 'w') as fh:
        json.dump({'what': 'per TU and function: (callee, constant arguments, boundary/bit-test atoms on entry to the call) on the reference tree',
                   'tus': {tu: {fn: sorted(v) for fn, v in sorted(per.items())} for tu, per in sorted(cur.items())}}, fh, indent=0)
    return len(cur), sum(len(v) for per in cur.values() for v in per.values())


def rule_call_contexts(chk, P, rid, select=None, floor=1000):
    r = chk.rule(rid, 'every (callee, constant arguments, boundary / bit-test conditions on entry) triple of the reference tree is still present in '
                      'its function or in a helper that function calls: each routine is still called with those constants under those length / '
                      'alignment conditions', floor=floor)
    if not os.path.exists(BASELINE):
        chk.broken('call-context baseline missing')
        return
    base = json.load(open(BASELINE))['tus']
    cur = collect(P)
    reported = set()
    nbad = 0
    memo = {}
    for tu, per in sorted(base.items()):
        if tu not in P.facts:
            continue
        now = cur.get(tu, {})
        unknown = set()
        for fn2, t2 in now.items():
            if fn2 not in per:
                unknown |= t2
        for fn, tl in sorted(per.items()):
            if P.has(tu, fn):
                have = set()
                for g in _closure(P, tu, fn, memo):
                    have |= now.get(g, set())
            else:
                have = unknown      # renamed or merged: its calls may live in any function the baseline does not know
            for tjs in tl:
                callee, cargs, atoms = json.loads(tjs)
                if select is not None and not select(tu, fn, callee, cargs, atoms):
                    continue
                ik = '%s:%s:%s' % (tu.split('__')[0], fn, tjs[:140])
                if tjs in have:
                    r.ok(ik)
                    continue
                # the same routine reached under these conditions and further ones (a local made explicit, an extra early return) is still
                # reached under these conditions; a dropped conjunct or a moved boundary is not a superset
                if any(json.loads(x)[0] == callee and set(atoms) <= set(json.loads(x)[2]) for x in have):
                    r.ok(ik, 'under stricter conditions')
                    continue
                if (fn, tjs) in reported:
                    r.instances += 1
                    continue
                reported.add((fn, tjs))
                nbad += 1
                if nbad > 40:
                    r.instances += 1
                    continue
                near = [json.loads(x) for x in have if json.loads(x)[0] == callee]
                r.bad(ik, P.func(tu, fn).loc if P.has(tu, fn) else tu, '%s: %s%s is no longer called under {%s}%s' % (
                    fn, callee, ('(const args %s)' % cargs) if cargs else '', ' && '.join(atoms) or 'no boundary condition',
                    ('; it is now called under: ' + ' | '.join('{%s}%s' % (' && '.join(n[2]), (' args %s' % n[1]) if n[1] != cargs else '') for n in near[:4])) if near else '; neither it nor its helpers call it any more'))


if __name__ == '__main__':
    import sys
    if '--write-baseline' in sys.argv:
        P_ = cf.Program()
        cf.PROGRAM[0] = P_
        print(write_baseline(P_))
