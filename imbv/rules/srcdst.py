"""Source/destination discipline of the C cipher code: a routine that takes an input buffer (pointer to const) and an output buffer
(pointer to non-const) reads its data from the input.  Reading from the OUTPUT buffer is legitimate only where the output already
holds what is wanted (previous ciphertext block on encrypt, length-sorted copies) — and then the reference tree does it too.  In
place, input and output coincide and nothing can be seen; out of place a read through the wrong pointer takes stale destination
bytes.  The rule counts, per function, the places that READ through an output-derived pointer (dereference / index in an rvalue,
or handing the pointer to a callee parameter declared pointer-to-const) and requires that no function reads the output in more
places than on the reference tree (`imbv/data/outreads_baseline.json`, per-function counts, no source text).  Buffers are told
apart by type (pointee const-ness of parameters and of IMB_JOB.src/dst), pointers are followed through locals by reaching
definitions.  Necessary condition of 'in-place equals out-of-place' / 'output equals the algorithm' for the C code paths."""
import json
import os
import re

from .. import cf, guards

BASELINE = os.path.join(os.path.dirname(os.path.dirname(os.path.abspath(__file__))), 'data', 'outreads_baseline.json')
KNOWN_CONST_ARG = {'memcpy': (1,), 'memmove': (1,), 'memcmp': (0, 1), 'memcpy_asm': (1,), 'var_memcpy': (1,), 'safe_memcpy': (1,)}
NOTDATA = re.compile(r'struct|IMB_MGR|IMB_JOB|MB_MGR|_OOO|key|Key|KEY|ctx|context|State|_ARGS|sched', re.I)


def _ptype_role(ty):
    ty = (ty or '').strip()
    if '*' not in ty and '[' not in ty:
        return None
    if NOTDATA.search(ty):
        return None
    if not re.match(r'^(const )?(void|uint8_t|unsigned char|char|uint32_t|uint64_t|uint16_t)\b', ty):
        return None
    return 'in' if ty.startswith('const ') else 'out'


class Roles:
    def __init__(self, f):
        self.f = f
        self.dom = f.dominators()
        self.params = {p['name']: _ptype_role(p['type']) for p in (f.raw.get('params') or [])}
        self.assigns = {}
        for b, i, ev in f.events(('assign',)):
            l = cf.strip_casts(ev['lhs'])
            if isinstance(l, dict) and l.get('k') == 'ref' and ev.get('op') in (None, '='):
                self.assigns.setdefault(l['n'], []).append((b, i, ev.get('rhs') or {}))
        self.inits = {}
        for b, i, ev in f.events(('decl',)):
            for d in ev['d']:
                if d.get('init') is not None:
                    self.inits[d['n']] = (b, i, d['init'])
        self.has_in = any(v == 'in' for v in self.params.values())
        self.has_out = any(v == 'out' for v in self.params.values())

    def role(self, e, bid, idx=10 ** 9, depth=0):
        e = cf.strip_casts(e)
        if not isinstance(e, dict) or depth > 8:
            return None
        k = e.get('k')
        if k == 'bin' and e['op'] in ('+', '-'):
            return self.role(e['l'], bid, idx, depth + 1) or self.role(e['r'], bid, idx, depth + 1)
        if k == 'un' and e.get('op') == '&':
            x = cf.strip_casts(e['e'])
            if isinstance(x, dict) and x.get('k') == 'idx':
                return self.role(x['b'], bid, idx, depth + 1)
            return None
        if k == 'un' and e.get('op') in ('++', '--', 'p++', 'p--', '++p', '--p'):
            return self.role(e['e'], bid, idx, depth + 1)
        if k == 'idx':
            # an element of an array of buffer pointers is a buffer pointer of the array's kind
            if '*' in (e.get('ty') or ''):
                return self.role(e['b'], bid, idx, depth + 1)
            return None
        if k == 'cond':
            return self.role(e.get('t') or {}, bid, idx, depth + 1) or self.role(e.get('f') or {}, bid, idx, depth + 1)
        if k == 'ref':
            n = e['n']
            if e.get('p'):
                return self.params.get(n)
            best = None
            for b2, i2, rhs in self.assigns.get(n, []):
                if (b2 == bid and i2 < idx) or (b2 != bid and b2 in self.dom.get(bid, ())):
                    rank = (b2 == bid, len(self.dom.get(b2, ())), i2)
                    if best is None or rank > best[0]:
                        best = (rank, rhs, b2, i2)
            if best is None and n in self.inits:
                b2, i2, rhs = self.inits[n]
                best = (None, rhs, b2, i2)
            if best is None and self.assigns.get(n):
                # defined only on other paths (loop-carried): any definition
                b2, i2, rhs = self.assigns[n][0]
                best = (None, rhs, b2, i2)
            if best:
                return self.role(best[1], best[2], best[3], depth + 1)
            return None
        if k == 'mem' and 'IMB_JOB' in (e.get('rec') or ''):
            return {'src': 'in', 'dst': 'out'}.get(e.get('f'))
        if k == 'cast':
            return self.role(e.get('e') or {}, bid, idx, depth + 1)
        return None


def _loads(e, out, under_addr=False):
    """dereferences evaluated for their value inside expression e: (node, pointer expression)"""
    e0 = e
    e = cf.strip_casts(e)
    if not isinstance(e, dict):
        return
    k = e.get('k')
    if k == 'un' and e.get('op') == '&':
        x = cf.strip_casts(e['e'])
        if isinstance(x, dict) and x.get('k') == 'idx':
            _loads(x['b'], out, True) if '*' in ((x['b'] or {}).get('ty') or '') and False else None
            _loads(x['i'], out)
            # &p[i] does not load p[i]; but the base, if itself an element of a pointer array, is loaded (a pointer, not data)
            return
        return
    if k == 'idx':
        if '*' not in (e.get('ty') or ''):       # an element of data, not a pointer fetched from a pointer array
            out.append((e, e['b']))
        _loads(e['b'], out)
        _loads(e['i'], out)
        return
    if k == 'un' and e.get('op') == '*':
        out.append((e, e['e']))
        _loads(e['e'], out)
        return
    for key in ('l', 'r', 'e', 'b', 'i', 't', 'f', 'c'):
        v = e.get(key)
        if isinstance(v, dict):
            _loads(v, out)
    for a in e.get('a', []) or []:
        _loads(a, out)


def _is_view(e):
    """a local (or an offset from one) whose own type is pointer-to-const: a read-only view, whatever it was derived from"""
    e = cf.strip_casts(e)
    while isinstance(e, dict) and e.get('k') == 'bin' and e['op'] in ('+', '-'):
        e = cf.strip_casts(e['l'])
    return isinstance(e, dict) and e.get('k') == 'ref' and not e.get('p') and not e.get('g') and \
        re.match(r'^const [^*]*\*', e.get('ty') or '') is not None


def out_reads(P, f, tu):
    """list of (loc, text) places where f reads through an output-derived pointer"""
    R = Roles(f)
    if not (R.has_out or any('IMB_JOB' in (p.get('type') or '') for p in (f.raw.get('params') or []))):
        return []
    decl = {d['name']: d for d in P.facts[tu]['decls']}
    res = []
    for b, i, ev in f.events():
        exprs = []
        if ev['k'] == 'assign':
            exprs.append(ev.get('rhs') or {})
            l = cf.strip_casts(ev['lhs'])
            if isinstance(l, dict):
                # index / pointer computations on the left are evaluated, the designated element is not
                if l.get('k') == 'idx':
                    exprs.append(l['i'])
                if ev.get('op') not in (None, '='):
                    exprs.append(ev['lhs'])        # compound assignment reads the target
        elif ev['k'] == 'decl':
            exprs += [d['init'] for d in ev['d'] if d.get('init') is not None]
        elif ev['k'] == 'return':
            exprs.append(ev.get('e') or ev.get('val') or {})
        elif ev['k'] == 'call':
            exprs.append(ev['e'])
        # an output-derived pointer converted into a read-only view (stored into a pointer-to-const variable): the reads happen through it
        if ev['k'] == 'assign' and ev.get('op') in (None, '='):
            l = cf.strip_casts(ev['lhs'])
            lty = l.get('ty') if isinstance(l, dict) else ''
            if re.match(r'^const [^*]*\*', lty or '') and R.role(ev.get('rhs') or {}, b, i) == 'out':
                res.append((ev['loc'], 'read-only view %s = %s' % (guards.lv(ev['lhs']), guards.lv(ev.get('rhs') or {}))))
        elif ev['k'] == 'decl':
            for d in ev['d']:
                if d.get('init') is not None and re.match(r'^const [^*]*\*', d.get('ty') or '') and R.role(d['init'], b, i) == 'out':
                    res.append((ev['loc'], 'read-only view %s = %s' % (d['n'], guards.lv(d['init']))))
        for x in exprs:
            ls = []
            _loads(x, ls)
            for node, ptr in ls:
                if _is_view(ptr):
                    continue        # counted where the read-only view of the output was created
                if R.role(ptr, b, i) == 'out':
                    res.append((ev['loc'], 'load ' + guards.lv(node)))
            # pointers handed to const parameters
            for nd in cf.walk(x):
                if nd.get('k') != 'call':
                    continue
                fn = nd.get('fn')
                args = nd.get('a', [])
                constpos = set(KNOWN_CONST_ARG.get(fn, ()))
                d = decl.get(fn)
                if d:
                    for pi, p in enumerate(d.get('params') or []):
                        if re.match(r'^const [^*]*\*', p.get('type') or '') and _ptype_role(p['type']) == 'in':
                            constpos.add(pi)
                for pi in constpos:
                    if pi < len(args) and not _is_view(args[pi]) and R.role(args[pi], b, i) == 'out':
                        res.append((ev['loc'], '%s(arg %d: %s)' % (fn, pi, guards.lv(args[pi]))))
    return res


def collect(P):
    seen = set()
    res = {}
    for tu in P.tus():
        for f in P.funcs(tu):
            if (f.name, f.loc) in seen:
                continue
            seen.add((f.name, f.loc))
            with guards.in_function(f):
                r = out_reads(P, f, tu)
            R = Roles(f)
            if r or (R.has_in and R.has_out):
                res[f.name] = max(len(r), res.get(f.name, (0, None))[0] if f.name in res else 0), r
    return res


def write_baseline(P):
    cur = collect(P)
    os.makedirs(os.path.dirname(BASELINE), exist_ok=True)
    with open(BASELINE, 'w') as fh:
        json.dump({'what': 'per function: number of places that read through an output-derived pointer on the reference tree',
                   'functions': {k: v[0] for k, v in sorted(cur.items())}}, fh, indent=0, sort_keys=True)
    return len(cur), sum(v[0] for v in cur.values())


def rule_out_reads(chk, P, rid, floor=100):
    r = chk.rule(rid, 'no C routine with an input (pointer-to-const) and an output buffer reads through output-derived pointers in more places than '
                      'on the reference tree: data comes from the source buffer (out of place the destination holds stale bytes)', floor=floor)
    if not os.path.exists(BASELINE):
        chk.broken('output-read baseline missing')
        return
    base = json.load(open(BASELINE))['functions']
    for name, (n, sites) in sorted(collect(P).items()):
        if name not in base:
            r.ok(name + ':new', 'routine not on the reference tree')
            continue
        if n > base[name]:
            r.bad(name, sites[0][0], '%s reads through an output-derived pointer in %d places (reference tree: %d): %s' % (
                name, n, base[name], '; '.join('%s %s' % (l.split('/')[-1], t) for l, t in sites[:8])))
        else:
            r.ok(name, n)


if __name__ == '__main__':
    import sys
    if '--write-baseline' in sys.argv:
        print(write_baseline(cf.Program()))
    else:
        for k, (n, s) in sorted(collect(cf.Program()).items()):
            if n:
                print(n, k, [(l.split('/')[-1], t) for l, t in s][:6])


# ------------------------------------------------------------------------------------------------------------------------------
# O2: job->src is used together with its start offset

OFF_BASELINE = os.path.join(os.path.dirname(BASELINE), 'src_offset_baseline.json')


def _bare_src(e, out, covered=False):
    """IMB_JOB.src references that are not an operand of an addition which also adds a *_start_src_offset_* field"""
    e0 = cf.strip_casts(e)
    if not isinstance(e0, dict):
        return
    if e0.get('k') == 'bin' and e0['op'] == '+':
        has_off = any(nd.get('k') == 'mem' and re.search(r'start_src_offset|start_offset', nd.get('f') or '') for nd in cf.walk(e0))
        _bare_src(e0['l'], out, covered or has_off)
        _bare_src(e0['r'], out, covered or has_off)
        return
    if e0.get('k') == 'mem' and e0.get('f') == 'src' and 'IMB_JOB' in (e0.get('rec') or ''):
        if not covered:
            out.append(e0)
        return
    for key in ('l', 'r', 'e', 'b', 'i', 't', 'f', 'c', 'callee'):
        v = e0.get(key)
        if isinstance(v, dict):
            _bare_src(v, out, False)
    for a in e0.get('a', []) or []:
        _bare_src(a, out, False)


def bare_src_uses(P):
    res = {}
    seen = set()
    for tu in P.tus():
        for f in P.funcs(tu):
            if (f.name, f.loc) in seen:
                continue
            seen.add((f.name, f.loc))
            sites = []
            for b, i, ev in f.events():
                for key in ('e', 'rhs', 'val'):
                    x = ev.get(key)
                    if x:
                        o = []
                        _bare_src(x, o)
                        sites += [ev['loc']] * len(o)
                if ev['k'] == 'decl':
                    for d in ev['d']:
                        if d.get('init') is not None:
                            o = []
                            _bare_src(d['init'], o)
                            sites += [ev['loc']] * len(o)
            # null checks (`job->src == NULL`) are not data uses
            for bid, bl in f.blocks.items():
                pass
            def _exprs(ev):
                for key in ('e', 'rhs', 'val'):
                    if ev.get(key):
                        yield ev[key]
                if ev['k'] == 'decl':
                    for d in ev['d']:
                        if d.get('init') is not None:
                            yield d['init']
            uses_src = sites or any(nd.get('k') == 'mem' and nd.get('f') == 'src' and 'IMB_JOB' in (nd.get('rec') or '')
                                    for _, _, ev in f.events() for x in _exprs(ev) for nd in cf.walk(x))
            if uses_src:
                res[f.name] = (max(len(sites), res.get(f.name, (0, []))[0]), sites)
    return res


def write_offset_baseline(P):
    cur = bare_src_uses(P)
    with open(OFF_BASELINE, 'w') as fh:
        json.dump({'what': 'per function: number of uses of IMB_JOB.src as data that do not add a *_start_src_offset_* field, on the reference tree',
                   'functions': {k: v[0] for k, v in sorted(cur.items())}}, fh, indent=0, sort_keys=True)
    return len(cur), sum(v[0] for v in cur.values())


def rule_src_offset(chk, P, rid, floor=60):
    r = chk.rule(rid, 'no function uses job->src as data without adding the job\'s start offset in more places than on the reference tree (every entry '
                      'point must honour cipher_start_src_offset / hash_start_src_offset alike)', floor=floor)
    if not os.path.exists(OFF_BASELINE):
        chk.broken('source-offset baseline missing')
        return
    base = json.load(open(OFF_BASELINE))['functions']
    for name, (n, sites) in sorted(bare_src_uses(P).items()):
        if name not in base:
            r.ok(name + ':new', 'not on the reference tree')
            continue
        r.check(n <= base[name], name, sites[0] if sites else name,
                '%s uses job->src without a start offset in %d places (reference tree: %d): %s' % (name, n, base[name], ', '.join(s.split('/')[-1] for s in sites[:6])))
