"""C03 — AEAD / combined modes equal their specification (NOT decided).  Decided: binding / dispatch agreement for AEAD kernels."""
from .. import cf
from . import inits, c06
from .c01 import AEAD_MODES, AEAD_ALGS, AEAD_TOK


def run(chk):
    P = cf.Program()
    import re as _re
    from . import clones
    chk.explanation = ('NOT decided: equality of ciphertext/tag with the AEAD specifications. Decided: in every variant, for GCM, GCM-SGL, '
                       'CCM, ChaCha20-Poly1305(-SGL), SNOW-V-AEAD, SM4-GCM, DOCSIS-BPI and PON, both table halves dispatch the accepted '
                       '(mode, key size) to kernels of that mode, key size and direction; the paired hash algorithms dispatch to their own '
                       'kernels; AEAD macro->kernel bindings agree in key size / direction.')
    inits.rule_bindings(chk, P, 'B1', select=lambda k, v: bool(AEAD_TOK.search(k)), floor=150)
    c06.run(chk, mode_filter=lambda m: m in AEAD_MODES or m == 'IMB_CIPHER_DOCSIS_SEC_BPI', alg_filter=lambda a: a in AEAD_ALGS,
            only_cells=True, ids=('B2', 'B2h', 'B2o'))
    clones.rule_clones(chk, 'N1', select=lambda s: bool(_re.search(r'gcm|ccm|pon|docsis', s)), floor=20)
    clones.rule_const_width(chk, 'N2', floor=100)
    clones.rule_threshold_tests(chk, 'N3', floor=20)
    clones.rule_defuse(chk, 'D1', 'D2', ('aead',), floor=50)
    clones.rule_tables(chk, 'N5', ('aead',), floor=20)
    from . import callctx as _cc
    _Pc = cf.PROGRAM[0] or cf.Program()
    _vt = set(_Pc.variant_tus())
    _cc.rule_call_contexts(chk, _Pc, 'T10', lambda tu, fn, callee, cargs, atoms: tu in _vt, 1000)
    clones.rule_unreachable(chk, 'U1', ('aead',), floor=20, also=r'chacha20|poly')
    clones.rule_insert_ladders(chk, 'N6', ('aead',), floor=100, also=r'ccm|gcm|chacha|poly')
    clones.rule_dup_stores(chk, 'W6', ('aead',), floor=1, also=r'ccm|gcm|chacha|poly')
    clones.rule_byte_order(chk, 'N7', ('aead',), floor=20, also=r'ccm|gcm|chacha|poly')
    from . import twins
    twins.rule_token_agreement(chk, cf.PROGRAM[0] or cf.Program(), 'K1', floor=150)
    from . import aead
    aead.rule_mac_source(chk, P, 'A1', floor=16)
    aead.rule_consume_and_clear(chk, P, 'A2')
