"""Rules shared by several properties."""
import os, re
from .. import cf, build


def is_mgr_type(t):
    return re.sub(r'\bconst\b|\bstruct\b|\s+', '', t) == 'IMB_MGR*'


def null_edge_blocks(func, pname):
    """blocks that are entered only on an edge where parameter pname is known to be NULL"""
    out = set()
    for bid, b in func.blocks.items():
        t = b.get('term')
        if not t or t['kind'] not in ('IfStmt', 'ConditionalOperator', 'BinaryOperator'):
            continue
        c = cf.strip_casts(t.get('cond'))
        su = b['succ']
        if not isinstance(c, dict) or len(su) != 2:
            continue
        null_succ = None
        if c.get('k') == 'bin' and c['op'] in ('==', '!='):
            l, r = cf.strip_casts(c['l']), cf.strip_casts(c['r'])
            if cf.is_int(r, 0) and l.get('k') == 'ref' and l['n'] == pname:
                null_succ = su[0] if c['op'] == '==' else su[1]
            elif cf.is_int(l, 0) and r.get('k') == 'ref' and r['n'] == pname:
                null_succ = su[0] if c['op'] == '==' else su[1]
        elif c.get('k') == 'un' and c['op'] == '!':
            e = cf.strip_casts(c['e'])
            if e.get('k') == 'ref' and e['n'] == pname:
                null_succ = su[0]
        elif c.get('k') == 'ref' and c['n'] == pname:
            null_succ = su[1]
        if null_succ is not None and func.pred[null_succ] == [bid]:
            out.add(null_succ)
    return out


def rule_errno_target(chk, P, rid):
    """imb_set_errno(NULL, E) in a function that has a manager parameter is allowed only where that parameter is
    known to be NULL (otherwise the failure is recorded only in the process-wide mirror and the manager's own
    error code stays 0)."""
    r = chk.rule(rid, 'errors are recorded in the manager in scope: imb_set_errno(NULL,E) only on the manager==NULL edge',
                 floor=400)
    seen = set()
    for tu in P.tus():
        for f in P.funcs(tu):
            mp = [p['name'] for p in f.params if is_mgr_type(p['type'])]
            if not mp:
                continue
            sites = [(bid, ev) for bid, _, ev in f.calls('imb_set_errno')]
            if not sites:
                continue
            dom = None
            nullb = None
            for bid, ev in sites:
                key = '%s@%s' % (f.name, _errname(ev['e']['a'][1]) if len(ev['e']['a']) > 1 else '?')
                sk = (f.name, ev['loc'], ev.get('sloc'), key)
                if sk in seen:
                    continue
                seen.add(sk)
                a0 = cf.strip_casts(ev['e']['a'][0]) if ev['e'].get('a') else None
                if not cf.is_int(a0, 0):
                    r.ok(key)
                    continue
                if dom is None:
                    dom = f.dominators()
                    nullb = set()
                    for p in mp:
                        nullb |= null_edge_blocks(f, p)
                okk = any(nb in dom.get(bid, ()) for nb in nullb)
                r.check(okk, key, ev.get('sloc') or ev['loc'],
                        'imb_set_errno(NULL, %s) in %s although the manager parameter (%s) is not NULL here: the '
                        "manager's own error code stays 0 and the failure lives only in the process-wide mirror" % (
                            _errname(ev['e']['a'][1]), f.name, ','.join(mp)))
    return r


def _errname(e):
    e = cf.strip_casts(e)
    if isinstance(e, dict):
        return e.get('enum') or cf.render(e)
    return '?'


def rule_asm_writable_sections(chk, rid):
    from .. import asmfacts
    r = chk.rule(rid, 'assembled objects have no writable section (.data/.bss): asm code keeps no library-owned state',
                 floor=250)
    secs = asmfacts.sections()
    for obj, sl in sorted(secs.items()):
        bad = [s for s in sl if 'W' in s['flags'] and s['size'] > 0 and s['type'] in ('PROGBITS', 'NOBITS')]
        r.check(not bad, obj, obj, 'writable section(s) %s in assembled object: library-owned mutable state in assembly' %
                ', '.join('%s(%d bytes)' % (s['name'], s['size']) for s in bad))
    return r
