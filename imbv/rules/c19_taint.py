"""K-b: secret-taint over the C code of the SAFE_LOOKUP translation units (cfacts level).

Abstract locations: locals (function, name); struct memory by (record type, field) — a type-based, field-sensitive heap;
pointees of non-struct pointer parameters (function, parameter); function results.  Interprocedural within the TU,
context-insensitive, flow-insensitive, iterated to a fixpoint.  Sources are the key schedules (by type, and for DES by the
key-schedule parameters); sinks are branch / loop / switch / ?: conditions, subscripts and memcpy-like sizes.  The index
argument of a constant-time lookup primitive is not a sink (K-c shows the primitives constant-time)."""
import re
from .. import cf

TUS = ['x86_64__des_basic.c', 'sse_t1__kasumi_sse.c', 'sse_t1__snow3g_sse.c', 'avx2_t1__snow3g_avx2.c', 'avx512_t1__snow3g_avx512.c']
# record types whose every field is key material
SECRET_RECORDS = {'snow3g_key_schedule_s', 'snow3g_key_schedule_t', 'kasumi_key_sched_s', 'kasumi_key_sched_t'}
# DES: the schedule is passed as plain uint64_t pointers
SECRET_PTR_PARAMS = re.compile(r'^(ks|ks1|ks2|ks3|pKeySchedule\w*)$')
LOOKUP = re.compile(r'^(lookup_\d+bit_(sse|avx)|lookup_\d+x8bit_\w+|lut16x8b_256)$')
SIZE_FNS = {'memcpy': 2, 'memset': 2, 'memmove': 2, 'memcpy_keystrm': 2, 'safe_memcpy': 2}


def rn(t):
    return re.sub(r'\b(const|struct|volatile|union)\b|\s+|\*', '', t or '')


class Taint:
    def __init__(self, P, tu):
        self.P = P
        self.tu = tu
        self.funcs = {f.name: f for f in P.funcs(tu)}
        self.var = set()      # (func, local/param name): value tainted
        self.ptee = set()     # (func, name): pointee of this pointer variable / array content tainted
        self.field = set()    # (record, field)
        self.ret = set()
        self.changed = True
        self.internal = set()
        self.src_ptee = set()
        self.ptypes = {}
        for f in self.funcs.values():
            for p in f.params:
                self.ptypes[(f.name, p['name'])] = p['type']
                if SECRET_PTR_PARAMS.match(p['name']) and '*' in p['type'] and rn(p['type']) in ('uint64_t', 'void', 'uint8_t', 'uint32_t'):
                    if tu.endswith('des_basic.c'):
                        self.ptee.add((f.name, p['name']))
                        self.src_ptee.add((f.name, p['name']))
        # typedef name -> record name; union records share one abstract field
        self.alias = {}
        self.unions = set()
        for e in P.facts[tu]['enums']:
            if e.get('alias') and e.get('typedef_of'):
                self.alias[e['name']] = e['typedef_of']
        for r in P.facts[tu]['records']:
            nm = r.get('name') or r.get('typedef')
            if r.get('typedef') and r.get('name'):
                self.alias[r['typedef']] = r['name']
            if r.get('union') and nm:
                self.unions.add(nm)
                if r.get('typedef'):
                    self.unions.add(r['typedef'])
        for r in P.facts[tu]['records']:
            names = {r.get('name'), r.get('typedef')} | {k for k, v in self.alias.items() if v == r.get('name')}
            if names & SECRET_RECORDS:
                for fld in r['fields']:
                    self.field.add(self.fkey(r.get('name') or r.get('typedef'), fld['name']))

    def compute_internal(self):
        """(function, pointer parameter) pairs that may point to a function-local object of some caller; parameters only ever
        bound to caller-supplied buffers (API arguments) are external: data stored there is output, data read from there is
        public input, neither carries taint"""
        I = set()
        changed = True
        while changed:
            changed = False
            for fn, f in self.funcs.items():
                for _, _, ev in f.calls():
                    g = self.funcs.get(ev['e'].get('fn'))
                    if not g:
                        continue
                    for i, a in enumerate(ev['e'].get('a', [])):
                        if i >= len(g.params) or '*' not in g.params[i]['type'] and '[' not in g.params[i]['type']:
                            continue
                        b = cf.base_ref(a)
                        if b is None or b.get('g'):
                            continue
                        internal = (not b.get('p')) or (fn, b['n']) in I
                        # a local pointer variable initialised from a parameter is as external as that parameter
                        if not b.get('p') and '*' in b.get('ty', '') and '[' not in b.get('ty', ''):
                            internal = self._local_ptr_internal(fn, f, b['n'], I)
                        if internal and (g.name, g.params[i]['name']) not in I:
                            I.add((g.name, g.params[i]['name']))
                            changed = True
        self.internal = I

    def _local_ptr_internal(self, fn, f, name, I):
        srcs = []
        for _, _, ev in f.events(('decl', 'assign')):
            if ev['k'] == 'decl':
                for d in ev['d']:
                    if d['n'] == name and d.get('init') is not None:
                        srcs.append(d['init'])
            elif cf.strip_casts(ev['lhs']).get('n') == name and ev.get('rhs') is not None and ev['op'] == '=':
                srcs.append(ev['rhs'])
        if not srcs:
            return True
        for s_ in srcs:
            b = cf.base_ref(s_)
            if b is None:
                return True
            if b.get('g'):
                continue
            if b.get('p'):
                if (fn, b['n']) in I:
                    return True
            elif b['n'] != name:
                if '*' in b.get('ty', '') and '[' not in b.get('ty', ''):
                    if self._local_ptr_internal(fn, f, b['n'], I) if b['n'] != name else False:
                        return True
                else:
                    return True
        return False

    def is_external_ptr(self, fn, ref):
        """ref designates caller-supplied memory (pointer parameter never bound to a local, or a local alias of one)"""
        if ref.get('g'):
            return True
        if ref.get('p'):
            return (fn, ref['n']) not in self.internal and (fn, ref['n']) not in self.src_ptee
        if '*' in ref.get('ty', '') and '[' not in ref.get('ty', ''):
            return not self._local_ptr_internal(fn, self.funcs[fn], ref['n'], self.internal)
        return False

    def fkey(self, rec, field):
        rec = rn(rec)
        rec = self.alias.get(rec, rec)
        if rec in self.unions or rec.startswith('union') or '(anonymous' in rec or '(unnamed' in rec:
            return (rec, '*')
        return (rec, field)

    def add(self, s, x):
        if x not in s:
            s.add(x)
            self.changed = True

    # ---- evaluation
    def pointee_tainted(self, fn, e):
        """is the memory designated by pointer/array expression e tainted?"""
        e = cf.strip_casts(e)
        if not isinstance(e, dict):
            return False
        k = e.get('k')
        if k == 'ref':
            return (fn, e['n']) in self.ptee or ((fn, e['n']) in self.var and '[' in e.get('ty', ''))
        if k == 'mem':
            if '*' in e.get('ty', '') and '[' not in e.get('ty', ''):
                return False  # pointer-typed member: its pointee is caller memory (external)
            return self.fkey(e['rec'], e['f']) in self.field or self.value_tainted(fn, e['b']) and not e.get('arrow')
        if k == 'un' and e['op'] == '&':
            return self.value_tainted(fn, e['e'])
        if k == 'idx':
            if '*' in e.get('ty', '') and '[' not in e.get('ty', ''):
                return False  # a pointer fetched from an array of pointers designates caller memory (external)
            return self.pointee_tainted(fn, e['b'])
        if k == 'bin' and e['op'] in ('+', '-'):
            return self.pointee_tainted(fn, e['l']) or self.pointee_tainted(fn, e['r'])
        if k == 'cond':
            return self.pointee_tainted(fn, e['t']) or self.pointee_tainted(fn, e['f'])
        return False

    def value_tainted(self, fn, e):
        e = cf.strip_casts(e)
        if not isinstance(e, dict):
            return False
        k = e.get('k')
        if k in ('int', 'str'):
            return False
        if k == 'ref':
            if e.get('g') or e.get('fn'):
                return False
            if '[' in e.get('ty', ''):
                return False  # an array used as a value decays to its (public) address; contents: pointee_tainted
            return (fn, e['n']) in self.var
        if k == 'mem':
            if '[' in e.get('ty', ''):
                return False  # address of an array member is public
            if self.fkey(e['rec'], e['f']) in self.field:
                return True
            # field of a local struct value that is tainted as a whole
            b = cf.strip_casts(e['b'])
            if not e.get('arrow') and isinstance(b, dict) and b.get('k') in ('ref', 'mem', 'idx'):
                return self.value_tainted(fn, b) if b.get('k') != 'ref' else (fn, b['n']) in self.var
            return False
        if k == 'idx':
            return self.pointee_tainted(fn, e['b'])
        if k == 'un':
            if e['op'] == '*':
                return self.pointee_tainted(fn, e['e'])
            if e['op'] == '&':
                return False
            return self.value_tainted(fn, e['e'])
        if k == 'bin':
            if e['op'] == ',':
                return self.value_tainted(fn, e['r'])
            return self.value_tainted(fn, e['l']) or self.value_tainted(fn, e['r'])
        if k == 'cond':
            return self.value_tainted(fn, e['c']) or self.value_tainted(fn, e['t']) or self.value_tainted(fn, e['f'])
        if k == 'call':
            name = e.get('fn')
            if name in self.funcs:
                return name in self.ret
            return any(self.value_tainted(fn, a) or self.pointee_tainted(fn, a) for a in e.get('a', []))
        if k in ('initlist', 'complit'):
            return any(self.value_tainted(fn, a) for a in e.get('a', [])) or self.value_tainted(fn, e.get('e'))
        return False

    def taint_lvalue(self, fn, l):
        l = cf.strip_casts(l)
        if not isinstance(l, dict):
            return
        k = l.get('k')
        if k == 'ref':
            if not l.get('g'):
                self.add(self.var, (fn, l['n']))
        elif k == 'mem':
            self.add(self.field, self.fkey(l['rec'], l['f']))
            b = cf.strip_casts(l['b'])
            # a local struct object written through `.`: remember the object too (covers unions reinterpreting fields)
            if not l.get('arrow') and isinstance(b, dict) and b.get('k') == 'ref' and not b.get('g'):
                self.add(self.var, (fn, b['n']))
        elif k == 'idx' or (k == 'un' and l['op'] == '*'):
            self.taint_pointee(fn, l['b'] if k == 'idx' else l['e'])

    def taint_pointee(self, fn, p):
        p = cf.strip_casts(p)
        if not isinstance(p, dict):
            return
        k = p.get('k')
        if k == 'ref':
            if not p.get('g') and not self.is_external_ptr(fn, p):
                self.add(self.ptee, (fn, p['n']))
                if '[' in p.get('ty', ''):
                    self.add(self.var, (fn, p['n']))
        elif k == 'mem':
            if '*' in p.get('ty', '') and '[' not in p.get('ty', ''):
                return
            self.add(self.field, self.fkey(p['rec'], p['f']))
        elif k == 'un' and p['op'] == '&':
            self.taint_lvalue(fn, p['e'])
        elif k == 'idx':
            if '*' in p.get('ty', '') and '[' not in p.get('ty', ''):
                return
            self.taint_pointee(fn, p['b'])
        elif k == 'bin' and p['op'] in ('+', '-'):
            self.taint_pointee(fn, p['l'])

    def step(self):
        for fn, f in self.funcs.items():
            for _, _, ev in f.events():
                k = ev['k']
                if k == 'assign':
                    rhs = ev.get('rhs')
                    t = self.value_tainted(fn, rhs) if rhs is not None else False
                    if ev['op'] not in ('=',):
                        t = t or self.value_tainted(fn, ev['lhs'])
                    if t:
                        self.taint_lvalue(fn, ev['lhs'])
                    # pointer assignment: p = q  => pointee link
                    if rhs is not None and ev['op'] == '=' and self.pointee_tainted(fn, rhs):
                        l = cf.strip_casts(ev['lhs'])
                        if l.get('k') == 'ref' and '*' in l.get('ty', ''):
                            self.add(self.ptee, (fn, l['n']))
                elif k == 'decl':
                    for d in ev['d']:
                        if d.get('init') is not None:
                            if self.value_tainted(fn, d['init']):
                                self.add(self.var, (fn, d['n']))
                            if '*' in d['ty'] and self.pointee_tainted(fn, d['init']):
                                self.add(self.ptee, (fn, d['n']))
                elif k == 'return':
                    if ev.get('val') is not None and self.value_tainted(fn, ev['val']):
                        self.add(self.ret, fn)
                elif k == 'call':
                    e = ev['e']
                    name = e.get('fn')
                    args = e.get('a', [])
                    if name in self.funcs:
                        g = self.funcs[name]
                        for i, a in enumerate(args):
                            if i >= len(g.params):
                                break
                            pn = g.params[i]['name']
                            if self.value_tainted(fn, a):
                                self.add(self.var, (name, pn))
                            if self.pointee_tainted(fn, a) and ((name, pn) in self.internal or self.src_reaches(fn, a)):
                                self.add(self.ptee, (name, pn))
                            # out-parameters: callee tainted the pointee -> taint the actual's pointee
                            if (name, pn) in self.ptee:
                                self.taint_pointee(fn, a)
                    elif name and not LOOKUP.match(name):
                        # external function (asm kernel, libc, intrinsic with pointer args): if any input is tainted,
                        # every non-const pointer argument's pointee becomes tainted
                        anyt = any(self.value_tainted(fn, a) or self.pointee_tainted(fn, a) for a in args)
                        if anyt:
                            d = self.P.decl(name, self.tu)
                            for i, a in enumerate(args):
                                pt = d['params'][i]['type'] if d and i < len(d['params']) else ''
                                if '*' in pt and not re.match(r'^\s*const\b', pt):
                                    self.taint_pointee(fn, a)
                                elif not d and name.startswith(('_mm', '__builtin')) and 'store' in name and i == 0:
                                    self.taint_pointee(fn, a)

    def src_reaches(self, fn, a):
        """the actual is (derived from) an explicit key-schedule pointer"""
        b = cf.base_ref(a)
        if b is None:
            return False
        if (fn, b['n']) in self.src_ptee:
            return True
        # key schedule struct members (type-based sources)
        for n in cf.walk(a):
            if n.get('k') == 'mem' and self.fkey(n['rec'], n['f']) in self.field:
                return True
        if (fn, b['n']) in self.ptee and b.get('p'):
            self.src_ptee.add((fn, b['n'])) if (fn, b['n']) in self.src_ptee else None
        return False

    def solve(self):
        self.compute_internal()
        n = 0
        while self.changed and n < 60:
            self.changed = False
            self.step()
            n += 1
        return n

    # ---- sinks
    def sinks(self):
        out = []
        for fn, f in self.funcs.items():
            for bid, b in f.blocks.items():
                t = b.get('term')
                if t and t.get('cond') is not None and t['kind'] != 'ConditionalOperator':
                    if self.value_tainted(fn, t['cond']):
                        out.append((fn, t.get('sloc') or t['loc'], 'branch', 'condition `%s` of %s depends on key material' % (cf.render(t['cond'])[:70], t['kind'])))
                if t and t['kind'] == 'ConditionalOperator' and t.get('cond') is not None and self.value_tainted(fn, t['cond']):
                    out.append((fn, t.get('sloc') or t['loc'], 'select', '?: selected by key material `%s`' % cf.render(t['cond'])[:70]))
                for ev in b['ev']:
                    for kk in ('e', 'lhs', 'rhs', 'val'):
                        for n in cf.walk(ev.get(kk) or {}):
                            if n.get('k') == 'idx' and self.value_tainted(fn, n['i']):
                                out.append((fn, ev.get('sloc') or ev['loc'], 'subscript', 'subscript `%s` is derived from key material' % cf.render(n)[:70]))
                    if ev['k'] == 'decl':
                        for d in ev['d']:
                            for n in cf.walk(d.get('init') or {}):
                                if n.get('k') == 'idx' and self.value_tainted(fn, n['i']):
                                    out.append((fn, ev.get('sloc') or ev['loc'], 'subscript', 'subscript `%s` is derived from key material' % cf.render(n)[:70]))
                    if ev['k'] == 'call':
                        name = ev['e'].get('fn')
                        if name in SIZE_FNS:
                            a = ev['e']['a']
                            if len(a) > SIZE_FNS[name] and self.value_tainted(fn, a[SIZE_FNS[name]]):
                                out.append((fn, ev.get('sloc') or ev['loc'], 'size', 'size argument of %s depends on key material' % name))
                        if name and LOOKUP.match(name):
                            a = ev['e']['a']
                            tbl = a[0] if not name.startswith(('lookup_16x8', 'lookup_32x8', 'lookup_64x8', 'lut')) else a[-1]
                            if self.value_tainted(fn, tbl):
                                out.append((fn, ev.get('sloc') or ev['loc'], 'table', 'table argument of %s depends on key material' % name))
        return out


def run_kb(chk, P):
    r = chk.rule('Kb', 'no branch / ?: condition, subscript or copy size in the SAFE_LOOKUP C units is derived from key-schedule data', floor=150)
    src = chk.rule('Kb0', 'taint sources are present and propagate (the keystream / cipher state of every algorithm is reached)', floor=5)
    total = 0
    for tu in TUS:
        if tu not in P.facts:
            continue
        T = Taint(P, tu)
        nsrc = len(T.field) + len(T.ptee)
        iters = T.solve()
        src.check(nsrc > 0 and len(T.var) > 10, tu.split('__')[1], tu, '%s: taint sources %d, tainted locals %d: the source specification no longer matches the code' % (
            tu, nsrc, len(T.var)), detail={'sources': nsrc, 'tainted_locals': len(T.var), 'tainted_fields': len(T.field), 'iterations': iters})
        sinks = T.sinks()
        seen = set()
        # every function analysed is an instance
        for fn in T.funcs:
            bad = [s for s in sinks if s[0] == fn]
            total += 1
            if not bad:
                r.ok('%s:%s' % (tu.split('__')[1], fn))
            for fn_, loc, kind, msg in bad:
                k = (fn_, loc, kind)
                if k in seen:
                    continue
                seen.add(k)
                r.bad('%s:%s:%s@%s' % (tu.split('__')[1], fn_, kind, loc.split(':')[-1]), loc, '%s: %s' % (fn_, msg))
    chk.extra['functions_tainted_analysed'] = total
