"""Rules about manager initialisation, reset, re-attachment and variant binding, shared by C08 / C15 / C16 / C09 / C11
and C01-C03.  Every rule works on the type-checked facts of all variant TUs."""
import re
from .. import cf, guards, build, dispatch as D
from .c14 import _recname, handler_assignments

VARIANT_RE = re.compile(r'^(sse|avx2|avx512)_t(\d)__mb_mgr_(sse|avx2|avx512)_t(\d)\.c$')


def macro_value(M, name, depth=0):
    """integer value of an object-like macro built from other macros, shifts, ors (python evaluation of the expansion)"""
    if depth > 12 or name not in M:
        return None
    txt = M[name]

    def repl(m):
        n = m.group(0)
        if n in M:
            v = macro_value(M, n, depth + 1)
            return str(v) if v is not None else n
        return n
    e = re.sub(r'\b[A-Za-z_]\w*\b', repl, txt)
    e = re.sub(r'(\d+)(ULL|UL|LL|U|L)\b', r'\1', e)
    e = re.sub(r'UINT64_C\(([^)]*)\)', r'\1', e)
    if not re.match(r'^[\d\s()|&<>~+\-*x0-9a-fA-F]+$', e):
        return None
    try:
        return int(eval(e, {'__builtins__': {}}, {})) & ((1 << 64) - 1)
    except Exception:
        return None


def init_func(P, tu):
    for f in P.funcs(tu):
        if re.match(r'init_mb_mgr_\w+_t\d_internal$', f.name):
            return f
    return None


_RESETFN = {}


def reset_fn_name(P, tu):
    """name of the variant's function that resets its out-of-order managers: the same-TU function (whatever it is called) that
    calls the ooo_mgr_*_reset functions, directly or through one more level"""
    if tu in _RESETFN:
        return _RESETFN[tu]
    best = (0, None)
    for f in P.funcs(tu):
        n = sum(1 for _, _, ev in f.calls() if re.match(r'^ooo_mgr_\w+_reset$', ev['e'].get('fn') or ''))
        if n > best[0]:
            best = (n, f.name)
    _RESETFN[tu] = best[1] if best[0] >= 5 else None
    return _RESETFN[tu]


def mgr_fnptr_fields(P):
    rec = P.record('IMB_MGR')
    return [f['name'] for f in rec['fields'] if f.get('fnptr')]


def ooo_fields(P):
    rec = P.record('IMB_MGR')
    return {f['name']: f for f in rec['fields'] if f['name'].endswith('_ooo')}


def features_test(c):
    """(mask, polarity) for conditions `(x->features & M) == M` (polarity True) / `!= M` (False)"""
    c = cf.strip_casts(c)
    if not (isinstance(c, dict) and c.get('k') == 'bin' and c['op'] in ('==', '!=')):
        return None
    l, r = cf.strip_casts(c['l']), cf.strip_casts(c['r'])
    m = cf.evalc(r)
    if m is None or not (isinstance(l, dict) and l.get('k') == 'bin' and l['op'] == '&'):
        return None
    a, b = cf.strip_casts(l['l']), cf.strip_casts(l['r'])
    fm = None
    if isinstance(a, dict) and a.get('k') == 'mem' and a['f'] == 'features' and cf.evalc(b) == m:
        fm = m
    if isinstance(b, dict) and b.get('k') == 'mem' and b['f'] == 'features' and cf.evalc(a) == m:
        fm = m
    if fm is None:
        return None
    return fm & ((1 << 64) - 1), c['op'] == '=='


def masks_guarding(f, bid):
    """union of feature masks known present when block bid executes (tests on dominating edges, killed by a later
    store to ->features)"""
    dom = f.dominators()
    kills = [b for b in f.blocks if any(ev['k'] == 'assign' and cf.strip_casts(ev['lhs']).get('f') == 'features'
                                        for ev in f.blocks[b]['ev'])]
    mask = 0
    tests = []
    for d in dom.get(bid, ()):
        if d == bid:
            continue
        t = f.blocks[d].get('term')
        if not t or t['kind'] != 'IfStmt':
            continue
        ft = features_test(guards.expand(f, t.get('fullcond') or t.get('cond'), d))
        if not ft:
            continue
        m, pol = ft
        su = f.blocks[d]['succ']
        present_succ, absent_succ = (su[0], su[1]) if pol else (su[1], su[0])
        # bid must lie on the "present" side: dominated by present_succ entered only from d, or the absent side returns
        on_present = (present_succ in dom[bid] and f.pred[present_succ] == [d]) or \
                     (present_succ in dom[bid] and bid not in f.reachable(absent_succ))
        if not on_present:
            continue
        # a store in the test's own block precedes the test (events come before the terminator)
        killed = any(k in dom[bid] and d in dom.get(k, ()) and k != d for k in kills)
        tests.append((m, d, killed))
        if not killed:
            mask |= m
    return mask, tests


# ----------------------------------------------------------------------------------------------------------------
# R2 / I5 / P2: handler completeness and what is (not) under `if (reset_mgrs)`

def rule_handlers(chk, P, rid_complete, rid_reset, rid_noreset):
    rc = chk.rule(rid_complete, 'every variant init assigns every function-pointer slot of IMB_MGR (also when reset_mgrs == 0, i.e. on '
                                're-attach), plus used_arch / used_arch_type', floor=1000)
    rr = chk.rule(rid_reset, 'with reset_mgrs != 0 the init resets all out-of-order managers and the job ring (next_job = 0, '
                             'earliest_job = -1)', floor=24)
    rn = chk.rule(rid_noreset, 'with reset_mgrs == 0 the init touches neither the out-of-order managers nor the job ring', floor=8)
    fields = mgr_fnptr_fields(P)
    USER = {'self_test_cb_fn'}  # user-installed callback, never bound by init
    nvar = 0
    for tu in P.variant_tus():
        f = init_func(P, tu)
        if f is None:
            chk.broken('%s: init_mb_mgr_*_internal not found' % tu)
            continue
        nvar += 1
        vt = tu.split('__')[0]
        for env, tag in (({'reset_mgrs': 0}, 'reattach'), ({'reset_mgrs': 1}, 'init')):
            reach = f.reachable(None, env)
            # the success path = blocks not on the missing-cpu-flags early return: take blocks reachable that assign
            assigned = {}
            for b in reach:
                for ev in f.blocks[b]['ev']:
                    if ev['k'] == 'assign' and ev['op'] == '=':
                        l = cf.strip_casts(ev['lhs'])
                        if l.get('k') == 'mem' and _recname(l['rec']) == 'IMB_MGR':
                            assigned.setdefault(l['f'], []).append((b, ev))
            for fld in fields:
                if fld in USER:
                    continue
                ok = fld in assigned
                if ok:
                    # must hold on every path to the normal exit: the assigning block post-dominates the first handler store
                    pass
                rc.check(ok, '%s:%s:%s' % (vt, tag, fld), f.loc,
                         '%s (%s path, reset_mgrs=%d) does not bind handler slot %s: it keeps the previous variant\'s / a dead '
                         'process\'s address' % (f.name, tag, env['reset_mgrs'], fld))
                if ok:
                    rhs = cf.strip_casts(assigned[fld][0][1].get('rhs'))
                    rc.check(isinstance(rhs, dict) and rhs.get('k') == 'ref' and rhs.get('fn'), '%s:%s:%s:fn' % (vt, tag, fld),
                             assigned[fld][0][1]['loc'], '%s binds %s to a non-function value' % (f.name, fld))
            for fld in ('used_arch', 'used_arch_type'):
                rc.check(fld in assigned, '%s:%s:%s' % (vt, tag, fld), f.loc, '%s (%s path) does not set %s' % (f.name, tag, fld))
        # every handler assignment lies on every path through the function after the feature check: no conditional binding
        # (a slot bound only under some other condition would be flagged above for the env where it is skipped)
        # ---- reset region
        reach1 = f.reachable(None, {'reset_mgrs': 1})
        reach0 = f.reachable(None, {'reset_mgrs': 0})
        only1 = reach1 - reach0
        evs1 = [ev for b in reach1 for ev in f.blocks[b]['ev']]
        calls1 = {ev['e'].get('fn') for ev in evs1 if ev['k'] == 'call'}
        rfn = reset_fn_name(P, tu)
        rr.check(rfn is not None and rfn in calls1, vt + ':reset_ooo_mgrs', f.loc, '%s does not call %s() when reset_mgrs != 0' % (f.name, rfn or 'the manager reset function'))
        ring = {}
        for ev in evs1:
            if ev['k'] == 'assign' and cf.strip_casts(ev['lhs']).get('f') in ('next_job', 'earliest_job'):
                ring[cf.strip_casts(ev['lhs'])['f']] = cf.evalc(ev.get('rhs'))
        rr.check(ring.get('next_job') == 0, vt + ':next_job', f.loc, '%s does not set next_job = 0 on reset (%s)' % (f.name, ring.get('next_job')))
        rr.check(ring.get('earliest_job') == -1, vt + ':earliest_job', f.loc, '%s does not set earliest_job = -1 on reset (%s)' % (f.name, ring.get('earliest_job')))
        bad0 = []
        for b in reach0:
            for ev in f.blocks[b]['ev']:
                if ev['k'] == 'call' and (ev['e'].get('fn') == rfn or (ev['e'].get('fn') or '').startswith('ooo_mgr_')):
                    bad0.append('calls %s' % ev['e']['fn'])
                if ev['k'] == 'assign':
                    l = cf.strip_casts(ev['lhs'])
                    if l.get('k') == 'mem' and l['f'] in ('next_job', 'earliest_job'):
                        bad0.append('writes %s' % l['f'])
                    br = cf.base_ref(l)
                    if any(n.get('k') == 'mem' and n['f'].endswith('_ooo') for n in cf.walk(l)):
                        bad0.append('writes through %s' % cf.render(l))
        rn.check(not bad0, vt + ':reattach-clean', f.loc, '%s with reset_mgrs == 0 %s: in-flight jobs of a re-attached manager would be lost' % (
            f.name, '; '.join(sorted(set(bad0)))))
    if nvar < 8:
        chk.broken('only %d variant init functions found' % nvar)


# ----------------------------------------------------------------------------------------------------------------
# I1-I4: reset coverage / type agreement / lane counts / whole-struct clear

def reset_functions(P):
    tu = 'x86_64__ooo_mgr_reset.c'
    if tu not in P.facts:
        raise build.AnalysisBroken('ooo_mgr_reset.c not in the compile database')
    out = {}
    for f in P.funcs(tu):
        if not f.name.startswith('ooo_mgr_'):
            continue
        # cast type: local initialised from (T *) p_ooo_mgr
        T = None
        for _, _, ev in f.events(('decl',)):
            for d in ev['d']:
                i = d.get('init')
                if isinstance(i, dict) and i.get('k') == 'cast' and cf.strip_casts(i).get('p'):
                    T = _recname(d['ty']).rstrip('*')
        lanes = set()
        has_lane_cond = False
        lane_param = f.params[1]['name'] if len(f.params) > 1 else None
        for b in f.blocks.values():
            t = b.get('term')
            if t and t.get('cond') is not None:
                c = guards.canon(t.get('fullcond') or t['cond'])
                for m in re.finditer(r'\b%s == (\d+)' % re.escape(lane_param or '?'), c):
                    lanes.add(int(m.group(1)))
                    has_lane_cond = True
        # is unused_lanes assigned unconditionally somewhere?
        dom = f.dominators()
        uncond = False
        for bid, b in f.blocks.items():
            for ev in b['ev']:
                if ev['k'] == 'assign' and cf.strip_casts(ev['lhs']).get('f') == 'unused_lanes':
                    if all(not (f.blocks[d].get('term') and f.blocks[d]['term']['kind'] == 'IfStmt') or d == bid for d in dom.get(bid, ())):
                        uncond = True
        out[f.name] = {'T': T, 'lanes': lanes, 'lane_cond': has_lane_cond, 'uncond': uncond, 'f': f}
    return out


def sets_unused_lanes(P, f, lanes, depth=0, ptr_param=None):
    """constant propagation of the lane count: does f, called with `lanes`, reach a store that establishes unused_lanes —
    directly, or in a helper that receives the lane count and a pointer to the field?"""
    tu = f.tu
    lane_param = None
    if depth == 0:
        lane_param = f.params[1]['name'] if len(f.params) > 1 else None
    env = {lane_param: lanes} if lane_param else {}
    if isinstance(ptr_param, dict):
        env = dict(ptr_param.get('env', {}))
    for b in f.reachable(None, env):
        for ev in f.blocks[b]['ev']:
            if ev['k'] == 'assign':
                l = cf.strip_casts(ev['lhs'])
                if l.get('f') == 'unused_lanes' or (l.get('k') == 'idx' and cf.strip_casts(l['b']).get('f') == 'unused_lanes'):
                    return True
                if isinstance(ptr_param, dict) and l.get('k') == 'un' and l.get('op') == '*' and \
                        cf.strip_casts(l['e']).get('n') in ptr_param.get('ptrs', ()):
                    return True
            if ev['k'] == 'call' and depth < 2 and ev['e'].get('fn') and P.has(tu, ev['e']['fn']):
                g = P.func(tu, ev['e']['fn'])
                ptrs = set()
                genv = {}
                for i, prm in enumerate(g.params):
                    if i >= len(ev['e'].get('a', [])):
                        continue
                    a = ev['e']['a'][i]
                    if any(n.get('k') == 'mem' and n.get('f') == 'unused_lanes' for n in cf.walk(a)):
                        ptrs.add(prm['name'])
                    v = cf.evalc(a, env)
                    if v is not None:
                        genv[prm['name']] = v
                if ptrs and sets_unused_lanes(P, g, lanes, depth + 1, {'ptrs': ptrs, 'env': genv}):
                    return True
    return False


def rule_reset(chk, P, prefix='I'):
    i1 = chk.rule(prefix + '1', 'every out-of-order manager a variant can dispatch to is reset by that variant\'s reset_ooo_mgrs', floor=250)
    i2 = chk.rule(prefix + '2', 'reset function, allocation table and kernel prototype agree on the manager type of each *_ooo field', floor=300)
    i3 = chk.rule(prefix + '3', 'the lane count passed to each reset is one the reset function initialises unused_lanes for', floor=250)
    i4 = chk.rule(prefix + '4', 'each reset function first clears the whole manager up to road_block, then only re-initialises', floor=15)
    rf = reset_functions(P)
    if len(rf) < 12:
        chk.broken('only %d ooo_mgr_*_reset functions found' % len(rf))
    # ---- I4
    for name, info in sorted(rf.items()):
        f = info['f']
        T = info['T']
        key = name
        if not T:
            i4.bad(key, f.loc, '%s: manager type not recognised' % name)
            continue
        try:
            rec = P.record(T)
        except build.AnalysisBroken:
            i4.bad(key, f.loc, '%s: record %s not found' % (name, T))
            continue
        rb = next((x['off'] for x in rec['fields'] if x['name'] == 'road_block'), None)
        # first effect on every path: memset(p, 0, rb)
        def is_clear(ev):
            if ev['k'] != 'call' or ev['e'].get('fn') != 'memset':
                return False
            a = ev['e']['a']
            return len(a) == 3 and cf.evalc(a[1]) == 0 and cf.evalc(a[2]) == rb and cf.strip_casts(a[0]).get('k') == 'ref'

        def is_other_effect(ev):
            if ev['k'] == 'call' and not is_clear(ev):
                return True
            if ev['k'] == 'assign':
                l = cf.strip_casts(ev['lhs'])
                return not (l.get('k') == 'ref' and not l.get('g'))
            return ev['k'] == 'return'
        ok, _ = cf.walk_paths_must(f, f.entry, None, is_clear, is_other_effect)
        i4.check(ok and rb is not None, key, f.loc,
                 '%s does not start by clearing the whole %s up to road_block (offset %s): residue of earlier jobs survives re-init' % (name, T, rb))
        # no non-constant re-initialisation source (nothing copied from the old contents)
    # ---- allocation table
    tab = None
    if 'x86_64__alloc.c' in P.facts:
        tab = P.table('x86_64__alloc.c', 'ooo_mgr_table', required=False)
    if tab is None:
        chk.broken('ooo_mgr_table not found')
        return
    oo = ooo_fields(P)
    by_off = {f['off']: n for n, f in oo.items()}
    alloc = {}
    for el in tab['elems']:
        vals = [cf.evalc(x) for x in el['e'].get('a', [])] if el['e'].get('k') == 'initlist' else []
        if len(vals) == 3 and vals[0] in by_off:
            alloc[by_off[vals[0]]] = (vals[1], vals[2])
    # ---- per variant
    M = build.macros()
    reset_sets = {}
    for tu in P.variant_tus():
        vt = tu.split('__')[0]
        rfn = reset_fn_name(P, tu)
        if rfn is None:
            chk.broken('%s: no function resets the out-of-order managers' % tu)
            continue
        g = P.func(tu, rfn)
        resets = {}
        for _, _, ev in g.calls():
            fn = ev['e'].get('fn')
            a = ev['e'].get('a', [])
            if fn in rf and a:
                fld = cf.strip_casts(a[0]).get('f')
                # a manager reset twice is the copy-paste form of a manager not reset at all
                i1.check(fld not in resets, '%s:%s:once' % (vt, fld), ev['loc'],
                         '%s: %s resets state->%s twice (%s and %s): the call was meant for another manager, which keeps the lane state of '
                         'earlier jobs' % (vt, rfn, fld, (resets.get(fld) or ('', 0, '?'))[2], ev['loc']))
                resets[fld] = (fn, cf.evalc(a[1]) if len(a) > 1 else None, ev['loc'])
        reset_sets[vt] = (set(resets), g.loc)
        # fields used by the variant's dispatch (anything but the reset function itself)
        used = {}
        for f in P.funcs(tu):
            if f.name == rfn:
                continue
            for _, _, ev in f.events():
                for k in ('e', 'lhs', 'rhs', 'val'):
                    for n in cf.walk(ev.get(k) or {}):
                        if n.get('k') == 'mem' and n['f'].endswith('_ooo') and _recname(n['rec']) == 'IMB_MGR':
                            used.setdefault(n['f'], (f.name, ev['loc']))
                if ev['k'] == 'decl':
                    for d in ev['d']:
                        for n in cf.walk(d.get('init') or {}):
                            if n.get('k') == 'mem' and n['f'].endswith('_ooo') and _recname(n['rec']) == 'IMB_MGR':
                                used.setdefault(n['f'], (f.name, ev['loc']))
        live = live_ooo_fields(P, tu, M)
        for fld in sorted(live):
            if ':' in fld:
                continue
            i1.check(fld in resets, '%s:%s' % (vt, fld), g.loc,
                     '%s: jobs can be parked in state->%s (%s) but reset_ooo_mgrs() never resets it' % (vt, fld, live[fld]))
        for fld, (fn, lanes, loc) in sorted(resets.items()):
            info = rf[fn]
            T = info['T']
            # I2: allocation agrees
            if fld in alloc and T:
                try:
                    rec = P.record(T)
                    size = (rec['size'] + 63) & ~63
                    rb = next((x['off'] for x in rec['fields'] if x['name'] == 'road_block'), None)
                    i2.check((size, rb) == alloc[fld], '%s:%s:%s' % (vt, fld, T), loc,
                             '%s resets state->%s as %s (aligned size %d, road_block at %s) but alloc.c reserves (%d, %d) for it' % (
                                 fn, fld, T, size, rb, alloc[fld][0], alloc[fld][1]))
                except build.AnalysisBroken:
                    i2.bad('%s:%s' % (vt, fld), loc, 'record %s not found' % T)
            else:
                i2.bad('%s:%s:alloc' % (vt, fld), loc, 'state->%s has no row in ooo_mgr_table' % fld)
            # kernel prototype type
            for kname, ptype in live.get(fld + ':types', []):
                i2.check(_recname(ptype).rstrip('*') == T, '%s:%s:%s' % (vt, fld, kname), loc,
                         'kernel %s takes %s but state->%s is reset as %s' % (kname, ptype, fld, T))
            # I3
            if fld in live:
                okl = info['uncond'] or not info['lane_cond'] or lanes in info['lanes'] or \
                    (lanes is not None and sets_unused_lanes(P, info['f'], lanes))
                i3.check(okl, '%s:%s:%s' % (vt, fld, lanes), loc,
                         '%s(state->%s, %s): %s only initialises unused_lanes for %s lanes; the manager would have no free lane' % (
                             fn, fld, lanes, fn, sorted(info['lanes'])))
            else:
                i3.ok('%s:%s:unused' % (vt, fld))

    # variants of one architecture reset the same managers (sse_t1..t3, avx2_t1..t4, avx512_t1..t2)
    arches = {}
    for vt, (flds, loc) in reset_sets.items():
        arches.setdefault(vt.split('_t')[0], {})[vt] = (flds, loc)
    for arch, vs in sorted(arches.items()):
        union = set().union(*[x[0] for x in vs.values()])
        for vt, (flds, loc) in sorted(vs.items()):
            missing = sorted(union - flds)
            i1.check(not missing, '%s:siblings' % vt, loc, '%s does not reset %s although the other %s variants do' % (vt, missing, arch))


def live_ooo_fields(P, tu, M):
    """{field: where} for ooo fields handed to out-of-order manager routines (extern callees) from the dispatch
    functions of the TU, plus '<field>:types' -> [(kernel, first-parameter type)]"""
    from .c06 import ooo_args
    out = {}
    for f in P.funcs(tu):
        if f.name == reset_fn_name(P, tu) or f.name.startswith('init_mb_mgr'):
            continue
        calls = []
        for b, blk in f.blocks.items():
            for ei, ev in enumerate(blk['ev']):
                if ev['k'] == 'call' and ev['e'].get('fn'):
                    calls.append({'name': ev['e']['fn'], 'macro': ev.get('macro'), 'args': ev['e'].get('a', []), 'in': f.name,
                                  'bid': b, 'idx': ei, 'loc': ev['loc']})
        for c in calls:
            flds = ooo_args(P, tu, [c])
            for fld in flds:
                if fld.startswith('?'):
                    continue
                out.setdefault(fld, '%s -> %s' % (f.name, c['name']))
                d = P.decl(c['name'], tu)
                if d and d['params'] and 'OOO' in d['params'][0]['type']:
                    out.setdefault(fld + ':types', [])
                    if (c['name'], d['params'][0]['type']) not in out[fld + ':types']:
                        out[fld + ':types'].append((c['name'], d['params'][0]['type']))
    return out


# ----------------------------------------------------------------------------------------------------------------
# P1 / P2: re-attachment

def rule_reattach(chk, P):
    p1 = chk.rule('P1', 'pointer re-derivation is exhaustive: every *_ooo field of IMB_MGR has a row in ooo_mgr_table and '
                        'imb_set_pointers_mb_mgr walks the whole table on both reset_mgr paths', floor=45)
    p2 = chk.rule('P2', 're-attach (reset_mgr == 0) re-binds the handlers of the recorded architecture without resetting anything', floor=8)
    tu = 'x86_64__alloc.c'
    tab = P.table(tu, 'ooo_mgr_table')
    oo = {n: f for n, f in ooo_fields(P).items() if n != 'end_ooo'}  # end_ooo is the sentinel closing the pointer block
    offs = [cf.evalc(el['e']['a'][0]) if el['e'].get('k') == 'initlist' else None for el in tab['elems']]
    by_off = {f['off']: n for n, f in oo.items()}
    for n, f in sorted(oo.items()):
        p1.check(offs.count(f['off']) == 1, 'row:' + n, tab['loc'], 'IMB_MGR.%s has %d rows in ooo_mgr_table: its pointer is not re-derived on re-attach' % (n, offs.count(f['off'])))
    for i, o in enumerate(offs):
        p1.check(o in by_off, 'row#%d' % i, tab['elems'][i]['loc'], 'ooo_mgr_table row %d (offset %s) is not an *_ooo field of IMB_MGR' % (i, o))
    # sizes: aligned size non-zero multiple of 64, road block inside
    for i, el in enumerate(tab['elems']):
        v = [cf.evalc(x) for x in el['e'].get('a', [])]
        p1.check(len(v) == 3 and v[1] and v[1] % 64 == 0 and 0 < v[2] <= v[1] - 8, 'row#%d:size' % i, el['loc'],
                 'ooo_mgr_table row %d has size %s / road block offset %s' % (i, v[1:2], v[2:3]))
    f = P.func(tu, 'imb_set_pointers_mb_mgr')
    n = len(tab['elems'])
    # the loop that walks ooo_mgr_table: `for (v = 0; v < <rows>; v++)` whose body (or a callee of it) reads ooo_mgr_table[v]
    def mentions_table(fn, bids, depth=0):
        for x in bids:
            for ev in fn.blocks[x]['ev']:
                for k in ('e', 'lhs', 'rhs', 'val'):
                    if ev.get(k) is not None:
                        for nd in cf.walk(ev[k]):
                            if nd.get('k') == 'ref' and nd.get('n') == 'ooo_mgr_table':
                                return True
                if ev['k'] == 'decl':
                    for d in ev['d']:
                        if d.get('init') is not None and any(nd.get('k') == 'ref' and nd.get('n') == 'ooo_mgr_table' for nd in cf.walk(d['init'])):
                            return True
                if ev['k'] == 'call' and depth < 2 and ev['e'].get('fn') and P.has(tu, ev['e']['fn']):
                    g_ = P.func(tu, ev['e']['fn'])
                    if mentions_table(g_, list(g_.blocks), depth + 1):
                        return True
        return False

    def table_loops(fn, need_store=True):
        res = []
        for bid, b in fn.blocks.items():
            t = b.get('term')
            if t and t['kind'] == 'ForStmt' and b['succ'][0] is not None:
                body = fn.reachable(b['succ'][0], stop=lambda x, bid=bid: x == bid)
                if mentions_table(fn, body):
                    res.append((bid, guards.canon(t.get('fullcond'))))
        return res
    loops = table_loops(f)
    rsm = f.params[2]['name'] if len(f.params) > 2 else 'reset_mgr'
    p1.check(len(loops) >= 1 and all(re.match(r'^\S+ < %d$' % n, c or '') for _, c in loops), 'loop', f.loc,
             'imb_set_pointers_mb_mgr: table loop(s) %s do not cover the %d table rows' % (loops, n))
    if loops:
        for env, tag in (({rsm: 0}, 're-attach'), ({rsm: 1}, 'fresh')):
            reach = f.reachable(None, env)
            p1.check(all(l[0] in reach for l in loops), 'loop:' + tag, f.loc, 'pointer loop not executed on the %s path' % tag)
            # must be on every path from the memset/switch to return: the loop head post-dominates the reset_mgr test
            pd = f.postdominators()
            tests = [b for b in f.blocks if (f.blocks[b].get('term') or {}).get('kind') == 'IfStmt' and
                     guards.canon(f.blocks[b]['term'].get('fullcond')) in ('%s != 0' % rsm, '%s == 0' % rsm)]
            for tb in tests:
                p1.check(any(l[0] in pd.get(tb, ()) for l in loops), 'loop-postdom:' + tag, f.loc, 'a path skips the pointer loop after the reset_mgr test')
        # road blocks: a function called from here (or this one) walks the table a second time storing the road block
        rb = [ev['e'].get('fn') for _, _, ev in f.calls() if ev['e'].get('fn') and P.has(tu, ev['e']['fn']) and
              table_loops(P.func(tu, ev['e']['fn']))]
        p1.check(bool(rb) or len(loops) >= 2, 'road-block', f.loc, 'imb_set_pointers_mb_mgr no longer sets the road blocks')
        for gname in rb:
            g = P.func(tu, gname)
            lc = [c for _, c in table_loops(g)]
            p1.check(all(re.match(r'^\S+ < %d$' % n, c or '') for c in lc), 'road-block-loop:' + gname, g.loc,
                     '%s: loop %s does not cover the %d rows' % (gname, lc, n))
    # P2: dispatch on the recorded architecture
    archs = set()
    for vtu in P.variant_tus():
        fi = init_func(P, vtu)
        if fi is None:
            continue
        for _, _, ev in fi.events(('assign',)):
            if cf.strip_casts(ev['lhs']).get('f') == 'used_arch':
                archs.add(cf.evalc(ev.get('rhs')))
    arch_enum = P.enum_types.get('IMB_ARCH', {})
    inv = {v: k for k, v in arch_enum.items()}
    # locals that hold the recorded architecture (initialised from <x>->used_arch)
    arch_locals = set()
    for _, _, ev in f.events(('decl', 'assign')):
        if ev['k'] == 'decl':
            for d in ev['d']:
                if d.get('init') is not None and any(nd.get('k') == 'mem' and nd.get('f') == 'used_arch' for nd in cf.walk(d['init'])):
                    arch_locals.add(d['n'])
        elif ev.get('rhs') is not None and any(nd.get('k') == 'mem' and nd.get('f') == 'used_arch' for nd in cf.walk(ev['rhs'])):
            l_ = cf.strip_casts(ev['lhs'])
            if l_.get('k') == 'ref':
                arch_locals.add(l_['n'])
    for a in sorted(x for x in archs if x is not None):
        nm = inv.get(a, str(a))
        short = nm.replace('IMB_ARCH_', '').lower()
        want = 'init_mb_mgr_%s_internal' % short
        env = {rsm: 0, '.used_arch': a}
        for v_ in arch_locals:
            env[v_] = a
        got = []
        for b in f.reachable(None, env):
            for ev in f.blocks[b]['ev']:
                if ev['k'] == 'call' and re.match(r'^init_mb_mgr_\w+_internal$', ev['e'].get('fn') or ''):
                    got.append((ev['e']['fn'], [cf.evalc(x, env) for x in ev['e']['a'][1:]]))
        p2.check(got == [(want, [0])], 'case:' + nm, f.loc,
                 're-attach of a manager that recorded %s must call exactly %s(ptr, 0); reachable: %s' % (nm, want, got))
    # the front-ends forward the flag unchanged
    for arch in ('sse', 'avx2', 'avx512'):
        fs = P.find('init_mb_mgr_%s_internal' % arch)
        if not fs:
            p2.bad('frontend:' + arch, 'lib', 'init_mb_mgr_%s_internal not found' % arch)
            continue
        _, g = fs[0]
        okf = True
        n_ = 0
        for _, _, ev in g.calls():
            fn = ev['e'].get('fn') or ''
            if re.match(r'init_mb_mgr_\w+_t\d_internal$', fn):
                n_ += 1
                a1 = cf.strip_casts(ev['e']['a'][1]) if len(ev['e']['a']) > 1 else {}
                if not (a1.get('k') == 'ref' and a1['n'] == g.params[1]['name']):
                    okf = False
        p2.check(okf and n_ >= 1, 'frontend:' + arch, g.loc, 'init_mb_mgr_%s_internal does not forward reset_mgrs unchanged to the variant init' % arch)
        # public init passes 1
        fs2 = P.find('init_mb_mgr_%s' % arch)
        if fs2:
            _, h = fs2[0]
            vals = [cf.evalc(ev['e']['a'][1]) for _, _, ev in h.calls('init_mb_mgr_%s_internal' % arch) if len(ev['e']['a']) > 1]
            p2.check(vals == [1], 'public:' + arch, h.loc, 'init_mb_mgr_%s calls the internal init with reset_mgrs = %s (must reset)' % (arch, vals))


# ----------------------------------------------------------------------------------------------------------------
# P3 / P4: nothing process-local or image-relative is stored in shared state

SHARED_RECS = re.compile(r'^(IMB_MGR|IMB_JOB|MB_MGR_\w+_OOO|\w+_ARGS\w*|\w*_LANE_DATA\w*)$')


def rule_no_image_address(chk, P):
    p3 = chk.rule('P3', 'no address of a function / global / string literal and no process-local handle is stored into IMB_MGR '
                        '(non-handler fields), an out-of-order manager or an IMB_JOB', floor=1200)
    seen = set()
    handler_fields = set(mgr_fnptr_fields(P))
    HANDLE_FNS = {'malloc', 'calloc', 'realloc', 'memalign', 'fopen', 'open', 'pthread_self', 'getpid', 'mmap', 'dlopen', 'getenv'}
    for tu in P.tus():
        if tu == 'x86_64__self_test.c':
            continue
        for f in P.funcs(tu):
            for _, _, ev in f.events(('assign',)):
                l = cf.strip_casts(ev['lhs'])
                recs = [_recname(n['rec']) for n in cf.walk(l) if n.get('k') == 'mem']
                shared = [r_ for r_ in recs if SHARED_RECS.match(r_)]
                if not shared:
                    continue
                # local object (dot access on a local variable) is not shared state
                br = cf.base_ref(l)
                if br is not None and not br.get('p') and not br.get('g') and not any(n.get('k') == 'mem' and n.get('arrow') for n in cf.walk(l)):
                    continue
                key = '%s:%s' % (f.name, guards.lv(l))
                sk = (f.name, ev['loc'], ev.get('sloc'))
                if sk in seen:
                    continue
                seen.add(sk)
                top = cf.strip_casts(l)
                is_handler = top.get('k') == 'mem' and _recname(top['rec']) == 'IMB_MGR' and top['f'] in handler_fields
                rhs = ev.get('rhs')
                bad = None
                for n in cf.walk(rhs or {}):
                    if n.get('k') == 'ref' and n.get('fn') and not is_handler:
                        bad = 'address of function %s' % n['n']
                    if n.get('k') == 'str':
                        bad = 'string literal'
                    if n.get('k') == 'un' and n['op'] == '&':
                        b2 = cf.base_ref(n['e'])
                        if b2 is not None and b2.get('g'):
                            bad = 'address of global %s' % b2['n']
                    if n.get('k') == 'ref' and n.get('g') and '[' in n.get('ty', '') and 'ptr' not in top.get('ty', '') and '*' in top.get('ty', ''):
                        bad = 'address of global array %s' % n['n']
                    if n.get('k') == 'call' and n.get('fn') in HANDLE_FNS:
                        bad = 'process-local handle from %s()' % n['fn']
                p3.check(bad is None, key, ev.get('sloc') or ev['loc'],
                         '%s stores the %s into shared state %s: invalid after re-attach from another process image' % (f.name, bad, cf.render(l)))
    # positive fixture: the matcher must flag a synthetic store
    fx = {'k': 'assign', 'op': '=', 'lhs': {'k': 'mem', 'f': 'tab', 'arrow': True, 'rec': 'MB_MGR_AES_OOO', 'ty': 'const void *',
                                            'b': {'k': 'ref', 'n': 'state', 'p': True, 'ty': 'MB_MGR_AES_OOO *'}},
          'rhs': {'k': 'ref', 'n': 'some_table', 'g': True, 'ty': 'const uint8_t[256]'}}
    hit = any(n.get('k') == 'ref' and n.get('g') and '[' in n.get('ty', '') for n in cf.walk(fx['rhs']))
    p3.check(hit, 'fixture', 'fixture', 'P3 matcher failed on its positive fixture')


# ----------------------------------------------------------------------------------------------------------------
# B1 binding agreement

def rule_bindings(chk, P, rid, select=None, floor=900):
    r = chk.rule(rid, 'every macro->kernel binding and handler assignment agrees in key size / digest / direction / operation tokens', floor=floor)
    M = build.macros()
    n = 0
    for tu in P.variant_tus():
        vt = tu.split('__')[0]
        decl = {d['name'] for d in P.facts[tu]['decls']}
        for k, v in sorted(M[tu].items()):
            if not re.match(r'^[A-Za-z_]\w*$', v) or v not in decl or k == v:
                continue
            if select and not select(k, v):
                continue
            conf = D.dim_conflicts(k, v)
            n += 1
            r.check(not conf, '%s:%s->%s' % (vt, k, v), tu,
                    '%s binds %s to %s: %s' % (vt, k, v, '; '.join('%s %s vs %s' % c for c in conf)))
        for fld, (sym, loc) in sorted(handler_assignments(P, tu).items()):
            if select and not select(fld, sym):
                continue
            conf = D.dim_conflicts(fld, sym)
            fa, fb = D.family_tokens(fld), D.family_tokens(sym)
            # a handler slot naming an algorithm family must be bound to a symbol of that family
            fam_bad = bool(fa) and bool(fb) and not (fa & fb)
            r.check(not conf and not fam_bad, '%s:state->%s=%s' % (vt, fld, sym), loc,
                    '%s: handler %s bound to %s (%s)' % (vt, fld, sym, '; '.join('%s %s vs %s' % c for c in conf) or 'family %s vs %s' % (sorted(fa), sorted(fb))))
    return r


ARCH_TOK = re.compile(r'_(sse|avx512|avx2|avx|vaes|vclmul|gfni|ni|shani|no_aesni|x4|x8|x16|x32|by\d+|t[1-4]|ifma|fma|vpclmulqdq|pclmulqdq|'
                      r'ymm|zmm|base|arch|api\d+|gen\d|no_gfni)(?=_|$)')


def arch_stem(sym):
    while True:
        s2 = ARCH_TOK.sub('', sym)
        if s2 == sym:
            return sym
        sym = s2


def rule_slot_siblings(chk, P, rid, floor=1000):
    """the nine variant inits fill the same IMB_MGR slots; what a slot is bound to differs between them only in instruction-set tokens"""
    r = chk.rule(rid, 'one IMB_MGR handler slot is bound, in every variant that binds it, to the same routine up to instruction-set tokens '
                      '(or to a routine carrying the slot\'s own name): the variants are siblings of one interface', floor=floor)
    slots = {}
    for tu in P.variant_tus():
        vt = tu.split('__')[0]
        for fld, (sym, loc) in handler_assignments(P, tu).items():
            slots.setdefault(fld, {})[vt] = (arch_stem(sym), sym, loc)
    for fld, d in sorted(slots.items()):
        cnt = {}
        for st, _, _ in d.values():
            cnt[st] = cnt.get(st, 0) + 1
        top = max(cnt.values())
        maj = sorted(k for k, v in cnt.items() if v == top)
        for vt, (st, sym, loc) in sorted(d.items()):
            ok = len(d) < 3 or len(maj) > 1 or 2 * top <= len(d) or st == maj[0] or fld in sym
            r.check(ok, '%s:state->%s' % (vt, fld), loc,
                    '%s binds handler slot %s to %s; %d of the %d variants bind it to %s_<arch>' % (vt, fld, sym, top, len(d), maj[0]))
    return r
