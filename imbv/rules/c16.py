"""C16 — re-attaching to a manager after a crash loses no in-flight job (structural conditions that make the manager
block self-contained and relocatable with respect to the library image).
P1 pointer re-derivation exhaustive  P2 handler re-binding exhaustive and side-effect free  P3/P4 no image address or
process-local handle persists in shared state (C side; asm side through the object-level engine)"""
from .. import cf
from . import inits


def run(chk):
    P = cf.Program()
    chk.explanation = ('Structural conditions for re-attachment: every *_ooo pointer of IMB_MGR is re-derived from the allocation table on '
                       'both paths of imb_set_pointers_mb_mgr; the re-attach path dispatches on the recorded architecture to '
                       'init_mb_mgr_<arch>_internal(ptr, 0); with reset_mgrs == 0 every variant init binds every handler slot yet '
                       'touches neither the out-of-order managers nor the ring; no address of a function, global or string literal and '
                       'no process-local handle is stored into the manager, an out-of-order manager or a job by C code, and assembly '
                       'stores no rip-relative image address to non-stack memory. Not decided: that jobs complete with correct results '
                       'after re-attach (dynamic).')
    inits.rule_reattach(chk, P)
    # the allocation table rows (size, road-block offset) describe the manager types the variants reset and the kernels take: on
    # re-attach the road blocks are stamped again at the table's offsets, into live manager state if a row names the wrong type
    inits.rule_reset(chk, P, 'P4.')
    # P5: the architecture a variant records for re-attachment is its own
    p5 = chk.rule('P5', 'each variant init records its own architecture in used_arch (imb_set_pointers_mb_mgr dispatches on it when re-attaching)', floor=9)
    for tu in P.variant_tus():
        m = inits.VARIANT_RE.match(tu)
        if not m:
            continue
        arch = m.group(1)
        f = inits.init_func(P, tu)
        want = P.enum('IMB_ARCH_' + arch.upper())
        n = 0
        for b, i, ev in f.events(('assign',)):
            l = cf.strip_casts(ev['lhs'])
            if l.get('k') == 'mem' and l['f'] == 'used_arch':
                n += 1
                p5.check(cf.evalc(ev.get('rhs') or {}) == want, '%s:used_arch' % tu.split('__')[0], ev['loc'],
                         '%s records used_arch = %s, not IMB_ARCH_%s: a re-attached manager gets the handlers of another architecture' % (
                             f.name, cf.render(ev.get('rhs')) if ev.get('rhs') else '?', arch.upper()))
        if not n:
            p5.bad('%s:used_arch' % tu.split('__')[0], f.loc, '%s never records used_arch' % f.name)
        # ... and its own type number (imb_set_pointers_mb_mgr picks the type-N init from it)
        tn = int(m.group(2))
        for b, i, ev in f.events(('assign',)):
            l = cf.strip_casts(ev['lhs'])
            if l.get('k') == 'mem' and l['f'] == 'used_arch_type':
                p5.check(cf.evalc(ev.get('rhs') or {}) == tn, '%s:used_arch_type' % tu.split('__')[0], ev['loc'],
                         '%s records used_arch_type = %s in the type-%d variant: a re-attached manager is bound to the handlers of another type' % (
                             f.name, cf.render(ev.get('rhs')) if ev.get('rhs') else '?', tn))
    inits.rule_handlers(chk, P, 'P2a', 'P2b', 'P2c')
    inits.rule_no_image_address(chk, P)
    rule_asm_image_stores(chk)


def rule_asm_image_stores(chk):
    from .. import asmfacts
    r = chk.rule('P3asm', 'assembly never stores the address of an image symbol (rip-relative lea) to non-stack memory', floor=800)
    for rel, name, res in asmfacts.all_functions():
        bad = [s for s in res['stores'] if s.get('src') is not None and s['src'][0] == 'G']
        r.check(not bad, name, res['lines'].get(bad[0]['a'], rel) if bad else rel,
                '%s stores the address of %s into memory that outlives the call' % (name, bad[0]['src'][1] if bad else ''))
