"""H8 — byte coverage of the 3GPP IV generators (lib/x86_64/{zuc,snow3g,kasumi}_iv.c).

Every generator defines every byte of the IV it hands back (TS 35.201 / 35.215 / 35.221 fix all of them: COUNT, BEARER || DIRECTION
padded with zeros, the second half a copy of the first): the byte ranges written through the output pointer (typed element stores with a
constant index, memset / memcpy with a constant length) cover [0, N) without a gap, N from the specification; and a part of the IV that
is defined as a copy of another part is copied from that part.  Decided on the shape of the stores, no value is computed."""
import re

from .. import cf

# function: (IV size in bytes, {destination byte offset: (source byte offset, length)} of the parts defined as copies)
SPEC = {
    'zuc_eea3_iv_gen': (16, {8: (0, 8)}),
    'zuc_eia3_iv_gen': (16, {8: (0, 8)}),
    'snow3g_f8_iv_gen': (16, {4: (12, 4), 0: (8, 4)}),
    'snow3g_f9_iv_gen': (16, {}),
    'kasumi_f8_iv_gen': (8, {}),
    'kasumi_f9_iv_gen': (8, {}),
}


def _elem_size(ty):
    m = re.search(r'uint(8|16|32|64)_t', ty or '')
    if m:
        return int(m.group(1)) // 8
    if re.search(r'\bchar\b', ty or ''):
        return 1
    return None


def _aliases(f):
    """{local or parameter name: element size} of the pointers that are the output pointer (the last, pointer-to-non-const parameter) itself"""
    out = None
    for p in (f.raw.get('params') or []):
        if '*' in p.get('type', '') and not p['type'].startswith('const'):
            out = p
    if out is None:
        return {}
    al = {out['name']: _elem_size(out['type'])}
    for _, _, ev in f.events(('decl',)):
        for d in ev['d']:
            i = cf.strip_casts(d.get('init')) if d.get('init') is not None else None
            if isinstance(i, dict) and i.get('k') == 'ref' and i['n'] in al and '*' in (d.get('ty') or d.get('type') or ''):
                al[d['n']] = _elem_size(d.get('ty') or d.get('type'))
    return al


def _place(e, al):
    """byte offset (and element size) of an lvalue / address expression inside the IV, or None"""
    e = cf.strip_casts(e)
    if not isinstance(e, dict):
        return None
    if e.get('k') == 'un' and e.get('op') == '&':
        return _place(e['e'], al)
    if e.get('k') == 'idx':
        b = cf.strip_casts(e['b'])
        i = cf.evalc(e['i'])
        if isinstance(b, dict) and b.get('k') == 'ref' and b['n'] in al and i is not None and al[b['n']]:
            return i * al[b['n']], al[b['n']]
        return None
    if e.get('k') == 'un' and e.get('op') == '*':
        return _place(e['e'], al)
    if e.get('k') == 'ref' and e['n'] in al:
        return 0, al[e['n']] or 1
    if e.get('k') == 'bin' and e['op'] == '+':
        b = cf.strip_casts(e['l'])
        i = cf.evalc(e['r'])
        if isinstance(b, dict) and b.get('k') == 'ref' and b['n'] in al and i is not None and al[b['n']]:
            return i * al[b['n']], al[b['n']]
    return None


def facts(f):
    """-> (written byte ranges [(lo, hi, loc)], copies [(dst, src, len, loc)], unknown writes [loc])"""
    al = _aliases(f)
    wr, cp, unk = [], [], []
    # an alias that moves (p++, p += n, p = ...) no longer names a fixed place: the generator is left undecided
    for _, _, ev in f.events():
        for key in ('e', 'lhs', 'rhs', 'val'):
            for n in cf.walk(ev.get(key) or {}):
                if n.get('k') == 'un' and n.get('op') in ('++', '--'):
                    x = cf.strip_casts(n['e'])
                    if isinstance(x, dict) and x.get('k') == 'ref' and x['n'] in al:
                        unk.append(ev['loc'])
        if ev['k'] == 'assign':
            l = cf.strip_casts(ev['lhs'])
            if isinstance(l, dict) and l.get('k') == 'ref' and l['n'] in al:
                unk.append(ev['loc'])
    for _, _, ev in f.events(('assign', 'call')):
        if ev['k'] == 'assign':
            l = cf.strip_casts(ev['lhs'])
            b = cf.base_ref(l)
            if b is None or b['n'] not in al:
                continue
            pl = _place(l, al)
            if pl is None:
                unk.append(ev['loc'])
                continue
            wr.append((pl[0], pl[0] + pl[1], ev['loc']))
            if ev.get('op') in (None, '='):
                src = _place(ev.get('rhs'), al) if cf.strip_casts(ev.get('rhs') or {}).get('k') in ('idx', 'un') else None
                if src is not None:
                    cp.append((pl[0], src[0], pl[1], ev['loc']))
        else:
            fn = ev['e'].get('fn')
            a = ev['e'].get('a', [])
            if fn in ('memset', 'memcpy', 'memmove') and len(a) == 3:
                d = _place(a[0], al)
                n = cf.evalc(a[2])
                if d is None:
                    if any(nd.get('k') == 'ref' and nd['n'] in al for nd in cf.walk(a[0])):
                        unk.append(ev['loc'])
                    continue
                if n is None:
                    unk.append(ev['loc'])
                    continue
                wr.append((d[0], d[0] + n, ev['loc']))
                if fn != 'memset':
                    s = _place(a[1], al)
                    if s is not None:
                        cp.append((d[0], s[0], n, ev['loc']))
    return wr, cp, unk


def run(chk, P, rid='H8'):
    r = chk.rule(rid, 'each 3GPP IV generator writes every byte of the IV (the constant-index stores, memset and memcpy through the output pointer '
                      'cover [0, N) of the specification without a gap) and copies the repeated half from the half the specification names', floor=6)
    for fn, (size, copies) in sorted(SPEC.items()):
        fs = [f for _, f in P.find(fn)]
        if not fs:
            chk.broken('%s not found' % fn)
            continue
        f = fs[0]
        wr, cp, unk = facts(f)
        if unk or not wr:
            # a store whose place in the IV is not a constant: this rule does not decide the generator (it is not a violation)
            r.ok(fn + ':undecided', 'stores with non-constant placement at %s' % ', '.join(unk[:3]))
            continue
        covered = [False] * size
        beyond = None
        for lo, hi, loc in wr:
            for i in range(max(lo, 0), hi):
                if i < size:
                    covered[i] = True
                else:
                    beyond = loc
        gaps = [i for i, c in enumerate(covered) if not c]
        r.check(not gaps, fn + ':cover', f.loc,
                '%s leaves IV byte(s) %s undefined (written ranges: %s); the specification defines all %d bytes, so the result depends on what '
                'the caller\'s buffer held' % (fn, gaps, sorted((lo, hi) for lo, hi, _ in wr), size))
        r.check(beyond is None, fn + ':size', beyond or f.loc, '%s writes beyond the %d-byte IV of the specification' % (fn, size))
        for dst, src, n, loc in cp:
            want = None
            for d0, (s0, ln) in copies.items():
                if d0 <= dst and dst + n <= d0 + ln:
                    want = s0 + (dst - d0)
            r.check(want is None or want == src, '%s:copy@%d' % (fn, dst), loc,
                    '%s defines IV bytes %d..%d as a copy of bytes %d..%d; the specification repeats bytes %s there' % (
                        fn, dst, dst + n - 1, src, src + n - 1, '%d..%d' % (want, want + n - 1) if want is not None else '?'))
    return r
