"""C02 — digest/MAC output equals the published algorithm (NOT decided).  Decided: binding / dispatch agreement for hash kernels."""
from .. import cf
from . import inits, c06
from .c01 import AEAD_ALGS, HASH_TOK, AEAD_TOK


def run(chk):
    P = cf.Program()
    import re as _re
    from . import clones
    chk.explanation = ('NOT decided: equality of tags with the published hash/MAC specifications. Decided: in every variant every hash '
                       'table cell dispatches algorithm i to kernels of that algorithm and digest size (HMAC vs plain kept apart), parks '
                       'and flushes jobs in the same out-of-order manager, and every hash/MAC/CRC macro->kernel binding agrees in '
                       'digest / key size / operation.')
    inits.rule_bindings(chk, P, 'B1', select=lambda k, v: bool(HASH_TOK.search(k)) and not AEAD_TOK.search(k), floor=300)
    c06.run(chk, alg_filter=lambda a: a not in AEAD_ALGS and a not in ('IMB_AUTH_NULL', 'IMB_AUTH_CUSTOM'), only_cells=True,
            ids=('B2c', 'B2', 'B2o'))
    clones.rule_clones(chk, 'N1', select=lambda s: bool(_re.search(r'cmac|xcbc|ghash|gmac|ccm_auth', s)), floor=3)
    clones.rule_defuse(chk, 'D1', 'D2', ('hash',), floor=50)
    clones.rule_tables(chk, 'N5', ('hash',), floor=20)
    clones.rule_unreachable(chk, 'U1', ('hash',), floor=20)
    clones.rule_insert_ladders(chk, 'N6', ('hash',), floor=100)
    clones.rule_progressions(chk, 'N10')
    clones.rule_dup_stores(chk, 'W6', ('hash',), floor=1)
    clones.rule_byte_order(chk, 'N7', ('hash',), floor=20)
    from . import twins as _tw
    _tw.rule_copy_siblings(chk, cf.PROGRAM[0] or cf.Program(), 'X5', floor=100)
    _tw.rule_field_copies(chk, cf.PROGRAM[0] or cf.Program(), 'X4', floor=40)
    _tw.rule_lane_suffix(chk, cf.PROGRAM[0] or cf.Program(), 'X7', floor=60)
    from . import twins
    twins.rule_common_flag(chk, P, 'Z1', floor=6)
    twins.rule_wrapper_constants(chk, P, 'X3', floor=150)
    twins.rule_token_agreement(chk, P, 'K1', floor=150)
    from . import padding
    padding.rule_sha_padding(chk, P)
    padding.rule_digest_words(chk, P, 'P5')
    padding.rule_asm_pad_threshold(chk, 'P6')
