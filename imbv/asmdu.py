"""Definition / use facts over the exact CFG of an assembled function (no execution):

  dead definitions  — an instruction whose only effect is to define registers none of which is read on any path before
                      being redefined or the function ends (a value computed and dropped: a consumer line went missing)
  reads before any definition — a register read on some path from the entry on which nothing has defined it (a producer
                      line went missing); computed with no argument register assumed defined, the rule layer subtracts the
                      parameters of the C prototype

Per-instruction def/use sets are derived from the operand shapes; where a mnemonic is not known the destination is treated
as read as well (fewer reports, never more)."""
import re
from . import asmint
from .asmint import SUB, WID, JCC, split_ops, parse_mem, vnum

GPRS = asmint.GPR64
CALLEE = set(asmint.CALLEE) | {'rsp'}
ALLREGS = set(GPRS) | {'v%d' % i for i in range(32)} | {'k%d' % i for i in range(8)}
KREG = re.compile(r'^k([0-7])$')
MASK = re.compile(r'\{(k[0-7])\}')

PURE_MOV = {'mov', 'movzx', 'movsx', 'movsxd', 'movabs', 'lea', 'movd', 'movq', 'movdqa', 'movdqu', 'movaps', 'movups', 'movapd',
            'movupd', 'lddqu', 'movbe', 'pshufd', 'pshuflw', 'pshufhw', 'pabsb', 'pabsw', 'pabsd', 'pmovzxbw', 'pmovzxbd',
            'pmovzxbq', 'pmovzxwd', 'pmovzxwq', 'pmovzxdq', 'pmovsxbw', 'pmovsxbd', 'pmovsxbq', 'pmovsxwd', 'pmovsxwq', 'pmovsxdq',
            'aeskeygenassist', 'aesimc', 'movddup', 'movshdup', 'movsldup', 'pextrb', 'pextrw', 'pextrd', 'pextrq', 'pmovmskb',
            'movmskps', 'movmskpd', 'lzcnt', 'tzcnt', 'popcnt', 'bsf', 'bsr', 'phminposuw', 'cvtsi2sd', 'rorx', 'sarx', 'shlx',
            'shrx', 'andn', 'bextr', 'pext', 'pdep', 'bzhi', 'blsr', 'blsi', 'blsmsk', 'pcmpistri', 'pcmpestri', 'roundps', 'sha1rnds4x'}
FLAG_ONLY = {'cmp', 'test', 'bt', 'ptest', 'vptest', 'comiss', 'comisd', 'ucomiss', 'ucomisd', 'vcomiss', 'vcomisd', 'vucomiss',
             'vucomisd', 'ktestb', 'ktestw', 'ktestd', 'ktestq', 'kortestb', 'kortestw', 'kortestd', 'kortestq'}
USES_FLAGS = {'adc', 'sbb', 'rcl', 'rcr', 'adcx', 'adox', 'lahf', 'pushf', 'pushfq'}
NOEFFECT = {'nop', 'endbr64', 'prefetchw', 'prefetcht0', 'prefetcht1', 'prefetcht2', 'prefetchnta', 'sfence', 'lfence', 'mfence', 'pause',
            'cld', 'std', 'clflush', 'clflushopt'}
RMW3 = re.compile(r'^(vpternlog[dq]|vfn?m(add|sub)\w+|vpdp\w+|vpmadd52\w+|vpshldv\w+|vpshrdv\w+|vpermt2\w+|vpermi2\w+|vpinsr[bwdq]|'
                  r'vinserti\w+|vinsertf\w+|vpblendm\w+|vgf2p8affine\w*|vaesenc|vaesenclast|vaesdec|vaesdeclast|vsha\w+|sha\w+)$')
ZERO_IDIOM = {'xor', 'sub', 'pxor', 'xorps', 'xorpd', 'vpxor', 'vpxord', 'vpxorq', 'vxorps', 'vxorpd', 'psubb', 'psubw', 'psubd', 'psubq',
              'vpsubb', 'vpsubw', 'vpsubd', 'vpsubq', 'pandn', 'vpandn', 'vpandnd', 'vpandnq', 'kxorw', 'kxorq', 'kxord', 'kxorb'}
ONES_IDIOM = {'pcmpeqb', 'pcmpeqw', 'pcmpeqd', 'pcmpeqq', 'vpcmpeqb', 'vpcmpeqw', 'vpcmpeqd', 'vpcmpeqq', 'kxnorw', 'kxnorq', 'kxnord', 'kxnorb'}
IMPLICIT = {
    'mul': (('rax', 'rdx'), ('rax',)), 'imul1': (('rax', 'rdx'), ('rax',)), 'div': (('rax', 'rdx'), ('rax', 'rdx')),
    'idiv': (('rax', 'rdx'), ('rax', 'rdx')), 'cpuid': (('rax', 'rbx', 'rcx', 'rdx'), ('rax', 'rcx')),
    'xgetbv': (('rax', 'rdx'), ('rcx',)), 'rdtsc': (('rax', 'rdx'), ()), 'rdtscp': (('rax', 'rdx', 'rcx'), ()),
    'cdq': (('rdx',), ('rax',)), 'cqo': (('rdx',), ('rax',)), 'cwd': (('rdx',), ('rax',)), 'cdqe': (('rax',), ('rax',)),
    'cwde': (('rax',), ('rax',)), 'cbw': (('rax',), ('rax',)), 'lahf': (('rax',), ('rax',)), 'leave': (('rsp', 'rbp'), ('rbp',)),
}


def rkey(o):
    """register key of a plain register operand (None for memory / immediate)"""
    o = o.split('{')[0].strip()
    if o in SUB:
        return SUB[o]
    v = vnum(o)
    if v is not None:
        return 'v%d' % v
    m = KREG.match(o)
    if m:
        return 'k' + m.group(1)
    return None


def addr_regs(o):
    m = parse_mem(o)
    out = set()
    if m:
        for r in (m['base'], m['index']):
            if r and r not in ('rip', 'eip'):
                k = rkey(r)
                if k:
                    out.add(k)
    return out


def defuse(ins):
    """-> (defs, uses, side_effect, idiom) for one instruction"""
    mn = ins['mn']
    ops = split_ops(ins['ops'])
    defs, uses = set(), set()
    side = False
    idiom = False
    if mn in NOEFFECT or mn.startswith('prefetch'):
        return defs, uses, False, False
    if mn in JCC:
        return defs, {'fl'} | ({'rcx'} if JCC[mn] == 'cxz' else set()), True, False
    if mn in ('jmp', 'call', 'ret', 'rep_ret', 'retq'):
        return defs, uses, True, False       # handled by the caller (liveness at exits / calls)
    if mn in ('vzeroall', 'vzeroupper'):
        return ({'v%d' % i for i in range(16)} if mn == 'vzeroall' else set()), set(), False, True
    masks = set(MASK.findall(ins['ops']))
    for o in ops:
        uses |= addr_regs(o)
    uses |= masks
    if mn == 'push':
        k = rkey(ops[0]) if ops else None
        return {'rsp'}, uses | ({k} if k else set()) | {'rsp'}, True, False
    if mn == 'pop':
        k = rkey(ops[0]) if ops else None
        return ({k} if k else set()) | {'rsp'}, uses | {'rsp'}, False, False
    if mn in ('pushf', 'pushfq'):
        return {'rsp'}, {'rsp', 'fl'}, True, False
    if mn in ('popf', 'popfq'):
        return {'rsp', 'fl'}, {'rsp'}, False, False
    if mn.startswith('rep_') or mn in ('stosb', 'stosw', 'stosd', 'stosq', 'movsb', 'movsw', 'movsq', 'lodsb', 'lodsq', 'scasb', 'cmpsb'):
        return {'rcx', 'rsi', 'rdi', 'fl'}, {'rcx', 'rsi', 'rdi', 'rax'}, True, False
    if mn in IMPLICIT or (mn == 'imul' and len(ops) == 1):
        d, u = IMPLICIT['imul1' if mn == 'imul' else mn]
        for o in ops:
            k = rkey(o)
            if k:
                uses.add(k)
        return set(d) | {'fl'}, uses | set(u), False, False
    if mn == 'mulx' and len(ops) == 3:
        return {rkey(ops[0]), rkey(ops[1])} - {None}, uses | {'rdx'} | ({rkey(ops[2])} - {None}), False, False
    if mn == 'xchg' and len(ops) == 2 and ops[0].strip() == ops[1].strip():
        return set(), set(), False, False       # `66 90` (xchg ax,ax): alignment padding
    if mn in ('xchg', 'xadd', 'cmpxchg', 'cmpxchg8b', 'cmpxchg16b'):
        ks = {rkey(o) for o in ops} - {None}
        return ks | {'fl'} | ({'rax'} if mn.startswith('cmpxchg') else set()), uses | ks | ({'rax'} if mn.startswith('cmpxchg') else set()), \
            any(parse_mem(o) for o in ops), False
    if mn in FLAG_ONLY:
        for o in ops:
            k = rkey(o)
            if k:
                uses.add(k)
        return {'fl'}, uses, False, False
    if not ops:
        return defs, uses, True, False
    d = ops[0]
    dk = rkey(d)
    srcs = [rkey(o) for o in ops[1:]]
    src_regs = {k for k in srcs if k}
    if dk is None:
        # destination is memory (or unknown): a store; every register operand is read
        return set(), uses | src_regs, True, False
    vex = mn.startswith('v') or mn.startswith('k')
    gpr_dst = dk in GPRS
    # zero / all-ones idioms
    if (mn in ZERO_IDIOM or mn in ONES_IDIOM) and len(ops) >= 2 and all(k == srcs[0] and k is not None for k in srcs) and \
            (len(ops) == 3 or srcs[0] == dk) and not masks:
        return {dk} | ({'fl'} if gpr_dst else set()), set(), False, True
    if mn in ('vpternlogd', 'vpternlogq') and len(ops) == 4 and ops[3].strip().lower() in ('0xff', '255') and srcs[0] == dk == srcs[1]:
        return {dk}, set(), False, True
    uses |= src_regs
    if mn.startswith('cmov'):
        return {dk}, uses | {dk, 'fl'}, False, False
    if mn.startswith('set'):
        return {dk}, uses | {dk, 'fl'}, False, False
    if mn in USES_FLAGS:
        uses.add('fl')
    if gpr_dst:
        partial = d.split('{')[0].strip() in WID and WID[d.split('{')[0].strip()] < 4
        if mn in PURE_MOV or (mn == 'imul' and len(ops) == 3) or mn.startswith(('vpextr', 'vmovd', 'vmovq', 'kmov', 'vpmovmsk', 'vmovmsk',
                                                                                  'vpcmpestri', 'vpcmpistri', 'vcvt', 'vextractps')):
            if partial:
                uses.add(dk)
            fl = {'fl'} if mn in ('lzcnt', 'tzcnt', 'popcnt', 'bsf', 'bsr', 'andn', 'bextr', 'bzhi', 'blsr', 'blsi', 'blsmsk', 'imul') else set()
            return {dk} | fl, uses, False, False
        # ALU read-modify-write
        if mn in ('shl', 'shr', 'sar', 'rol', 'ror', 'rcl', 'rcr', 'shld', 'shrd') and any(o.strip() == 'cl' for o in ops[1:]):
            uses.add('rcx')
        return {dk, 'fl'}, uses | {dk}, False, False
    # vector / mask destination
    if vex:
        merge = bool(masks) and '{z}' not in d
        if RMW3.match(mn) and not mn.startswith(('vinsert', 'vpinsr')):
            uses.add(dk) if len(ops) <= 3 or mn.startswith(('vpternlog', 'vfm', 'vfnm', 'vpdp', 'vpmadd52', 'vpshldv', 'vpshrdv', 'vpermt2', 'vpermi2')) else None
        if merge:
            uses.add(dk)
        if mn.startswith('k') and len(ops) == 2 and mn.startswith(('kshift',)):
            pass
        return {dk}, uses, False, False
    # legacy SSE two-operand form: destination is also a source unless it is a pure move
    if mn in PURE_MOV:
        return {dk}, uses, False, False
    return {dk}, uses | {dk}, False, False


def successors(a, insns):
    i = insns[a]
    mn = i['mn']
    if mn in ('ret', 'rep_ret', 'retq'):
        return []
    if mn == 'jmp':
        if 'reloc' in i:
            return []
        try:
            return [int(i['ops'].split()[0], 16)]
        except (ValueError, IndexError):
            return []
    out = []
    if mn in JCC:
        try:
            out.append(int(i['ops'].split()[0], 16))
        except (ValueError, IndexError):
            pass
    if i['next'] is not None:
        out.append(i['next'])
    return [x for x in out if x in insns]


ABI_LIVE_OUT = {'rax', 'rdx', 'rbx', 'rbp', 'r12', 'r13', 'r14', 'r15', 'rsp', 'v0'}


def analyse(entry, insns):
    """-> dict(dead_abi, dead_all: [(addr, text)], uninit: [(addr, reg)])"""
    nodes = asmint.reachable_insns(entry, insns)
    du = {a: defuse(insns[a]) for a in nodes}
    succ = {a: successors(a, insns) for a in nodes}
    pred = {a: [] for a in nodes}
    for a, ss in succ.items():
        for s in ss:
            if s in pred:
                pred[s].append(a)
    res = {}
    for tag, live_ret in (('dead_abi', ABI_LIVE_OUT), ('dead_all', ALLREGS | {'fl'})):
        live_in = {a: set() for a in nodes}
        work = list(nodes)
        inw = set(work)
        while work:
            a = work.pop()
            inw.discard(a)
            i = insns[a]
            mn = i['mn']
            if mn in ('ret', 'rep_ret', 'retq'):
                out = set(live_ret)
            elif mn == 'jmp' and 'reloc' in i:
                out = set(ALLREGS)
            else:
                out = set()
                for s in succ[a]:
                    out |= live_in[s]
            if mn == 'call':
                new = set(ALLREGS)          # the callee may read anything (custom conventions between asm routines)
            else:
                d, u, _, _ = du[a]
                new = (out - d) | u
            if new != live_in[a]:
                live_in[a] = new
                for p in pred[a]:
                    if p not in inw:
                        inw.add(p)
                        work.append(p)
        dead = []
        for a in sorted(nodes):
            i = insns[a]
            mn = i['mn']
            if mn in ('call', 'jmp', 'ret', 'rep_ret', 'retq') or mn in JCC:
                continue
            d, u, side, idiom = du[a]
            d2 = d - {'fl', 'rsp'}
            if not d2 or side or idiom or mn == 'pop':
                continue
            if mn in ('ret',):
                continue
            if mn == 'call':
                continue
            out = set()
            if mn == 'jmp' and 'reloc' in i:
                continue
            for s in succ[a]:
                out |= live_in[s]
            if not succ[a]:
                continue
            # flags produced here and consumed later keep the instruction alive
            if (d & out):
                continue
            dead.append((a, i['txt']))
        res[tag] = dead
    # reads before any definition: forward must-defined analysis, nothing but callee-saved registers defined at entry
    top = set(ALLREGS) | {'fl'}
    din = {a: None for a in nodes}
    din[entry] = set(CALLEE)
    work = [entry]
    while work:
        a = work.pop()
        cur = din[a]
        i = insns[a]
        if i['mn'] == 'call':
            out = set(top)
        else:
            d, u, _, _ = du[a]
            out = cur | d
        for s in succ[a]:
            if din[s] is None:
                din[s] = set(out)
                work.append(s)
            else:
                n = din[s] & out
                if n != din[s]:
                    din[s] = n
                    work.append(s)
    uninit = []
    seen = set()
    for a in sorted(nodes):
        if din[a] is None:
            continue
        i = insns[a]
        if i['mn'] in ('call', 'ret', 'rep_ret', 'retq', 'jmp'):
            continue
        d, u, _, idiom = du[a]
        for r in sorted(u - din[a] - {'fl'}):
            if (r,) not in seen:
                seen.add((r,))
                uninit.append((a, r, i['txt']))
    res['uninit'] = uninit
    return res
