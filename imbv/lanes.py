"""Lane association in the assembled multi-buffer routines (no execution): which lane's data a vector register holds when it is stored
through a per-lane pointer, and which lane's pointer a general register holds when it is written back into a per-lane pointer array.

Abstract values
  general register  'A0' (the first C argument: the manager / argument record), ('LP', field, k) a pointer loaded from element k of the
                    pointer array `field` of that record (kept through constant and register offsets), or unknown
  vector register   sixteen 32-bit slots, each a set of lane indices whose data may be in the slot (empty = lane-neutral: constants, zero,
                    data read straight from a per-lane table of the record), or unknown as a whole

Transfer: a load through ('LP', f, k) fills all slots with {k}; the data-movement instructions of the transposition networks
(vpunpck[lh]dq / vpunpck[lh]qdq, vshuf[if]64x2 / 32x4, vshufps/pd, vpshufd, vperm2[if]128, vpermq/pd imm, vinsert/vextract 128/256,
valign[dq], vpbroadcast, moves) are modelled exactly on slots; every other vector instruction is taken element-wise (slot j of the
result depends on slots j of its sources — the byte permutes inside the round functions are assumed to stay within an element); a
call keeps the vector state (callees of these routines work element-wise on the registers they are named for); at control-flow joins
differing values become unknown.  Rules (C04): a vector stored through ('LP', f, m) holds data of lane m only; a pointer
('LP', f, k) stored back into element m of the same array has k == m.  Unknown values are never reported."""
import re

from . import asmint, build
from .asmint import split_ops, parse_mem, vnum, SUB

NEUTRAL = frozenset()
NSLOT = 16
SUMMARIES = {}


def vec(all_lanes):
    return tuple(all_lanes for _ in range(NSLOT))


def vjoin(a, b):
    if a is None or b is None:
        return None
    return a if a == b else None


def slots_of(op):
    """number of 32-bit slots of a vector operand by register class"""
    o = op.split('{')[0].strip()
    if o.startswith('zmm'):
        return 16
    if o.startswith('ymm'):
        return 8
    return 4


def elementwise(vals):
    out = []
    for j in range(NSLOT):
        s = set()
        for v in vals:
            if v is None:
                return None
            s |= v[j]
        out.append(frozenset(s))
    return tuple(out)


def _imm(op):
    try:
        return int(op, 0)
    except (TypeError, ValueError):
        return None


def shuffle(mn, dst_n, srcs, imm):
    """exact slot movement of the modelled instructions; srcs are slot tuples (already resolved), returns slot tuple or 'EW' for element-wise"""
    a = srcs[0] if srcs else None
    b = srcs[1] if len(srcs) > 1 else None
    if any(s is None for s in srcs):
        return None
    if b is None and a is not None:
        b = a
    out = [NEUTRAL] * NSLOT
    base = mn[1:] if mn.startswith('v') else mn
    if base in ('punpckldq', 'punpckhdq', 'unpcklps', 'unpckhps'):
        hi = base in ('punpckhdq', 'unpckhps')
        for g in range(0, dst_n, 4):
            o = g + (2 if hi else 0)
            out[g + 0], out[g + 1], out[g + 2], out[g + 3] = a[o], b[o], a[o + 1], b[o + 1]
        return tuple(out)
    if base in ('punpcklqdq', 'punpckhqdq', 'unpcklpd', 'unpckhpd'):
        hi = base in ('punpckhqdq', 'unpckhpd')
        for g in range(0, dst_n, 4):
            o = g + (2 if hi else 0)
            out[g + 0], out[g + 1], out[g + 2], out[g + 3] = a[o], a[o + 1], b[o], b[o + 1]
        return tuple(out)
    if base in ('shufi64x2', 'shuff64x2', 'shufi32x4', 'shuff32x4') and imm is not None:
        ngr = dst_n // 4
        bits = 2 if ngr == 4 else 1
        for g in range(ngr):
            sel = (imm >> (g * bits)) & ((1 << bits) - 1)
            src = a if g < ngr // 2 else b
            for t in range(4):
                out[g * 4 + t] = src[sel * 4 + t]
        return tuple(out)
    if base in ('shufps',) and imm is not None:
        for g in range(0, dst_n, 4):
            out[g + 0] = a[g + (imm & 3)]
            out[g + 1] = a[g + ((imm >> 2) & 3)]
            out[g + 2] = b[g + ((imm >> 4) & 3)]
            out[g + 3] = b[g + ((imm >> 6) & 3)]
        return tuple(out)
    if base in ('shufpd',) and imm is not None:
        for q in range(dst_n // 2):
            g = (q // 2) * 4
            src = a if q % 2 == 0 else b
            sel = (imm >> q) & 1
            out[2 * q], out[2 * q + 1] = src[g + 2 * sel], src[g + 2 * sel + 1]
        return tuple(out)
    if base == 'pshufd' and imm is not None:
        for g in range(0, dst_n, 4):
            for t in range(4):
                out[g + t] = a[g + ((imm >> (2 * t)) & 3)]
        return tuple(out)
    if base in ('perm2i128', 'perm2f128') and imm is not None:
        for h in range(2):
            sel = (imm >> (4 * h)) & 0xf
            if sel & 8:
                continue
            src = a if (sel & 2) == 0 else b
            o = 4 * (sel & 1)
            for t in range(4):
                out[4 * h + t] = src[o + t]
        return tuple(out)
    if base in ('permq', 'permpd') and imm is not None:
        for g in range(0, dst_n, 8):
            for q in range(4):
                sel = (imm >> (2 * q)) & 3
                out[g + 2 * q], out[g + 2 * q + 1] = a[g + 2 * sel], a[g + 2 * sel + 1]
        return tuple(out)
    if base in ('alignq', 'alignd') and imm is not None:
        w = 2 if base == 'alignq' else 1
        n = dst_n // w
        cat = list(b[:dst_n]) + list(a[:dst_n])       # low = second source
        for e in range(n):
            for t in range(w):
                out[e * w + t] = cat[((e + imm) % (2 * n)) * w + t] if (e + imm) < 2 * n else NEUTRAL
        return tuple(out)
    m = re.match(r'^extract[if](32x4|64x2|128|64x4|32x8)$', base)
    if m and imm is not None:
        w = 8 if m.group(1) in ('64x4', '32x8') else 4
        for t in range(w):
            out[t] = a[w * imm + t] if w * imm + t < NSLOT else NEUTRAL
        return tuple(out)
    m = re.match(r'^insert[if](32x4|64x2|128|64x4|32x8)$', base)
    if m and imm is not None and b is not None:
        w = 8 if m.group(1) in ('64x4', '32x8') else 4
        out = list(a)
        for t in range(w):
            if w * imm + t < NSLOT:
                out[w * imm + t] = b[t]
        return tuple(out)
    return 'EW'


class Lanes:
    def __init__(self, name, entry, insns, ptr_arrays, nargs_reg='rdi'):
        self.name = name
        self.entry = entry
        self.insns = insns
        self.arr = ptr_arrays          # [(field, offset, count)]
        self.findings = []
        self.checked_stores = 0
        self.checked_ptr_stores = 0
        self.passes_arg0 = set()
        self.labels = {}

    def labels_at(self, a):
        for n in self.labels.get(a, []) if a is not None else []:
            return n
        return None

    def field_of(self, disp):
        for fld, off, cnt in self.arr:
            if off <= disp < off + 8 * cnt and (disp - off) % 8 == 0:
                return fld, (disp - off) // 8
        return None

    def run(self):
        insns = self.insns
        IN = {self.entry: ({'rdi': 'A0'}, {})}
        work = [self.entry]
        visits = {}
        while work:
            a = work.pop()
            if a not in insns:
                continue
            visits[a] = visits.get(a, 0) + 1
            if visits[a] > 40:
                continue
            g, v = IN[a]
            g, v = dict(g), dict(v)
            ins = insns[a]
            succs = self.step(ins, g, v)
            for s in succs:
                if s is None or s not in insns:
                    continue
                if s not in IN:
                    IN[s] = (g, v)
                    work.append(s)
                else:
                    og, ov = IN[s]
                    ng = {r: og[r] for r in og if r in g and g[r] == og[r]}
                    nv = {}
                    for r in set(ov) | set(v):
                        x, y = ov.get(r, None), v.get(r, None)
                        nv[r] = x if (r in ov and r in v and x == y) else None
                    if ng != og or nv != ov:
                        IN[s] = (ng, nv)
                        work.append(s)
        return self

    # -- helpers
    def vget(self, v, op):
        n = vnum(op.split('{')[0].strip())
        if n is None:
            return None
        return v.get(n, None)

    def mem_value(self, g, m):
        """slot value of a vector load from memory operand m (parsed), or None"""
        base = m.get('base')
        if m.get('rip') or base is None:
            return vec(NEUTRAL)                      # constants
        key = SUB.get(base, base)
        t = g.get(key)
        if isinstance(t, tuple) and t[0] == 'LP':
            return vec(frozenset([t[2]]))
        if t == 'A0':
            return vec(NEUTRAL)                      # per-lane tables of the record itself: slot = lane by layout
        if key == 'rsp':
            return None
        return None

    def step(self, ins, g, v):
        mn, ops = ins['mn'], split_ops(ins['ops'])
        nxt = ins['next']
        if mn == 'ret' or mn in ('ud2', 'hlt'):
            return []
        if mn == 'jmp':
            t = _target(ins)
            return [t] if t is not None else []
        if mn in asmint.JCC or mn.startswith('loop') or mn in ('jrcxz', 'jecxz'):
            t = _target(ins)
            return [nxt] + ([t] if t is not None else [])
        if mn == 'lea' and len(ops) == 2 and ops[0].strip() in asmint.GPR64:
            mm = parse_mem(ops[1])
            if mm and mm.get('base') and not mm.get('index') and mm.get('disp') is not None:
                tb = g.get(SUB.get(mm['base'], mm['base']))
                if tb == 'A0' or (isinstance(tb, tuple) and tb[0] == 'AO'):
                    g[ops[0].strip()] = ('AO', (tb[1] if isinstance(tb, tuple) else 0) + mm['disp'])
                    return [nxt]
        if mn == 'call':
            if g.get('rdi') == 'A0':
                tgt = ins.get('reloc') or self.labels_at(_target(ins))
                if tgt:
                    self.passes_arg0.add(tgt)
            tname = ins.get('reloc') or self.labels_at(_target(ins))
            sm = SUMMARIES.get(tname) if tname else None
            if sm is not None:
                for r in sm.get('gprw', []):          # an assembly routine with a known summary: only what it writes
                    g.pop(r, None)
            else:
                for r in ('rax', 'rcx', 'rdx', 'rsi', 'rdi', 'r8', 'r9', 'r10', 'r11'):
                    g.pop(r, None)
            return [nxt]
        if not ops:
            return [nxt]
        dst = ops[0]
        dkey = SUB.get(dst.split('{')[0].strip())
        dv = vnum(dst.split('{')[0].strip())
        # ---- general registers
        if dkey is not None and dv is None:
            if mn == 'mov' and len(ops) == 2:
                src = ops[1]
                skey = SUB.get(src)
                if skey is not None and dst in asmint.GPR64 if hasattr(asmint, 'GPR64') else False:
                    if skey in g and src in asmint.GPR64:
                        g[dkey] = g[skey]
                    else:
                        g.pop(dkey, None)
                    return [nxt]
                m = parse_mem(src)
                if m and 'QWORD' in src and m.get('base') and not m.get('index'):
                    b = SUB.get(m['base'], m['base'])
                    if g.get(b) == 'A0':
                        fo = self.field_of(m.get('disp') or 0)
                        if fo:
                            g[dkey] = ('LP', fo[0], fo[1])
                            return [nxt]
                g.pop(dkey, None)
                return [nxt]
            if mn in ('add', 'sub') and len(ops) == 2 and isinstance(g.get(dkey), tuple):
                return [nxt]                         # pointer arithmetic keeps the lane
            if mn == 'lea' and len(ops) == 2:
                m = parse_mem(ops[1])
                b = SUB.get(m['base'], m['base']) if m and m.get('base') else None
                if b and isinstance(g.get(b), tuple) and dst in asmint.GPR64:
                    g[dkey] = g[b]
                elif b and g.get(b) == 'A0' and not m.get('index') and not (m.get('disp') or 0) and dst in asmint.GPR64:
                    g[dkey] = 'A0'
                else:
                    g.pop(dkey, None)
                return [nxt]
            if mn in ('cmp', 'test', 'bt'):
                return [nxt]
            g.pop(dkey, None)
            return [nxt]
        # ---- stores of general registers into the pointer arrays (write-back)
        if dv is None and dkey is None:
            m = parse_mem(dst)
            if m and mn == 'mov' and len(ops) == 2 and m.get('base') and not m.get('index'):
                b = SUB.get(m['base'], m['base'])
                skey = SUB.get(ops[1])
                if g.get(b) == 'A0' and skey is not None and ops[1] in asmint.GPR64:
                    fo = self.field_of(m.get('disp') or 0)
                    t = g.get(skey)
                    if fo and isinstance(t, tuple) and t[1] == fo[0]:
                        self.checked_ptr_stores += 1
                        if t[2] != fo[1]:
                            self.findings.append((ins['a'], 'ptr', '%s[%d] receives the pointer of lane %d (%s)' % (fo[0], fo[1], t[2], ins['txt'])))
                return [nxt]
            # vector store
            if m and len(ops) >= 2 and vnum(ops[-1].split('{')[0].strip()) is not None and re.match(r'^v?mov(dq[au](8|16|32|64)?|[au]p[sd]|ntdq|ntps)$', mn):
                b = SUB.get(m['base'], m['base']) if m.get('base') else None
                t = g.get(b) if b else None
                val = self.vget(v, ops[-1])
                # a whole vector of per-lane pointers written back: it goes where it was loaded from (same array, same elements)
                pa = v.get(('pa', vnum(ops[-1].split('{')[0].strip())))
                if (t == 'A0' or (isinstance(t, tuple) and t[0] == 'AO')) and not m.get('index') and pa is not None:
                    fo = self.field_of((m.get('disp') or 0) + (t[1] if isinstance(t, tuple) else 0))
                    if fo:
                        self.checked_ptr_stores += 1
                        if fo != pa:
                            self.findings.append((ins['a'], 'ptr', 'a vector of per-lane pointers loaded from %s[%d..] is written to %s[%d..] (%s)' % (
                                pa[0], pa[1], fo[0], fo[1], ins['txt'])))
                if isinstance(t, tuple) and t[0] == 'LP' and val is not None:
                    n = slots_of(ops[-1])
                    lanes = set()
                    for j in range(n):
                        lanes |= val[j]
                    self.checked_stores += 1
                    if lanes - {t[2]}:
                        self.findings.append((ins['a'], 'vec', 'store through %s[%d] of a vector holding data of lane(s) %s (%s)' % (
                            t[1], t[2], sorted(lanes), ins['txt'])))
            return [nxt]
        # ---- vector destinations
        if dv is not None:
            # pointer-array provenance: a load of (or an element-wise 64-bit add to) consecutive elements of a per-lane pointer array of A0
            pa_new = None
            if re.match(r'^v?(mov(dq[au](8|16|32|64)?|[au]p[sd])|paddq)$', mn):
                memops = [o.split('{')[0].strip() for o in ops[1:] if '[' in o]
                regsrc = [vnum(o.split('{')[0].strip()) for o in ops[1:] if vnum(o.split('{')[0].strip()) is not None]
                if len(memops) == 1:
                    mm = parse_mem(memops[0])
                    tb = g.get(SUB.get(mm['base'], mm['base'])) if mm and mm.get('base') and not mm.get('index') else None
                    if tb == 'A0' or (isinstance(tb, tuple) and tb[0] == 'AO'):
                        pa_new = self.field_of((mm.get('disp') or 0) + (tb[1] if isinstance(tb, tuple) else 0))
                elif not memops and 'paddq' in mn and len(regsrc) == 2:
                    cands = [v.get(('pa', r_)) for r_ in regsrc if v.get(('pa', r_)) is not None]
                    if len(cands) == 1:
                        pa_new = cands[0]
                elif not memops and 'mov' in mn and len(regsrc) == 1:
                    pa_new = v.get(('pa', regsrc[0]))
            if pa_new is not None:
                v[('pa', dv)] = pa_new
            else:
                v.pop(('pa', dv), None)
            srcs_ops = ops[1:]
            imm = None
            if srcs_ops and _imm(srcs_ops[-1]) is not None:
                imm = _imm(srcs_ops[-1])
                srcs_ops = srcs_ops[:-1]
            vals = []
            for o in srcs_ops:
                o2 = o.split('{')[0].strip()
                if vnum(o2) is not None:
                    vals.append(v.get(vnum(o2), None))
                elif '[' in o2:
                    m = parse_mem(o2)
                    vals.append(self.mem_value(g, m) if m else None)
                elif SUB.get(o2) is not None:
                    vals.append(vec(NEUTRAL))        # broadcast / insert from a general register: no lane data tracked
                else:
                    vals.append(vec(NEUTRAL))
            # legacy SSE two-operand forms read their destination as first source
            if not mn.startswith('v') and not re.match(r'^(mov|pshufd|pshuflw|pshufhw|pabs|pmovzx|pmovsx|lddqu|cvt|sqrt|rcp|rsqrt|round)', mn):
                vals.insert(0, v.get(dv, None))
            masked = '{k' in dst and '{z}' not in dst
            if masked:
                vals.append(v.get(dv, None))
            base = mn[1:] if mn.startswith('v') else mn
            if re.match(r'^v?mov(dq[au](8|16|32|64)?|[au]p[sd]|d|q|ntdqa)$', mn) and len(vals) >= 1:
                r = vals[0] if not masked else elementwise(vals)
            elif base in ('pxor', 'pxord', 'pxorq', 'xorps', 'xorpd', 'psubd', 'psubq', 'psubb', 'psubw', 'pandn', 'pandnd', 'pandnq') and \
                    len(srcs_ops) == 2 and srcs_ops[0] == srcs_ops[1]:
                r = vec(NEUTRAL)
            elif base.startswith('pbroadcast') or base.startswith('broadcast'):
                r = vec(vals[0][0]) if vals and vals[0] is not None else None
            else:
                sh = shuffle(mn, slots_of(dst), vals[:2] if not masked else vals[:2], imm) if vals else 'EW'
                if sh == 'EW':
                    r = elementwise(vals) if vals else vec(NEUTRAL)
                else:
                    r = sh if not masked else (elementwise([sh, v.get(dv, None)]) if sh is not None else None)
            # writes to xmm/ymm zero the upper part (VEX/EVEX): slots beyond the operand width are neutral
            if r is not None:
                n = slots_of(dst)
                r = tuple(r[j] if j < n else NEUTRAL for j in range(NSLOT))
            v[dv] = r
            return [nxt]
        return [nxt]


def _target(ins):
    m = re.match(r'^([0-9a-f]+)\b', ins['ops'].strip())
    if m and 'reloc' not in ins:
        return int(m.group(1), 16)
    return None


def pointer_arrays(P, tname):
    from . import cf
    try:
        ff = cf.flat_fields(P.record(tname))
    except Exception:
        return []
    out = []
    for nm, off, sz, f in ff:
        ty = f.get('type', '')
        cnt = f.get('count')
        if cnt and cnt >= 2 and '*' in ty and sz == 8 * cnt and 'sub' not in f:
            out.append((nm, off, cnt))
    return out


def analyse_all(P):
    """{function: (unit, Lanes result)} for every assembled routine whose first C parameter points to a record with per-lane pointer arrays,
    and for the routines without a C prototype that receive that pointer unchanged from one of them (same or another unit)"""
    import os
    from . import asmtyped, asmfacts
    T = asmtyped.Typed(P)
    SUMMARIES.clear()
    SUMMARIES.update(asmfacts.stage().get('summaries') or {})
    want = {}
    for name in T.results:
        t = T.arg_type(name, 'rdi')
        if not t:
            continue
        arrs = pointer_arrays(P, t)
        if arrs:
            want.setdefault(T.rel[name], []).append((name, arrs))
    res = {}
    ents = {e['file'].replace(build.REPO + '/', ''): e for e in build.asm_entries()}
    where = {}
    try:
        for sym, (rel, _) in asmfacts.global_symbols().items():
            where[sym] = rel
    except Exception:
        pass
    parsed = {}
    done = set()
    for rnd in range(3):
        todo = [ents[rel] for rel in want if rel in ents and rel not in parsed]
        objs = build.assemble(todo, tag='lanes') if todo else {}
        for e in todo:
            rel = e['file'].replace(build.REPO + '/', '')
            parsed[rel] = asmint.parse_obj(objs[e['file']])
        for o in objs.values():
            try:
                os.remove(o)
            except OSError:
                pass
        pending = {}
        for rel, fl in sorted(want.items()):
            if rel not in parsed:
                continue
            insns, labels, funcs, syms = parsed[rel]
            queue = list(fl)
            while queue:
                name, arrs = queue.pop(0)
                if name not in funcs or name in done:
                    continue
                done.add(name)
                L = Lanes(name, funcs[name], insns, arrs)
                L.labels = labels
                res[name] = (rel, L.run())
                # routines without a C prototype that receive the record pointer unchanged work on the same record
                for callee in sorted(L.passes_arg0):
                    if callee in done or T.arg_type(callee, 'rdi') is not None:
                        continue
                    if callee in funcs:
                        queue.append((callee, arrs))
                    elif callee in where:
                        pending.setdefault(where[callee], []).append((callee, arrs))
        want = {rel: fl for rel, fl in pending.items()}
        if not want:
            break
    return res


if __name__ == '__main__':
    from . import cf
    P = cf.Program()
    r = analyse_all(P)
    ns = sum(x[1].checked_stores for x in r.values())
    npst = sum(x[1].checked_ptr_stores for x in r.values())
    print(len(r), 'functions', ns, 'vector stores decided', npst, 'pointer write-backs decided')
    for name, (rel, L) in sorted(r.items()):
        for a, kind, msg in L.findings[:6]:
            print('FINDING', name, hex(a), msg)
