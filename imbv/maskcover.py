"""Lane-mask coverage of SAFE_DATA clears in the assembled multi-buffer managers (no execution).

A flush routine copies the key material of a live lane into the lanes that have no job, selecting those lanes by the bits of a mask
(`kmovw r32, kN` followed by a ladder of `bt r32, lane; jnc skip; <stores>; skip:`).  Before it returns, the same routine wipes the
copies again, selecting lanes by another mask.  Every lane the copy could write must be a lane the wipe selects: the wipe's mask has to
be the copy's mask OR-ed with further lanes.

Masks are followed symbolically: a compare writing an opmask register is an atom named by its address, `kshiftl` wraps its operand's
atoms, `kor*` is the union of its operands' atom sets, `kmov` between opmask and general registers and `mov` between general registers
copy the set; anything else writing a tracked register makes a fresh atom.  Where two different sets meet at a join the register is
ambiguous and ladders reading it are left undecided.  Addresses are followed as (register value on entry + constant) through lea / add /
sub / mov.  A store in a ladder arm is a wipe when the stored vector register was last written by a zero idiom, else a copy.

Rule (rules/c13.py S13): for every copy store to address A under bit b of mask Mc for which the routine also has ladder wipes of A, one
wipe of A under bit b has a mask Ml with atoms(Mc) <= atoms(Ml)."""
import json
import os
import re

from . import asmint, asmdu, build
from .asmint import split_ops, parse_mem, SUB, WID

KREG = re.compile(r'^k([0-7])$')
VREG = re.compile(r'^[xyz]mm(\d+)$')
AMBIG = 'ambiguous'


def _k(op):
    m = KREG.match(op.strip())
    return 'k' + m.group(1) if m else None


def _g(op):
    op = op.strip()
    return SUB.get(op) if WID.get(op) in (4, 8) else None


def _zero_idiom(mn, ops):
    return bool(re.match(r'^v?(pxor[dq]?|xorps|xorpd)$', mn)) and len(ops) >= 2 and len({o.strip().replace('zmm', 'xmm').replace('ymm', 'xmm')
                                                                                         for o in ops[-2:]}) == 1 and '[' not in ops[-1]


_SUM = []


def _summaries():
    if not _SUM:
        try:
            from . import asmfacts
            _SUM.append(asmfacts.stage().get('summaries') or {})
        except Exception:
            _SUM.append({})
    return _SUM[0]


def analyse_function(name, entry, insns, labels_by_addr=None):
    labels_by_addr = labels_by_addr or {}
    nodes = asmint.reachable_insns(entry, insns)
    if len(nodes) > 40000:
        return None
    succ = {a: asmdu.successors(a, insns) for a in nodes}
    du = {}
    for a in nodes:
        try:
            du[a] = asmdu.defuse(insns[a])[0]
        except Exception:
            du[a] = set(asmdu.ALLREGS)
    # state: masks {reg: frozenset(atoms) | AMBIG}, aff {gpr: (entry register, offset)}, zero {vector number}
    init = ({}, {r: (r, 0) for r in asmdu.GPRS}, frozenset())
    state = {entry: init}
    work = [entry]

    def step(a, st):
        masks, aff, zero = st
        ins = insns[a]
        mn = ins['mn']
        ops = [o.strip() for o in split_ops(ins['ops'])]
        defs = du[a]
        if mn == 'call':
            tname = ins.get('reloc')
            if not tname:
                try:
                    tname = (labels_by_addr.get(int(ins['ops'].split()[0], 16)) or [None])[0]
                except (ValueError, IndexError):
                    tname = None
            sm = _summaries().get(tname) if tname else None
            if sm is not None:
                gw = set(sm.get('gprw') or [])
                vw = set(sm.get('vecW') or [])
                return ({r: v for r, v in masks.items() if r not in gw}, {r: v for r, v in aff.items() if r not in gw},
                        frozenset(z for z in zero if z not in vw))
            return ({}, {r: v for r, v in aff.items() if r in asmint.CALLEE or r == 'rsp'}, frozenset())
        nm, na, nz = masks, aff, zero
        # vector zero flags
        vd = {int(r[1:]) for r in defs if r.startswith('v') and r[1:].isdigit()}
        if vd:
            nz = set(zero) - vd
            if _zero_idiom(mn, ops):
                nz |= vd
            nz = frozenset(nz)
        kd = {r for r in defs if KREG.match(r)}
        gd = {r for r in defs if r in asmdu.GPRS}
        if kd or gd:
            nm = dict(masks)
            na = dict(aff)
            for r in kd | gd:
                nm.pop(r, None)
            for r in gd:
                na.pop(r, None)
            val = None
            tgt = None
            if re.match(r'^kmov[bwdq]$', mn) and len(ops) == 2:
                d, s = ops
                tgt = _k(d) or _g(d)
                src = _k(s) or _g(s)
                if tgt and src:
                    val = masks.get(src, frozenset([('in', src)]))
                    if _k(d) and _g(s):
                        # a mask loaded from a general register keeps only as many bits as the move is wide
                        w_ = {'b': 8, 'w': 16, 'd': 32, 'q': 64}[mn[-1]]
                        val = frozenset([('in%d' % w_, src)]) if src not in masks or any(t[0] in ('in', 'def') for t in masks[src]
                                                                                       if isinstance(t, tuple)) else val
                elif tgt:
                    val = frozenset([('mem',)])
            elif re.match(r'^kor[bwdq]$', mn) and len(ops) == 3:
                tgt = _k(ops[0])
                x = masks.get(_k(ops[1]), frozenset([('in', ops[1])]))
                y = masks.get(_k(ops[2]), frozenset([('in', ops[2])]))
                val = AMBIG if AMBIG in (x, y) else x | y
            elif re.match(r'^kunpck(bw|wd|dq)$', mn) and len(ops) == 3:
                tgt = _k(ops[0])
                sh = {'bw': '0x8', 'wd': '0x10', 'dq': '0x20'}[mn[6:]]
                x = masks.get(_k(ops[1]), frozenset([('in', ops[1])]))
                y = masks.get(_k(ops[2]), frozenset([('in', ops[2])]))
                val = AMBIG if AMBIG in (x, y) else frozenset(('shl', t, sh) for t in x) | y
            elif re.match(r'^kshiftl[bwdq]$', mn) and len(ops) == 3:
                tgt = _k(ops[0])
                x = masks.get(_k(ops[1]), frozenset([('in', ops[1])]))
                val = AMBIG if x == AMBIG else frozenset(('shl', t, ops[2]) for t in x)
            elif mn == 'mov' and len(ops) == 2 and _g(ops[0]) and _g(ops[1]):
                tgt = _g(ops[0])
                if _g(ops[1]) in masks:
                    val = masks[_g(ops[1])]
                if _g(ops[1]) in aff and WID.get(ops[0]) == 8:
                    na[tgt] = aff[_g(ops[1])]
            elif re.match(r'^v?p?(cmp|test)', mn) and kd:
                tgt = sorted(kd)[0]
                val = frozenset([('cmp', mn, ops[1][0] if len(ops) > 1 else '?')])
            if tgt and val is not None:
                nm[tgt] = val
            for r in kd | gd:
                if r not in nm:
                    nm[r] = frozenset([('def',)])
            # affine addresses
            if mn == 'lea' and len(ops) == 2 and _g(ops[0]) and WID.get(ops[0]) == 8:
                m = parse_mem(ops[1])
                if m and m.get('base') in aff and not m.get('index') and m.get('disp') is not None:
                    b0, o0 = aff[m['base']]
                    na[_g(ops[0])] = (b0, o0 + m['disp'])
            elif mn in ('add', 'sub') and len(ops) == 2 and _g(ops[0]) and WID.get(ops[0]) == 8 and re.match(r'^0x[0-9a-f]+$', ops[1]) \
                    and _g(ops[0]) in aff:
                c = int(ops[1], 16)
                if c >= 1 << 63:
                    c -= 1 << 64
                b0, o0 = aff[_g(ops[0])]
                na[_g(ops[0])] = (b0, o0 + (c if mn == 'add' else -c))
        return (nm, na, nz)

    def merge(old, new):
        om, oa, oz = old
        nm, na, nz = new
        changed = False
        mm = dict(om)
        for r in set(om) | set(nm):
            x, y = om.get(r), nm.get(r)
            if x is None or y is None:
                v = AMBIG if (x or y) else None
                # a register tracked on one side only: ambiguous
                v = AMBIG
            else:
                v = x if x == y else AMBIG
            if mm.get(r) != v:
                mm[r] = v
                changed = True
        ma = {r: v for r, v in oa.items() if na.get(r) == v}
        if ma != oa:
            changed = True
        mz = oz & nz
        if mz != oz:
            changed = True
        return (mm, ma, mz), changed

    steps = 0
    while work:
        a = work.pop()
        steps += 1
        if steps > 400000:
            return None
        out = step(a, state[a])
        for s in succ[a]:
            if s not in state:
                state[s] = out
                work.append(s)
            else:
                m, ch = merge(state[s], out)
                if ch:
                    state[s] = m
                    work.append(s)
    # ladders
    order = sorted(nodes)
    nxt = {order[i]: order[i + 1] for i in range(len(order) - 1)}
    facts = []
    for a in order:
        ins = insns[a]
        if ins['mn'] != 'bt' or a not in state:
            continue
        ops = [o.strip() for o in split_ops(ins['ops'])]
        if len(ops) != 2 or not _g(ops[0]) or not re.match(r'^0x[0-9a-f]+$', ops[1]):
            continue
        j = nxt.get(a)
        if j is None or insns[j]['mn'] not in ('jae', 'jnc', 'jnb'):
            continue
        try:
            tgt = int(insns[j]['ops'].split()[0], 16)
        except (ValueError, IndexError):
            continue
        if tgt <= j:
            continue
        mask = state[a][0].get(_g(ops[0]))
        bit = int(ops[1], 16)
        x = nxt.get(j)
        n = 0
        while x is not None and x < tgt and n < 200:
            n += 1
            i2 = insns[x]
            o2 = [o.strip() for o in split_ops(i2['ops'])]
            if i2['mn'] in ('jmp', 'ret', 'call') or i2['mn'] in asmint.JCC:
                break
            if len(o2) >= 2 and '[' in o2[0] and VREG.match(o2[1]) and re.match(r'^v?mov', i2['mn']) and x in state:
                m = parse_mem(o2[0])
                aff = state[x][1]
                if m and m.get('base') in aff and not m.get('index') and m.get('disp') is not None and '{' not in o2[0]:
                    b0, o0 = aff[m['base']]
                    width = {'x': 16, 'y': 32, 'z': 64}[o2[1][0]]
                    vn = int(VREG.match(o2[1]).group(1))
                    facts.append({'fn': name, 'a': x, 'bt': a, 'bit': bit, 'base': b0, 'off': o0 + m['disp'], 'w': width,
                                  'kind': 'wipe' if vn in state[x][2] else 'copy',
                                  'mask': None if mask in (None, AMBIG) else sorted(repr(t) for t in mask), 'txt': i2['txt']})
            x = nxt.get(x)
    return facts


def scan_obj(obj):
    insns, labels, funcs, syms = asmint.parse_obj(obj)
    out = []
    if not any(i['mn'] == 'bt' for i in insns.values()) or not any(i['mn'].startswith('kmov') for i in insns.values()):
        return out
    for name, entry in sorted(funcs.items()):
        try:
            f = analyse_function(name, entry, insns, labels)
        except RecursionError:
            f = None
        if f:
            out.extend(f)
    return out


def _shapes(mask):
    """the constructions a mask is OR-ed from, without the instruction addresses: a 16-lane mask built as cmp | (cmp << 8) has the shapes
    {cmp, shl8(cmp)}; a wipe mask that lacks one of the copy mask's shapes cannot select the lanes that part stands for"""
    return set(mask)


def _known(mask):
    return not any("'def'" in t for t in mask)


def verdicts(facts):
    """-> (decided copy stores, violations [(fact, reason)])"""
    by = {}
    for f in facts:
        by.setdefault(f['fn'], []).append(f)
    decided, bad = 0, []
    for fn, fs in by.items():
        wipes = [f for f in fs if f['kind'] == 'wipe']
        for c in fs:
            if c['kind'] != 'copy' or c['mask'] is None:
                continue
            # wipes that cover this store's bytes
            cover = [w for w in wipes if w['base'] == c['base'] and w['off'] <= c['off'] and c['off'] + c['w'] <= w['off'] + w['w']]
            if not cover:
                continue            # the routine does not wipe this place under a lane ladder: other rules (S2 / vec_clean) speak about it
            same_bit = [w for w in cover if w['bit'] == c['bit'] and w['mask'] is not None]
            if not same_bit:
                if any(w['mask'] is None for w in cover if w['bit'] == c['bit']):
                    continue        # ambiguous wipe mask: undecided
                bad.append((c, 'no wipe of this place is selected by bit %d' % c['bit']))
                decided += 1
                continue
            decided += 1
            narrow = [w for w in same_bit if c['bit'] >= 8 and any("'in8'" in t for t in w['mask'])]
            if narrow:
                bad.append((c, 'the wipe at +%#x ORs in a lane mask that was moved into its opmask register with `kmovb` (8 bits) although lanes '
                               'up to %d are selected by it' % (narrow[0]['a'], max(w['bit'] for w in wipes))))
                continue
            if _known(c['mask']) and not any(_shapes(c['mask']) <= _shapes(w['mask']) for w in same_bit):
                w = same_bit[0]
                bad.append((c, 'the wipe at +%#x selects lanes by a mask built from %s, which does not contain the copy mask %s' % (
                    w['a'], w['mask'], c['mask'])))
    return decided, bad


def all_units():
    """{asm source: facts} for every unit, cached per NASM source key"""
    from . import insnscan
    return insnscan._cached('maskcover3', scan_obj, procs=True)


if __name__ == '__main__':
    import sys
    if len(sys.argv) > 1:
        fs = scan_obj(sys.argv[1])
        d, bad = verdicts(fs)
        print(len(fs), 'ladder stores', d, 'decided', len(bad), 'violations')
        for c, why in bad[:5]:
            print(c['fn'], hex(c['a']), c['txt'], '|', why)
    else:
        tot = 0
        for rel, fs in sorted(all_units().items()):
            if not fs:
                continue
            d, bad = verdicts(fs)
            tot += d
            print(rel, len(fs), 'ladder stores', d, 'decided', len(bad), 'violations')
            for c, why in bad[:3]:
                print('   ', c['fn'], hex(c['a']), c['txt'], '|', why)
        print('decided', tot)
