"""Byte-order typestate of vector registers in the assembled kernels (no execution).

Counters and hash words are kept either in memory byte order or byte-reflected, and the code switches between the two with
`pshufb reg, [rel <mask constant>]` (an involution for the byte-swap masks the library uses).  The representation a register is in
is part of its type: a use that can be reached with the register reflected by mask M on one path and not reflected on another
(a reflection that a refactoring dropped, added or moved out of a loop on one edge only) treats two different values as one.

Abstract state per vector register: the set of mask constants (relocation symbol + addend) applied an odd number of times since the
register was last given a fresh value.  `pshufb r, [M]` toggles M; a register-to-register move copies the state; arithmetic and logic
with the register as destination AND source (paddd r, [c]; pxor r, x; ...) keep it (the operation is done in that representation);
any other write makes the register fresh (empty set).  At a join the two states must agree; if they differ the register is
CONFLICTED from there on, and the first instruction that READS a conflicted register is reported.  A later fresh write clears it.
Calls clear everything.  Unknown states (entry values of arguments) are fresh."""
import re

from . import asmint, asmdu
from .asmint import split_ops

VREG = re.compile(r'^[xyz]mm(\d+)$')
CONFLICT = 'conflict'
ANY = 'any'            # a value some instruction computed: its byte order is whatever the computation says, not tracked
KEEP = re.compile(r'^v?(padd[bwdq]|psub[bwdq]|pxor[dq]?|por[dq]?|pand[dq]?|pandn[dq]?|xorps|xorpd|pinsr[bwdq]|pblendw|pblendvb|blendps|blendpd)$')
MOVE = re.compile(r'^v?mov(dqa|dqu|aps|ups|apd|upd|dqa32|dqa64|dqu8|dqu16|dqu32|dqu64)$')


def _vn(op):
    m = VREG.match(op.strip())
    return int(m.group(1)) if m else None


def analyse_function(name, entry, insns):
    nodes = asmint.reachable_insns(entry, insns)
    if len(nodes) > 60000:
        return []
    succ = {a: asmdu.successors(a, insns) for a in nodes}
    du = {}
    for a in nodes:
        try:
            d_, u_, _, _ = asmdu.defuse(insns[a])
        except Exception:
            d_, u_ = set('v%d' % i for i in range(32)), set()
        du[a] = ({int(r[1:]) for r in d_ if r.startswith('v') and r[1:].isdigit()},
                 {int(r[1:]) for r in u_ if r.startswith('v') and r[1:].isdigit()})
    state = {entry: {}}
    work = [entry]
    findings = {}

    def step(a, st):
        ins = insns[a]
        mn = ins['mn']
        ops = [o.strip() for o in split_ops(ins['ops'])]
        if mn == 'call':
            return {}
        defs, uses = du[a]
        if not defs:
            return st
        new = dict(st)
        if mn in ('pshufb', 'vpshufb') and ins.get('reloc') and ('rip' in ins['ops']):
            mask = (ins.get('reloc'), ins.get('reloc_add', 0))
            dst = _vn(ops[0])
            src = _vn(ops[1]) if mn == 'vpshufb' and len(ops) == 3 else dst
            if dst is not None and src is not None:
                cur = st.get(src, ANY)
                if cur in (CONFLICT, ANY):
                    new[dst] = cur
                else:
                    new[dst] = frozenset(cur ^ {mask})
                return new
        if MOVE.match(mn) and len(ops) == 2 and _vn(ops[0]) is not None and _vn(ops[1]) is not None:
            new[_vn(ops[0])] = st.get(_vn(ops[1]), ANY)
            return new
        if MOVE.match(mn) and len(ops) == 2 and _vn(ops[0]) is not None and '[' in ops[1]:
            new[_vn(ops[0])] = frozenset()                          # loaded from memory: memory byte order
            return new
        if re.match(r'^v?pinsr[bwdq]$', mn) and len(ops) == 3 and '[' in ops[1] and _vn(ops[0]) is not None and st.get(_vn(ops[0]), ANY) == ANY:
            new[_vn(ops[0])] = frozenset()                          # a register assembled from pieces of memory: memory byte order
            return new
        if re.match(r'^pinsr[bwdq]$', mn) and _vn(ops[0]) is not None:
            return st                                               # one element replaced: the register keeps its representation
        if KEEP.match(mn):
            dst = _vn(ops[0].split('{')[0]) if ops else None
            src1 = _vn(ops[1]) if len(ops) == 3 else dst          # VEX three-operand form: state follows the first source
            if dst is not None and src1 is not None and (len(ops) == 2 or src1 == dst):
                return st                                           # in-place: representation unchanged
            if dst is not None and src1 is not None:
                new[dst] = st.get(src1, ANY)
                return new
        for d in defs:
            new[d] = ANY
        return new

    n = 0
    while work:
        a = work.pop()
        n += 1
        if n > 600000:
            return []
        cur = state[a]
        # report reads of conflicted registers
        _, uses = du[a]
        for u in uses:
            if cur.get(u) == CONFLICT and a not in findings:
                findings[a] = u
        out = step(a, cur)
        for s in succ[a]:
            old = state.get(s)
            if old is None:
                state[s] = out
                work.append(s)
                continue
            merged = None
            for r_ in set(old) | set(out):
                x, y = old.get(r_, ANY), out.get(r_, ANY)
                if x == y:
                    v = x
                elif CONFLICT in (x, y):
                    v = CONFLICT
                elif ANY in (x, y):
                    v = ANY
                else:
                    v = CONFLICT
                if old.get(r_, ANY) != v:
                    if merged is None:
                        merged = dict(old)
                    merged[r_] = v
            if merged is not None:
                state[s] = merged
                work.append(s)
    res = []
    for a, u in sorted(findings.items()):
        # the read itself must not be the fresh overwrite of the register
        res.append({'fn': name, 'a': a, 'reg': u, 'txt': insns[a]['txt']})
    # keep the first read per register run: later reads of the same conflicted value add nothing
    out, seen = [], set()
    for f in res:
        if f['reg'] in seen:
            continue
        seen.add(f['reg'])
        out.append(f)
    return out


def scan_obj(obj):
    insns, labels, funcs, syms = asmint.parse_obj(obj)
    if not any(i['mn'] in ('pshufb', 'vpshufb') and i.get('reloc') for i in insns.values()):
        return {'functions': 0, 'findings': []}
    out = []
    nf = 0
    for name, entry in sorted(funcs.items()):
        nf += 1
        out.extend(analyse_function(name, entry, insns))
    return {'functions': nf, 'findings': out}


def all_units():
    from . import insnscan
    return insnscan._cached('byteorder2', scan_obj, procs=True)


if __name__ == '__main__':
    import sys
    if len(sys.argv) > 1:
        for o in sys.argv[1:]:
            r = scan_obj(o)
            print(o, r['functions'], 'functions')
            for f in r['findings']:
                print('   ', f)
    else:
        tot = 0
        nfn = 0
        for rel, r in sorted(all_units().items()):
            nfn += r['functions']
            for f in r['findings']:
                tot += 1
                print(rel, f['fn'], hex(f['a']), 'xmm%d' % f['reg'], f['txt'])
        print(nfn, 'functions,', tot, 'findings')
