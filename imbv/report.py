"""Rule/instance bookkeeping, known findings, evidence and replay files."""
import json, os, sys, time

VERIF = os.path.dirname(os.path.dirname(os.path.abspath(__file__)))
KNOWN = os.path.join(VERIF, 'known_findings.jsonl')


def load_known():
    out = []
    if os.path.exists(KNOWN):
        with open(KNOWN) as f:
            for line in f:
                line = line.strip()
                if line and not line.startswith('#'):
                    out.append(json.loads(line))
    return out


class Rule:
    def __init__(self, chk, rid, text, floor=0, zero_expected=False):
        self.chk = chk
        self.id = rid
        self.text = text
        self.floor = floor
        self.instances = 0
        self.keys = set()
        self.samples = []
        self.violations = []
        self.notes = []

    def ok(self, key, detail=None):
        """one instance of the rule evaluated and held"""
        self.instances += 1
        self.keys.add(key)
        if len(self.samples) < 4:
            self.samples.append({'instance': key, 'detail': detail} if detail is not None else {'instance': key})

    def bad(self, key, loc, msg, facts=None):
        self.instances += 1
        self.keys.add(key)
        self.violations.append({'rule': self.id, 'instance': key, 'loc': loc, 'msg': msg, 'facts': facts})

    def check(self, cond, key, loc, msg, detail=None, facts=None):
        if cond:
            self.ok(key, detail)
        else:
            self.bad(key, loc, msg, facts)
        return cond

    def note(self, msg):
        self.notes.append(msg)


class Check:
    def __init__(self, pid, tier='quick', replay=None):
        self.pid = pid
        self.tier = tier
        self.rules = []
        self.t0 = time.time()
        self.broken_msgs = []
        self.assumptions = []
        self.extra = {}
        self.replay = replay
        self.explanation = ''
        self.level = 'other'
        try:
            self.seed = int(os.environ.get('VERIF_SEED', '0'))
        except ValueError:
            self.seed = 0

    def rule(self, rid, text, floor=0):
        r = Rule(self, rid, text, floor)
        self.rules.append(r)
        return r

    def broken(self, msg):
        self.broken_msgs.append(msg)

    def assume(self, text):
        if text not in self.assumptions:
            self.assumptions.append(text)

    def finish(self):
        known = [k for k in load_known() if k.get('property') == self.pid]
        out_viol = []
        known_hits = []
        for r in self.rules:
            if r.instances < r.floor:
                self.broken('rule %s matched %d instances, floor is %d (anchor moved or matcher broken)' %
                            (r.id, r.instances, r.floor))
            for v in r.violations:
                hit = None
                for k in known:
                    if k.get('status', 'known') == 'known' and k.get('rule') == v['rule'] and k.get('key') == v['instance']:
                        hit = k
                if hit:
                    known_hits.append((hit, v))
                else:
                    out_viol.append(v)
        if self.replay:
            want = self.replay
            out_viol = [v for v in out_viol if v['rule'] == want.get('rule') and v['instance'] == want.get('instance')]
        evdir = os.environ.get('IMBV_EVIDENCE_DIR') or os.path.join(VERIF, 'evidence')
        os.makedirs(os.path.join(evdir, 'replay'), exist_ok=True)
        lines = []
        for hit, v in known_hits:
            lines.append('KNOWN-FINDING: property=%s %s [%s %s] %s' % (self.pid, hit.get('what', ''), v['rule'],
                                                                        v['instance'], v['loc']))
        for i, v in enumerate(out_viol):
            path = os.path.join(evdir, 'replay', '%s-%d.json' % (self.pid, i))
            with open(path, 'w') as f:
                json.dump({'property': self.pid, **v}, f, indent=1, default=str)
            lines.append('%s: [%s] %s: %s' % (v['loc'], v['rule'], v['instance'], v['msg']))
            lines.append('VIOLATION property=%s replay=%s' % (self.pid, path))
        n_inst = sum(r.instances for r in self.rules)
        n_keys = sum(len(r.keys) for r in self.rules)
        samples = []
        for r in self.rules:
            for s in r.samples[:2]:
                samples.append({'rule': r.id, **s})
        cov = {
            'explanation': self.explanation or ('static rules over facts extracted from the current /repo tree: ' +
                                                '; '.join('%s (%s)' % (r.id, r.text) for r in self.rules)),
            'evaluations': max(n_inst, 0),
            'distinct_nontrivial': n_keys,
            'rule': 'one evaluation = one rule instance (a call site, table cell, function exit, field, guard) '
                    'found in the current source/object code; distinct = distinct instance keys per rule',
            'obligations': n_inst,
            'discharged': n_inst - sum(len(r.violations) for r in self.rules),
            'samples': samples[:24] or [{'note': 'no instance'}],
            'rules': [{'id': r.id, 'text': r.text, 'instances': r.instances, 'distinct': len(r.keys),
                       'floor': r.floor, 'violations': len(r.violations), 'notes': r.notes[:20]}
                      for r in self.rules],
            'known_findings_matched': len(known_hits),
        }
        cov.update(self.extra)
        ev = {
            'property_id': self.pid, 'tier': self.tier, 'seed': self.seed, 'level': self.level,
            'coverage': cov, 'assumptions': self.assumptions, 'wall_s': round(time.time() - self.t0, 2),
            'violations': len(out_viol),
        }
        if self.broken_msgs:
            ev['analysis_broken'] = self.broken_msgs
        if not self.replay:
            with open(os.path.join(evdir, self.pid + '.json'), 'w') as f:
                json.dump(ev, f, indent=1, default=str)
        for r in self.rules:
            print('  rule %-8s %5d instances (%d distinct, floor %d), %d violations  -- %s' % (
                r.id, r.instances, len(r.keys), r.floor, len(r.violations), r.text[:90]))
            for n in r.notes[:6]:
                print('      note: ' + n)
        for l in lines:
            print(l)
        if self.broken_msgs:
            for m in self.broken_msgs:
                print('ANALYSIS-BROKEN property=%s %s' % (self.pid, m))
            if not out_viol:
                return 2
        if out_viol:
            return 1
        print('OK property=%s tier=%s instances=%d wall=%.1fs' % (self.pid, self.tier, n_inst, time.time() - self.t0))
        return 0
