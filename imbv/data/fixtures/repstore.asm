; positive fixture of rule S14: an unrolled clear loop whose address does not advance (bad) next to the correct form (good)
default rel
section .text
global s14_fixture_bad:function
global s14_fixture_good:function
s14_fixture_bad:
        vpxorq  zmm0, zmm0, zmm0
%assign i 0
%rep 4
        vmovdqa32 [rdi + 0x40]{k1}, zmm0
%assign i (i + 1)
%endrep
        ret
s14_fixture_good:
        vpxorq  zmm0, zmm0, zmm0
%assign i 0
%rep 4
        vmovdqa32 [rdi + 0x40 + i*64]{k1}, zmm0
%assign i (i + 1)
%endrep
        ret
