; positive fixture of rule W6: a computed value stored to two adjacent 16-byte slots of one buffer (what a dropped `movdqa xmm0, xmm1`
; between the two halves of a 32-byte digest store looks like), next to the correct form
default rel
section .text
global w6_fixture_bad:function
global w6_fixture_good:function
w6_fixture_bad:
        movdqu  xmm0, [rsi]
        movdqu  xmm1, [rsi + 16]
        pshufb  xmm0, xmm2
        pshufb  xmm1, xmm2
        movdqu  [rdi], xmm0
        lea     rdi, [rdi + 16]
        sub     rdx, 16
        cmp     rdx, 8
        jb      .lt8
        movq    [rdi], xmm0
.lt8:
        ret
w6_fixture_good:
        movdqu  xmm0, [rsi]
        movdqu  xmm1, [rsi + 16]
        pshufb  xmm0, xmm2
        pshufb  xmm1, xmm2
        movdqu  [rdi], xmm0
        lea     rdi, [rdi + 16]
        movdqa  xmm0, xmm1
        sub     rdx, 16
        cmp     rdx, 8
        jb      .lt8
        movq    [rdi], xmm0
.lt8:
        ret
