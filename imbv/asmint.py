"""Abstract interpreter over assembled objects (objdump -D text): exact CFG (direct jumps/calls only) and a flat
product domain per instruction address:

  GPRs / tracked stack slots:  ('E', reg, off)   entry value of reg (+ constant)
                               ('SP', off)       stack pointer at entry + off
                               ('F', id, off)    frame base after `and rsp,-N` at instruction id (+ off)
                               ('I', lo, hi, st) unsigned interval with stride
                               ('G', sym)        address of an image symbol (rip-relative lea)
                               ('L', base, disp, indexed) 64-bit value loaded from [base + disp (+ index)] where base is
                                                 an 'E' value (typed view: field of the argument structure) or an 'L' value
                                                 whose own base is an 'E' value (one level of nesting)
                               ('X', reg, disp|None) entry value of reg + disp + an unknown index (address of an element
                                                 inside the argument structure: `lea r, [state + _ldata + lane*size]`)
                               None              unknown
  flags fact for branch refinement, DF, vector registers: may-be-non-zero set;
  mc: constraints (lo, hi, excluded constants) on 64-bit memory cells [base + disp] compared against constants.

The worklist pass computes the fixpoint; exits, calls, stores and notes are then collected in a final pass over the
fixpoint states (so that every recorded fact holds on every path, not only on the first one explored).

Recorded per function: exits (state summary), calls, stores through non-stack pointers, notes.
The analysis never executes code."""
import re, subprocess, collections

GPR64 = ['rax', 'rbx', 'rcx', 'rdx', 'rsi', 'rdi', 'rbp', 'rsp', 'r8', 'r9', 'r10', 'r11', 'r12', 'r13', 'r14', 'r15']
SUB = {}
WID = {}
for r in ['a', 'b', 'c', 'd']:
    for n, w in [('r%sx' % r, 8), ('e%sx' % r, 4), ('%sx' % r, 2), ('%sl' % r, 1), ('%sh' % r, 1)]:
        SUB[n] = 'r%sx' % r
        WID[n] = w
for r in ['si', 'di', 'bp', 'sp']:
    for n, w in [('r' + r, 8), ('e' + r, 4), (r, 2), (r + 'l', 1)]:
        SUB[n] = 'r' + r
        WID[n] = w
for i in range(8, 16):
    for s, w in [('', 8), ('d', 4), ('w', 2), ('b', 1)]:
        SUB['r%d%s' % (i, s)] = 'r%d' % i
        WID['r%d%s' % (i, s)] = w
CALLEE = ['rbx', 'rbp', 'r12', 'r13', 'r14', 'r15']
CALLER = ['rax', 'rcx', 'rdx', 'rsi', 'rdi', 'r8', 'r9', 'r10', 'r11']
ARGREGS = ['rdi', 'rsi', 'rdx', 'rcx', 'r8', 'r9']
NOWRITE = set('cmp test bt push call ret jmp nop prefetchw prefetcht0 prefetchnta prefetcht1 prefetcht2 endbr64 sfence '
              'lfence mfence vzeroupper vzeroall ptest vptest ucomisd comisd ucomiss comiss ktestw ktestq ktestd ktestb kortestw '
              'kortestq kortestd kortestb cld std pushf popf pushfq popfq pause ud2 int3 hlt clflush clflushopt'.split())
WIDTH = {'BYTE': 1, 'WORD': 2, 'DWORD': 4, 'QWORD': 8, 'XMMWORD': 16, 'YMMWORD': 32, 'ZMMWORD': 64, 'TBYTE': 10, 'OWORD': 16}
M64 = (1 << 64) - 1
insn_re = re.compile(r'^\s*([0-9a-f]+):\t([0-9a-f ]+?)\s*(?:\t(.*))?$')
sym_re = re.compile(r'^([0-9a-f]+) <(.+)>:$')
rel_re = re.compile(r'^\s+([0-9a-f]+): (R_X86_64_\w+)\s+(\S+?)([-+]0x[0-9a-f]+)?$')
inline_rel_re = re.compile(r'\t([0-9a-f]+): (R_X86_64_\w+)\t(\S+?)([-+]0x[0-9a-f]+)?\s*$')
PREF = ('rep', 'repz', 'repnz', 'repe', 'repne', 'lock', 'notrack', 'bnd', 'data16', '{vex}', '{evex}', 'rex.W', 'rex.WR',
        'rex.WB', 'rex.WX', 'rex.R', 'rex.B', 'rex.X', 'rex', 'rex.RB', 'rex.RX', 'rex.XB', 'rex.WRB', 'rex.WRX', 'rex.WXB',
        'rex.RXB', 'rex.WRXB', 'cs', 'ds', 'es', 'ss')
MXCSR_INSNS = {'ldmxcsr', 'vldmxcsr', 'fldcw', 'fldenv', 'frstor', 'fxrstor', 'fxrstor64', 'xrstor', 'xrstor64', 'xrstors', 'emms',
               'femms', 'fninit', 'finit', 'wrpkru'}

JCC = {}
NEG = {}
for cc, al in {'e': ['je', 'jz'], 'ne': ['jne', 'jnz'], 'b': ['jb', 'jc', 'jnae'], 'ae': ['jae', 'jnb', 'jnc'],
               'a': ['ja', 'jnbe'], 'be': ['jbe', 'jna'], 'l': ['jl', 'jnge'], 'ge': ['jge', 'jnl'], 'g': ['jg', 'jnle'],
               'le': ['jle', 'jng'], 's': ['js'], 'ns': ['jns'], 'o': ['jo'], 'no': ['jno'], 'p': ['jp', 'jpe'],
               'np': ['jnp', 'jpo'], 'cxz': ['jrcxz', 'jecxz', 'jcxz']}.items():
    for m in al:
        JCC[m] = cc
for a, b in [('e', 'ne'), ('b', 'ae'), ('a', 'be'), ('l', 'ge'), ('g', 'le'), ('s', 'ns'), ('o', 'no'), ('p', 'np')]:
    NEG[a] = b
    NEG[b] = a

VREG = re.compile(r'^(x|y|z)mm(\d+)$')
ZERO_SELF = {'pxor', 'xorps', 'xorpd', 'vpxor', 'vpxord', 'vpxorq', 'vxorps', 'vxorpd', 'psubb', 'psubw', 'psubd', 'psubq',
             'vpsubb', 'vpsubw', 'vpsubd', 'vpsubq', 'pandn', 'vpandn', 'vpandnd', 'vpandnq', 'pcmpgtb', 'pcmpgtw', 'pcmpgtd'}
MOVRR = {'movdqa', 'movdqu', 'movaps', 'movups', 'movapd', 'movupd', 'vmovdqa', 'vmovdqu', 'vmovdqa64', 'vmovdqa32',
         'vmovdqu64', 'vmovdqu32', 'vmovdqu8', 'vmovdqu16', 'vmovaps', 'vmovups', 'vmovapd', 'vmovupd'}
NOVECWRITE = {'ptest', 'vptest', 'comisd', 'ucomisd', 'comiss', 'ucomiss', 'pextrb', 'pextrw', 'pextrd', 'pextrq', 'vpextrb',
              'vpextrw', 'vpextrd', 'vpextrq', 'movmskps', 'movmskpd', 'pmovmskb', 'vpmovmskb', 'vmovmskps', 'vmovmskpd',
              'vcomisd', 'vucomisd', 'extractps', 'vextractps'}


def vnum(op):
    op = op.split('{')[0].strip()
    m = VREG.match(op)
    return int(m.group(2)) if m else None


def split_ops(ops):
    res = []
    depth = 0
    cur = ''
    for ch in ops:
        if ch in '[{':
            depth += 1
        if ch in ']}':
            depth -= 1
        if ch == ',' and depth == 0:
            res.append(cur.strip())
            cur = ''
        else:
            cur += ch
    if cur.strip():
        res.append(cur.strip())
    return res


mem_re = re.compile(r'^(?:(\w+) (?:PTR|BCST) )?(?:\w\w:)?\[(.*?)\](?:\{.*\})?$')
_memcache = {}


def parse_mem(op):
    r = _memcache.get(op, 0)
    if r != 0:
        return r
    m = mem_re.match(op)
    r = None
    if m:
        w = WIDTH.get(m.group(1)) if m.group(1) else None
        expr = m.group(2)
        base = None
        index = None
        disp = 0
        scale = 1
        ok = True
        for sign, t in re.findall(r'([+-]?)([^+-]+)', expr):
            t = t.strip()
            if '*' in t:
                rr, s = t.split('*')
                index = rr.strip()
                scale = int(s, 0)
            elif t in SUB or t in ('rip', 'eip') or VREG.match(t):
                if base is None and not VREG.match(t):
                    base = t
                else:
                    index = t
            else:
                try:
                    v = int(t, 0)
                except ValueError:
                    ok = False
                    break
                disp += -v if sign == '-' else v
        r = {'w': w, 'base': base, 'index': index, 'disp': disp if ok else None, 'scale': scale}
    if len(_memcache) < 200000:
        _memcache[op] = r
    return r


def enc_class(raw):
    """'legacy' | 'vex' | 'evex' from the raw bytes (skipping legacy prefixes)"""
    bs = raw.split()
    i = 0
    while i < len(bs) and bs[i] in ('66', 'f2', 'f3', '2e', '36', '3e', '26', '64', '65', '67', 'f0'):
        i += 1
    if i < len(bs):
        if bs[i] == '62':
            return 'evex'
        if bs[i] in ('c4', 'c5'):
            return 'vex'
    return 'legacy'


ICL_EXTRA = re.compile(r'^(vpermb|vpermi2b|vpermt2b|vpmultishiftqb|vpshld[vwdq]*|vpshrd[vwdq]*|vpcompress[bw]|vpexpand[bw]|vpdpbusds?|'
                       r'vpdpwssds?|vpopcnt[bwdq]|vpshufbitqmb)$')
BMI2 = {'mulx', 'rorx', 'sarx', 'shlx', 'shrx', 'pdep', 'pext', 'bzhi'}


def isa_classes(ins):
    """instruction-set extensions (named like the library's IMB_FEATURE_* bits) an instruction needs beyond SSE4.2"""
    mn = ins['mn']
    if mn.startswith('rep_'):
        mn = mn[4:]
    enc = ins.get('enc', 'legacy')
    ops = ins['ops']
    out = set()
    wide = 'ymm' in ops or 'zmm' in ops
    if enc == 'evex' or 'zmm' in ops or re.search(r'\bk[0-7]\b', ops):
        out.add('AVX512_SKX')
    elif enc == 'vex':
        out.add('AVX2' if ('ymm' in ops) else 'AVX')
    base = mn[1:] if mn.startswith('v') else mn
    if base in ('aesenc', 'aesenclast', 'aesdec', 'aesdeclast', 'aesimc', 'aeskeygenassist'):
        out.add('VAES' if (wide and mn.startswith('v')) else 'AESNI')
    elif re.match(r'^pclmul\w*qdq$', base):
        out.add('VPCLMULQDQ' if (wide and mn.startswith('v')) else 'PCLMULQDQ')
    elif mn.startswith(('sha1', 'sha256')):
        out.add('SHANI')
    elif mn.startswith('vsha512'):
        out.add('SHA512NI')
    elif mn.startswith('vsm3'):
        out.add('SM3NI')
    elif mn.startswith('vsm4'):
        out.add('SM4NI')
    elif base.startswith('gf2p8'):
        out.add('GFNI')
    elif mn.startswith('vpmadd52'):
        out.add('AVX512_IFMA' if enc == 'evex' else 'AVX_IFMA')
    elif mn in BMI2:
        out.add('BMI2')
    elif ICL_EXTRA.match(mn):
        out.add('AVX512_ICL')
    return out


def parse_obj(path, want_raw=False):
    """-> insns {addr: dict}, labels {addr:[names]}, funcs {name: addr}, syms {name: dict}"""
    out = subprocess.run(['objdump', '-D', '-r', '-M', 'intel', '-j', '.text', '--show-raw-insn', '-w', path],
                         capture_output=True, text=True).stdout
    insns = {}
    order = []
    labels = {}
    last = None
    for line in out.splitlines():
        if not line:
            continue
        m = sym_re.match(line)
        if m:
            labels.setdefault(int(m.group(1), 16), []).append(m.group(2))
            continue
        m = rel_re.match(line)
        if m:
            if last is not None:
                insns[last]['reloc'] = m.group(3)
                insns[last]['reloc_ty'] = m.group(2)
                insns[last]['reloc_at'] = int(m.group(1), 16)
                if m.group(4):
                    insns[last]['reloc_add'] = int(m.group(4), 16)
            continue
        m = insn_re.match(line)
        if m:
            a = int(m.group(1), 16)
            txt = (m.group(3) or '')
            inl = inline_rel_re.search(txt)
            if inl:
                txt = txt[:inl.start()]
            txt = txt.split('#')[0].strip()
            raw = m.group(2).strip()
            if not txt:
                # continuation line of a long instruction's raw bytes
                if last is not None and want_raw:
                    insns[last]['raw'] += ' ' + raw
                if last is not None:
                    insns[last]['len'] += len(raw.split())
                continue
            parts = txt.split(None, 1)
            mn = parts[0]
            ops = parts[1] if len(parts) > 1 else ''
            rep = False
            lock = False
            while mn in PREF and ops:
                p2 = ops.split(None, 1)
                if mn.startswith('rep'):
                    rep = True
                if mn == 'lock':
                    lock = True
                mn = p2[0]
                ops = p2[1] if len(p2) > 1 else ''
            if rep:
                mn = 'rep_' + mn
            d = {'a': a, 'mn': mn, 'ops': ops, 'txt': txt, 'len': len(raw.split()), 'enc': enc_class(raw)}
            if lock:
                d['lock'] = True
            if want_raw:
                d['raw'] = raw
            if inl:
                d['reloc'] = inl.group(3)
                d['reloc_ty'] = inl.group(2)
                d['reloc_at'] = int(inl.group(1), 16)
                if inl.group(4):
                    d['reloc_add'] = int(inl.group(4), 16)
            insns[a] = d
            order.append(a)
            last = a
    order.sort()
    for i, a in enumerate(order):
        insns[a]['next'] = order[i + 1] if i + 1 < len(order) else None
    funcs = {}
    syms = {}
    secidx = None
    for line in subprocess.run(['readelf', '-SW', path], capture_output=True, text=True).stdout.splitlines():
        m = re.match(r'\s*\[\s*(\d+)\]\s+\.text\s', line)
        if m:
            secidx = m.group(1)
    for line in subprocess.run(['readelf', '-sW', path], capture_output=True, text=True).stdout.splitlines():
        f = line.split()
        if len(f) >= 8 and f[0].rstrip(':').isdigit():
            name = f[7]
            syms[name] = {'value': int(f[1], 16), 'type': f[3], 'bind': f[4], 'vis': f[5], 'ndx': f[6]}
            if f[3] == 'FUNC' and f[6] == secidx:
                funcs[name] = int(f[1], 16)
    return insns, labels, funcs, syms


# ------------------------------------------------------------------------------------------------ values

def pkey(o):
    """provenance key of a register operand: 64-bit GPR name or vector register number"""
    if o in SUB:
        return SUB[o]
    return vnum(o.split('{')[0])


def val_add(v, k):
    if v is None:
        return None
    t = v[0]
    if t == 'SP':
        return ('SP', v[1] + k)
    if t == 'F':
        return ('F', v[1], v[2] + k)
    if t == 'E':
        return ('E', v[1], v[2] + k)
    if t == 'X':
        return ('X', v[1], v[2] + k if v[2] is not None else None)
    if t == 'I':
        lo, hi = v[1] + k, v[2] + k
        if lo < 0 or hi > M64:
            return None
        return ('I', lo, hi, v[3])
    return None


def gcd(a, b):
    while b:
        a, b = b, a % b
    return a


def mkint(lo, hi, st=1):
    if lo == hi:
        st = 0
    elif st == 0:
        st = 1
    return ('I', lo, hi, st)


def vjoin(a, b):
    if a == b:
        return a
    if a is None or b is None:
        return None
    if a[0] == 'I' and b[0] == 'I':
        lo, hi = min(a[1], b[1]), max(a[2], b[2])
        st = gcd(gcd(a[3], b[3]), abs(a[1] - b[1]))
        return mkint(lo, hi, st if st else 1)
    if a[0] in ('E', 'X') and b[0] in ('E', 'X') and a[1] == b[1]:
        # same entry register, different offsets (a pointer advanced in a loop) or an indexed element address
        return ('X', a[1], a[2] if a[2] == b[2] else None)
    # small disjunction of differently-shaped values (e.g. rax = 0 on one path, a loaded job pointer on another);
    # every operation on an 'S' value yields unknown, it is only read at exits
    sa = a[1] if a[0] == 'S' else frozenset([a])
    sb = b[1] if b[0] == 'S' else frozenset([b])
    u = sa | sb
    if len(u) > 4:
        return None
    return ('S', u)


PV_COPY = {'mov', 'movzx', 'movsxd', 'movdqa', 'movdqu', 'movaps', 'movups', 'vmovdqa', 'vmovdqu', 'vmovdqa64', 'vmovdqa32', 'vmovdqu64',
           'vmovdqu32', 'vmovdqu16', 'vmovdqu8', 'vmovaps', 'vmovups', 'movd', 'movq', 'vmovd', 'vmovq', 'pextrw', 'vpextrw', 'pextrd',
           'vpextrd', 'pextrq', 'vpextrq', 'pextrb', 'vpextrb', 'vpshuflw', 'vpshufhw', 'vpshufd', 'vpbroadcastw', 'vpbroadcastd',
           'vpbroadcastq', 'vpbroadcastb', 'vpshufb', 'vpsrldq', 'vpslldq', 'vpermq', 'vpermilps'}
PV_KEEP = {'add', 'sub', 'and', 'or', 'shl', 'shr', 'sar', 'inc', 'dec', 'bswap', 'neg', 'not', 'imul', 'psrldq', 'pslldq'}
PV_SELF2 = {'pshuflw', 'pshufhw', 'pshufd', 'pshufb', 'punpcklwd', 'punpckldq', 'punpcklqdq'}
PV_SUB = {'psubw', 'vpsubw', 'psubd', 'vpsubd', 'psubq', 'vpsubq'}
MC_TOP = (0, M64, frozenset(), 0, 0)   # (lo, hi, excluded constants, bits known set, bits known clear)


class St:
    __slots__ = ('r', 's', 'fl', 'v', 'df', 'u', 'mc', 'pv', 'mz')

    def __init__(s, r, sl, fl, v=frozenset(), df=0, u=frozenset(range(32)), mc=None, pv=None, mz=frozenset()):
        s.r = r      # gpr values
        s.s = sl     # stack slots {('SP',off)|('F',id,off): value}
        s.fl = fl    # flags fact
        s.v = v      # vector registers possibly non-zero (written by this function and not scrubbed)
        s.df = df    # 0 clear, 1 set, 2 unknown
        s.u = u      # vector registers not known to be zero if they were non-zero at entry (for must-clean summaries)
        s.mc = mc if mc is not None else {}   # {(base value, disp): (lo, hi, frozenset(excluded))} memory-cell constraints
        s.pv = pv if pv is not None else {}   # provenance {gpr name | vector number: frozenset(addresses of the (v)phminposuw
        #                                       instructions the value may be derived from by copies / extracts / broadcasts; '*' = or other)}

        s.mz = mz   # must-zero: (destination family, base value | frame kind, lo, hi) byte ranges overwritten with zero on EVERY path
        #             from the entry to this point and not written with anything else since

    def copy(s):
        return St(dict(s.r), dict(s.s), s.fl, s.v, s.df, s.u, dict(s.mc), dict(s.pv), s.mz)


class FuncResult(dict):
    pass


def analyse_func(name, entry, insns, summaries, thresholds, vec_entry_dirty=False, collect=True):
    """summaries: {callee: {'clob': [callee-saved regs possibly clobbered], 'vecW': [...], 'vecMC': [...], 'df': 0/1/2}}"""
    init = {r: ('E', r, 0) for r in GPR64}
    init['rsp'] = ('SP', 0)
    states = {entry: St(init, {}, None, frozenset(), 0)}
    visits = collections.Counter()
    work = [entry]
    issues = []
    calls = {}
    exits = []
    stores = []
    assumed = set()
    seen_exit = set()
    notes = []
    special = []
    steps = 0
    store_seen = set()
    zstack = []

    final = [False]

    def flow(to, st):
        if final[0]:
            return
        if to is None or to not in insns:
            if to is not None:
                issues.append(('flow-outside', to, ''))
            return
        old = states.get(to)
        if old is None:
            states[to] = st
            work.append(to)
            return
        visits[to] += 1
        nr = {}
        changed = False
        for k in GPR64:
            a, b = old.r[k], st.r[k]
            j = vjoin(a, b)
            if j is not None and j[0] == 'I' and j != a and visits[to] > 6 and a is not None and a[0] == 'I':
                lo = j[1] if j[1] == a[1] else max([t for t in thresholds if t <= j[1]] or [0])
                hi = j[2] if j[2] == a[2] else min([t for t in thresholds if t >= j[2]] or [M64])
                if visits[to] > 40:
                    lo, hi = (lo if j[1] == a[1] else 0), (hi if j[2] == a[2] else M64)
                st_ = j[3]
                if (lo - j[1]) % (st_ or 1) or (hi - j[1]) % (st_ or 1):
                    # keep congruence: align bounds to the stride relative to the old low bound
                    if st_:
                        lo = j[1] - ((j[1] - lo) // st_) * st_ if lo < j[1] else lo
                        hi = j[1] + ((hi - j[1]) // st_) * st_
                j = mkint(lo, hi, st_) if (lo, hi) != (0, M64) else None
            if j != a:
                changed = True
            nr[k] = j
        ns = {k: v for k, v in old.s.items() if st.s.get(k) == v}
        if len(ns) != len(old.s):
            changed = True
        fl = old.fl if old.fl == st.fl else None
        if fl != old.fl:
            changed = True
        nv = old.v | st.v
        nu = old.u | st.u
        df = old.df if old.df == st.df else 2
        if nv != old.v or df != old.df or nu != old.u:
            changed = True
        nmc = {}
        for k, c in old.mc.items():
            c2 = st.mc.get(k)
            if c2 is not None:
                j = (min(c[0], c2[0]), max(c[1], c2[1]), c[2] & c2[2], c[3] & c2[3], c[4] & c2[4])
                if j != MC_TOP:
                    nmc[k] = j
        if nmc != old.mc:
            changed = True
        npv = {}
        for k in set(old.pv) | set(st.pv):
            a_, b_ = old.pv.get(k), st.pv.get(k)
            npv[k] = (a_ | b_) if (a_ is not None and b_ is not None) else ((a_ or b_) | {'*'})
        if npv != old.pv:
            changed = True
        nmz = old.mz & st.mz
        if nmz != old.mz:
            changed = True
        if changed:
            states[to] = St(nr, ns, fl, nv, df, nu, nmc, npv, nmz)
            work.append(to)

    while True:
      if not work:
        if final[0] or not collect:
            break
        # fixpoint reached: collect exits / calls / stores / notes from the fixpoint states only
        final[0] = True
        del stores[:], notes[:], special[:], exits[:]
        store_seen.clear()
        seen_exit.clear()
        calls.clear()
        work = sorted(states, reverse=True)
        continue
      else:
        a = work.pop()
        steps += 1
        if steps > 400000 and not final[0]:
            issues.append(('nonterm', a, ''))
            break
        st = states[a].copy()
        regs = st.r
        slots = st.s
        ins = insns[a]
        mn = ins['mn']
        ops = split_ops(ins['ops'])
        nxt = ins['next']

        def getv(op):
            if op in SUB:
                p = SUB[op]
                v = regs[p]
                if p == op:
                    return v
                if v is not None and v[0] == 'I' and v[2] < (1 << (8 * WID[op])) and not op.endswith('h'):
                    return v
                return None
            try:
                x = int(op, 0) & M64
                return ('I', x, x, 0)
            except ValueError:
                return None

        def memaddr(m):
            """classify an address: ('stack', basekey, lo, hi) | ('stackany', basekey) | ('glob', sym) |
               ('ptr', baseval, disp, indexed) | None"""
            if m is None:
                return None
            if m['base'] in ('rip', 'eip'):
                return ('glob', ins.get('reloc', '?'))
            bname = m['base']
            if bname is None or SUB.get(bname) != bname:
                # index-only or 32-bit base
                if bname is None and m['index'] in GPR64:
                    iv = regs[m['index']]
                    if iv is not None and iv[0] in ('SP', 'F') and m['scale'] == 1 and m['disp'] is not None:
                        bk = iv[:-1]
                        return ('stack', bk, iv[-1] + m['disp'], iv[-1] + m['disp'])
                return None
            b = regs[bname]
            if b is None:
                # maybe the index carries the stack pointer
                if m['index'] in GPR64 and m['scale'] == 1:
                    iv = regs[m['index']]
                    if iv is not None and iv[0] in ('SP', 'F'):
                        return ('stackany', iv[:-1])
                return None
            if b[0] in ('SP', 'F'):
                bk = b[:-1]
                off = b[-1]
                if m['disp'] is None:
                    return ('stackany', bk)
                off += m['disp']
                lo = hi = off
                if m['index'] is not None:
                    iv = getv(m['index']) if m['index'] in SUB else None
                    if iv is None or iv[0] != 'I' or (iv[2] - iv[1]) * m['scale'] > 65536:
                        return ('stackany', bk)
                    lo = off + iv[1] * m['scale']
                    hi = off + iv[2] * m['scale']
                return ('stack', bk, lo, hi)
            if b[0] in ('E', 'L', 'G'):
                if m['index'] in GPR64 and m['scale'] == 1:
                    iv = regs[m['index']]
                    if iv is not None and iv[0] in ('SP', 'F'):
                        return ('stackany', iv[:-1])
                return ('ptr', b, m['disp'], m['index'] is not None)
            if b[0] == 'X':
                if m['index'] in GPR64 and m['scale'] == 1:
                    iv = regs[m['index']]
                    if iv is not None and iv[0] in ('SP', 'F'):
                        return ('stackany', iv[:-1])
                return ('ptr', ('E', b[1], 0), (b[2] + m['disp']) if (b[2] is not None and m['disp'] is not None) else None, True)
            if b[0] == 'I' and m['index'] in GPR64:
                iv = regs[m['index']]
                if iv is not None and iv[0] in ('SP', 'F') and m['scale'] == 1 and m['disp'] is not None:
                    bk = iv[:-1]
                    return ('stack', bk, iv[-1] + m['disp'] + b[1], iv[-1] + m['disp'] + b[2])
                if iv is not None and iv[0] in ('E', 'L') and m['scale'] == 1:
                    return ('ptr', iv, m['disp'], True)
            return None

        def kill(ad, w):
            if ad is not None and ad[0] == 'ptr' and st.mc:
                for k_ in [k_ for k_ in st.mc if k_[0] == ad[1] and
                           (ad[3] or ad[2] is None or (ad[2] < k_[1] + 8 and k_[1] < ad[2] + w))]:
                    del st.mc[k_]
            if ad is None or ad[0] in ('glob', 'ptr'):
                return
            if ad[0] == 'stackany':
                assumed.add(a)
                return
            _, bk, lo, hi = ad
            for k in list(slots):
                if k[:-1] == bk and k[-1] < hi + w and lo < k[-1] + 8:
                    del slots[k]

        def setreg(op, v):
            p = SUB.get(op)
            if p is None:
                return
            if p == op:
                regs[p] = v
            elif WID[op] == 4:
                regs[p] = v if (v is not None and v[0] == 'I' and v[2] < (1 << 32)) else ('I', 0, (1 << 32) - 1, 1)
            else:
                regs[p] = None

        def record_store(ad, w, srcval, kind, imm=None):
            # ---- must-zero facts (kept in every pass: they are part of the state)
            if ad is not None and ad[0] in ('ptr', 'stack'):
                zero = srcval is not None and srcval[0] == 'I' and srcval[1] == 0 == srcval[2] and kind in ('mov', 'vec') and \
                    '{k' not in ins['ops'].split(',')[0]
                if ad[0] == 'ptr':
                    bkey, lo, idx = ad[1], ad[2], bool(ad[3])
                    hi = (lo + w) if lo is not None else None
                else:
                    bkey, lo, hi, idx = ('frame', ad[1][0]), ad[2], ad[3] + w, ad[2] != ad[3]
                if st.mz:
                    # anything written to the same place (or somewhere unknown relative to the same base) ends the fact
                    st.mz = frozenset(f_ for f_ in st.mz if f_[0] != bkey or
                                      (lo is not None and not idx and not f_[3] and (hi <= f_[1] or lo >= f_[2])))
                if zero and lo is not None:
                    st.mz = st.mz | {(bkey, lo, hi, idx)}
            if collect and final[0] and ad is not None and ad[0] == 'stack' and srcval is not None and srcval[0] == 'I' and \
                    srcval[1] == 0 == srcval[2] and kind in ('mov', 'vec'):
                # own-frame bytes overwritten with zero (SAFE_DATA clearing of spilled state)
                zstack.append((a, ad[1][0], ad[2], ad[3] + w))
                return
            if not collect or ad is None or ad[0] != 'ptr':
                return
            key = (a,)
            if key in store_seen:
                return
            store_seen.add(key)
            rec = {'a': a, 'base': ad[1], 'disp': ad[2], 'indexed': ad[3], 'w': w, 'src': srcval, 'kind': kind, 'imm': imm}
            if st.mc:
                rec['mc'] = dict(st.mc)
            if '{k' in ins['ops'].split(',')[0]:
                rec['masked'] = True
            stores.append(rec)

        def check_exit(kind, target=None):
            bad = []
            if regs['rsp'] != ('SP', 0):
                bad.append(('rsp', regs['rsp']))
            for r in CALLEE:
                if regs[r] != ('E', r, 0):
                    bad.append((r, regs[r]))
            ex = {'a': a, 'kind': kind, 'bad': bad, 'df': st.df, 'vec': sorted(st.v), 'unclean': sorted(st.u),
                  'rax': regs['rax'], 'target': target, 'mz': sorted(st.mz, key=repr)}
            k = (a, kind)
            if k in seen_exit:
                # keep the weakest
                for e in exits:
                    if e['a'] == a and e['kind'] == kind:
                        e['bad'] = bad if len(bad) >= len(e['bad']) else e['bad']
                        e['vec'] = sorted(set(e['vec']) | st.v)
                        e['unclean'] = sorted(set(e['unclean']) | st.u)
                        e['df'] = e['df'] if e['df'] == st.df else 2
                        e['rax'] = e['rax'] if e['rax'] == regs['rax'] else None
                        e['mz'] = sorted(set(e['mz']) & st.mz, key=repr)
                return
            seen_exit.add(k)
            exits.append(ex)

        def refine(st2, taken, cc):
            fl = st.fl
            if fl is None:
                return st2
            kind, ra, vb = fl
            mkey = None
            if kind == 'cmpm':
                mkey = ra
            elif kind == 'cmp' and ra in GPR64 and st2.r[ra] is not None and st2.r[ra][0] == 'L' and not st2.r[ra][3] and \
                    st2.r[ra][2] is not None and vb is not None and vb[0] == 'I' and vb[1] == vb[2] and vb[1] < (1 << 31):
                mkey = (st2.r[ra][1], st2.r[ra][2])
            if kind == 'testm':
                cond = cc if taken else NEG.get(cc)
                lo, hi, ex, ones, zeros = st2.mc.get(ra, MC_TOP)
                if cond == 'e':
                    zeros |= vb
                elif cond == 'ne' and vb & (vb - 1) == 0:
                    ones |= vb
                else:
                    return st2
                if ones & zeros:
                    return None
                st2.mc[ra] = (lo, hi, ex, ones, zeros)
                return st2
            if mkey is not None:
                c = vb[1]
                cond = cc if taken else NEG.get(cc)
                lo, hi, ex, ones, zeros = st2.mc.get(mkey, MC_TOP)
                if cond == 'e':
                    lo, hi = max(lo, c), min(hi, c)
                elif cond == 'ne':
                    ex = ex | {c}
                elif cond == 'b':
                    hi = min(hi, c - 1)
                elif cond == 'be':
                    hi = min(hi, c)
                elif cond == 'a':
                    lo = max(lo, c + 1)
                elif cond == 'ae':
                    lo = max(lo, c)
                else:
                    return st2
                while lo in ex and lo <= hi:
                    lo += 1
                while hi in ex and hi >= lo:
                    hi -= 1
                if lo > hi:
                    return None
                st2.mc[mkey] = (lo, hi, frozenset(x for x in ex if lo < x < hi), ones, zeros)
                return st2
            if ra not in GPR64:
                return st2
            cur = st2.r[ra]
            if cur is not None and cur[0] != 'I':
                if kind == 'zero' and cur[0] in ('E', 'L', 'G'):
                    cond = cc if taken else NEG.get(cc)
                    if cond == 'e':
                        st2.r[ra] = ('I', 0, 0, 0)
                return st2
            lo, hi, sd = (cur[1], cur[2], cur[3]) if cur else (0, M64, 1)
            if kind == 'cmp' and vb is not None and vb[0] == 'I' and vb[1] == vb[2]:
                c = vb[1]
                if c >= (1 << 63):
                    return st2
                cond = cc if taken else NEG.get(cc)
                if cond in ('l', 'le', 'g', 'ge') and (cur is None or cur[2] >= (1 << 63)):
                    return st2  # signed compare on possibly negative value
                if cond in ('b', 'l'):
                    hi = min(hi, c - 1)
                elif cond in ('be', 'le'):
                    hi = min(hi, c)
                elif cond in ('a', 'g'):
                    lo = max(lo, c + 1)
                elif cond in ('ae', 'ge'):
                    lo = max(lo, c)
                elif cond == 'e':
                    lo = max(lo, c)
                    hi = min(hi, c)
                elif cond == 'ne':
                    if c == hi:
                        hi -= (sd or 1)
                    if c == lo:
                        lo += (sd or 1)
                else:
                    return st2
                if lo > hi:
                    return None
                if cur is not None and sd:
                    # keep congruence with the old low bound
                    if (lo - cur[1]) % sd:
                        lo += sd - ((lo - cur[1]) % sd)
                    if (hi - cur[1]) % sd:
                        hi -= (hi - cur[1]) % sd
                    if lo > hi:
                        return None
                st2.r[ra] = mkint(lo, hi, sd)
            elif kind == 'zero':
                cond = cc if taken else NEG.get(cc)
                if cond == 'e':
                    if lo > 0:
                        return None
                    st2.r[ra] = ('I', 0, 0, 0)
                elif cond == 'ne':
                    if hi < 1:
                        return None
                    if lo == 0:
                        lo = sd or 1
                    st2.r[ra] = mkint(lo, hi, sd)
            return st2

        # ---- vector zeroness
        if mn == 'vzeroall':
            st.v = st.v - frozenset(range(16))
            st.u = st.u - frozenset(range(16))
        elif ops and mn not in ('call', 'ret', 'jmp') and mn not in JCC:
            dvn = vnum(ops[0])
            if dvn is not None and mn not in NOVECWRITE:
                sv = [vnum(o) for o in ops[1:]]
                masked = '{' in ops[0] and '{z}' not in ops[0]
                if mn in ZERO_SELF and len(ops) >= 2 and sv[0] is not None and all(x == sv[0] for x in sv) and \
                        (len(ops) == 3 or sv[0] == dvn) and not masked:
                    st.v = st.v - {dvn}
                    st.u = st.u - {dvn}
                elif mn in MOVRR and len(ops) == 2 and sv[0] is not None and not masked:
                    st.v = (st.v | {dvn}) if sv[0] in st.v else (st.v - {dvn})
                    st.u = (st.u | {dvn}) if sv[0] in st.u else (st.u - {dvn})
                else:
                    st.v = st.v | {dvn}
                    st.u = st.u | {dvn}
        if mn in MXCSR_INSNS and collect:
            special.append((a, mn))
        # ---- provenance of lane-minimum values
        if ops and mn not in ('call', 'ret', 'jmp') and mn not in JCC and mn not in NOWRITE:
            dk = pkey(ops[0])
            if dk is not None:
                srcs = [pkey(o) for o in ops[1:]]
                pv_ = st.pv
                if mn in ('phminposuw', 'vphminposuw'):
                    pv_[dk] = frozenset([a])
                elif mn in PV_SUB and len(ops) >= 2:
                    sk = srcs[-1]
                    if sk is not None and sk in pv_ and collect:
                        notes.append(('minsub', a, sorted(pv_[sk], key=str)))
                    pv_.pop(dk, None)
                elif mn in PV_COPY and len(ops) >= 2 and srcs[0] is not None and (ops[0] in GPR64 or WID.get(ops[0], 8) >= 4 or vnum(ops[0]) is not None):
                    if srcs[0] in pv_:
                        pv_[dk] = pv_[srcs[0]]
                    else:
                        pv_.pop(dk, None)
                elif mn in PV_KEEP and (len(ops) == 1 or srcs[0] is None and parse_mem(ops[1]) is None):
                    pass
                elif mn in ('or', 'and') and len(ops) == 2 and ops[0] == ops[1]:
                    pass    # `or r, r` only sets the flags
                elif mn in PV_SELF2 and len(ops) >= 2:
                    # two-operand SSE shuffles: dst = f(src) (pshuflw x, x, imm) or dst = f(dst, mask)
                    if len(ops) == 3 and srcs[0] is not None:
                        if srcs[0] in pv_:
                            pv_[dk] = pv_[srcs[0]]
                        else:
                            pv_.pop(dk, None)
                elif mn.startswith('cmov') and len(ops) == 2:
                    if srcs[0] is not None and (dk in pv_ or srcs[0] in pv_):
                        pv_[dk] = pv_.get(dk, frozenset(['*'])) | pv_.get(srcs[0], frozenset(['*']))
                    elif srcs[0] is None:
                        pv_.pop(dk, None)
                else:
                    pv_.pop(dk, None)
                if mn == 'xchg' and len(ops) == 2 and srcs[0] is not None:
                    pv_.pop(srcs[0], None)
        # ---- control flow
        if mn in ('ret', 'rep_ret', 'retq'):
            check_exit('ret')
            continue
        if mn == 'jmp':
            if not ops:
                issues.append(('badjmp', a, ins['txt']))
                continue
            if 'reloc' in ins:
                tgt = ins['reloc']
                calls.setdefault(tgt, []).append(a)
                sm = summaries.get(tgt)
                if sm:
                    for r in sm.get('clob', ()):
                        regs[r] = None
                    st.v = (st.v - frozenset(sm.get('vecMC', ()))) | frozenset(sm.get('vecW', ()))
                    st.u = (st.u - frozenset(sm.get('vecMC', ()))) | frozenset(sm.get('vecW', ()))
                    if sm.get('df', 0):
                        st.df = 2
                check_exit('tailjmp', tgt)
                continue
            try:
                flow(int(ops[0].split()[0], 16), st)
            except ValueError:
                issues.append(('indirect-jmp', a, ins['txt']))
            continue
        if mn in JCC:
            cc = JCC[mn]
            try:
                tgt = int(ops[0].split()[0], 16)
            except (ValueError, IndexError):
                issues.append(('indirect-jcc', a, ins['txt']))
                continue
            if cc == 'cxz':
                flow(tgt, st.copy())
                flow(nxt, st)
                continue
            s1 = refine(st.copy(), True, cc)
            s2 = refine(st.copy(), False, cc)
            if s1 is not None:
                flow(tgt, s1)
            if s2 is not None:
                flow(nxt, s2)
            continue
        if mn == 'call':
            tgt = ins.get('reloc')
            if tgt is None:
                t = ops[0].split() if ops else []
                if len(t) > 1:
                    tgt = re.sub(r'\+0x.*$', '', t[1].strip('<>'))
                else:
                    issues.append(('indirect-call', a, ins['txt']))
                    tgt = '?'
            calls.setdefault(tgt, []).append(a)
            argv = {r: regs[r] for r in ARGREGS} if collect else None
            if collect:
                notes.append(('call', a, tgt, argv))
                if any(r in st.pv for r in ARGREGS):
                    notes.append(('callpv', a, tgt, {r: sorted(st.pv[r], key=str) for r in ARGREGS if r in st.pv}))
            sm = summaries.get(tgt)
            if sm and 'gprw' in sm:
                # known assembly callee: only the registers it (transitively) writes are lost; callee-saved registers it
                # writes but restores keep their value unless the ABI domain found them clobbered
                for r in sm['gprw']:
                    if r in CALLER:
                        regs[r] = None
            else:
                for r in CALLER:
                    regs[r] = None
            if sm:
                for r in sm.get('clob', ()):
                    regs[r] = None
                st.v = (st.v - frozenset(sm.get('vecMC', ()))) | frozenset(sm.get('vecW', ()))
                st.u = (st.u - frozenset(sm.get('vecMC', ()))) | frozenset(sm.get('vecW', ()))
                if sm.get('df', 0):
                    st.df = 2
            st.fl = None
            st.pv = {k: v for k, v in st.pv.items() if k in CALLEE}
            st.mz = frozenset()          # the callee may write anywhere
            flow(nxt, st)
            continue
        newfl = None
        keepfl = False
        if mn == 'push':
            regs['rsp'] = val_add(regs['rsp'], -8)
            ad = regs['rsp']
            if ad is not None and ad[0] in ('SP', 'F'):
                kill(('stack', ad[:-1], ad[-1], ad[-1]), 8)
                slots[ad] = getv(ops[0]) if ops[0] in GPR64 else None
            keepfl = True
        elif mn == 'pop':
            ad = regs['rsp']
            v = slots.get(ad) if ad is not None else None
            regs['rsp'] = val_add(regs['rsp'], 8)
            setreg(ops[0], v)
            keepfl = True
        elif mn in ('pushf', 'pushfq'):
            regs['rsp'] = val_add(regs['rsp'], -8)
            ad = regs['rsp']
            if ad is not None and ad[0] in ('SP', 'F'):
                kill(('stack', ad[:-1], ad[-1], ad[-1]), 8)
                slots[ad] = ('FLAGS', st.df)
            keepfl = True
        elif mn in ('popf', 'popfq'):
            ad = regs['rsp']
            v = slots.get(ad) if ad is not None else None
            st.df = v[1] if (v is not None and v[0] == 'FLAGS') else 2
            regs['rsp'] = val_add(regs['rsp'], 8)
        elif mn == 'cld':
            st.df = 0
            keepfl = True
        elif mn == 'std':
            st.df = 1
            keepfl = True
        elif mn == 'leave':
            regs['rsp'] = regs['rbp']
            ad = regs['rsp']
            regs['rbp'] = slots.get(ad) if ad else None
            regs['rsp'] = val_add(regs['rsp'], 8)
        elif mn in ('mov', 'movzx', 'movabs', 'movsxd', 'movsx') and len(ops) == 2:
            d, s = ops
            md = parse_mem(d)
            ms = parse_mem(s)
            keepfl = True
            if md is not None:
                ad = memaddr(md)
                w = md['w'] or WID.get(s, 8)
                kill(ad, w)
                sv = getv(s) if s in SUB or parse_mem(s) is None else None
                if ad is not None and ad[0] == 'stack' and ad[2] == ad[3] and s in GPR64:
                    slots[ad[1] + (ad[2],)] = regs[s]
                record_store(ad, w, sv, 'mov')
            elif ms is not None:
                ad = memaddr(ms)
                v = None
                if d in GPR64 and mn == 'mov':
                    if ad is not None and ad[0] == 'stack' and ad[2] == ad[3]:
                        v = slots.get(ad[1] + (ad[2],))
                        if v is not None and v[0] == 'FLAGS':
                            v = None
                    elif ad is not None and ad[0] == 'ptr' and (ms['w'] in (None, 8)) and \
                            (ad[1][0] == 'E' or (ad[1][0] == 'L' and ad[1][1][0] == 'E')):
                        v = ('L', ad[1], ad[2], ad[3])
                        if ad[3] and st.mc:
                            # an indexed slot may hold a different pointer each time it is read: facts about cells reached
                            # through the previous value do not carry over
                            for k_ in [k_ for k_ in st.mc if k_[0] == v or (k_[0][0] == 'L' and k_[0][1] == v)]:
                                del st.mc[k_]
                if v is None and mn in ('mov', 'movzx'):
                    wsrc = ms['w'] or WID.get(d, 8)
                    if wsrc in (1, 2):
                        v = ('I', 0, (1 << (8 * wsrc)) - 1, 1)
                setreg(d, v)
            else:
                v = getv(s)
                if mn == 'movzx' and v is None and s in SUB:
                    v = ('I', 0, (1 << (8 * WID[s])) - 1, 1)
                if mn in ('movsx', 'movsxd'):
                    v = v if (v is not None and v[0] == 'I' and v[2] < (1 << (8 * WID.get(s, 8) - 1))) else None
                setreg(d, v if (d in GPR64 or (v is not None and v[0] == 'I')) else None)
        elif mn == 'lea' and len(ops) == 2:
            m = parse_mem(ops[1])
            v = None
            keepfl = True
            if m is not None and m['base'] in ('rip', 'eip'):
                v = ('G', ins.get('reloc', '?'))
            elif m is not None and m['disp'] is not None and m['base'] in GPR64:
                b = regs[m['base']]
                if m['index'] is None:
                    v = val_add(b, m['disp'])
                elif b is not None and b[0] in ('E', 'X') and not (regs.get(SUB.get(m['index'])) or ('?',))[0] in ('SP', 'F', 'E', 'X', 'L', 'G'):
                    v = ('X', b[1], (b[2] + m['disp']) if b[2] is not None else None)
                else:
                    iv = getv(m['index'])
                    if b is not None and b[0] == 'I' and iv is not None and iv[0] == 'I':
                        lo = b[1] + iv[1] * m['scale'] + m['disp']
                        hi = b[2] + iv[2] * m['scale'] + m['disp']
                        stv = gcd(b[3], iv[3] * m['scale'])
                        v = mkint(lo, hi, stv or 1) if 0 <= lo and hi <= M64 else None
                    elif b is not None and b[0] in ('SP', 'F') and iv is not None and iv[0] == 'I' and iv[1] == iv[2]:
                        v = val_add(b, m['disp'] + iv[1] * m['scale'])
            elif m is not None and m['disp'] is not None and m['base'] is None and m['index'] is not None:
                iv = getv(m['index'])
                if iv is not None and iv[0] == 'I':
                    lo = iv[1] * m['scale'] + m['disp']
                    hi = iv[2] * m['scale'] + m['disp']
                    v = mkint(lo, hi, (iv[3] * m['scale']) or 1) if 0 <= lo and hi <= M64 else None
            setreg(ops[0], v if ops[0] in GPR64 or (v is not None and v[0] == 'I') else None)
        elif mn in ('add', 'sub') and len(ops) == 2 and ops[0] in SUB:
            d = ops[0]
            p = SUB[d]
            cur = regs[p] if p == d or WID[d] == 4 else None
            if WID[d] == 4 and cur is not None and cur[0] != 'I':
                cur = None
            v = getv(ops[1]) if parse_mem(ops[1]) is None else None
            res = None
            if v is not None and v[0] == 'I' and cur is not None:
                if v[1] == v[2]:
                    k = v[1] if v[1] < (1 << 63) else v[1] - (1 << 64)
                    if WID[d] == 4 and (1 << 31) <= v[1] < (1 << 32):
                        k = v[1] - (1 << 32)
                    res = val_add(cur, k if mn == 'add' else -k)
                elif cur[0] == 'I' and mn == 'add':
                    res = mkint(cur[1] + v[1], cur[2] + v[2], gcd(cur[3], v[3]) or 1) if cur[2] + v[2] <= M64 else None
                elif cur[0] == 'I' and mn == 'sub' and cur[1] >= v[2]:
                    res = mkint(cur[1] - v[2], cur[2] - v[1], gcd(cur[3], v[3]) or 1)
            setreg(d, res)
            newfl = ('zero', p, None)
        elif mn in ('add', 'sub', 'or', 'and', 'xor', 'not', 'neg', 'inc', 'dec', 'shl', 'shr', 'sar', 'rol', 'ror', 'adc', 'sbb',
                    'xadd', 'bts', 'btr', 'btc') and ops and parse_mem(ops[0]) is not None:
            md = parse_mem(ops[0])
            ad = memaddr(md)
            w = md['w'] or (WID.get(ops[1], 8) if len(ops) > 1 else 8)
            kill(ad, w)
            imm = None
            if len(ops) > 1:
                iv = getv(ops[1]) if parse_mem(ops[1]) is None else None
                if iv is not None and iv[0] == 'I' and iv[1] == iv[2]:
                    imm = iv[1]
            record_store(ad, w, None, mn, imm)
            if mn == 'xadd' and len(ops) == 2 and ops[1] in SUB:
                setreg(ops[1], None)
        elif mn in ('inc', 'dec') and ops and ops[0] in SUB:
            d = ops[0]
            p = SUB[d]
            cur = regs[p] if (p == d or WID[d] == 4) else None
            setreg(d, val_add(cur, 1 if mn == 'inc' else -1) if cur is not None and cur[0] == 'I' else None)
            newfl = ('zero', p, None)
        elif mn == 'and' and len(ops) == 2 and ops[0] == 'rsp':
            regs['rsp'] = ('F', a, 0)
        elif mn == 'and' and len(ops) == 2 and ops[0] in SUB:
            v = getv(ops[1]) if parse_mem(ops[1]) is None else None
            cur = getv(ops[0])
            if v is not None and v[0] == 'I' and v[1] == v[2] and v[2] < (1 << 63):
                m_ = v[2]
                low = (m_ & -m_) if m_ else 0
                setreg(ops[0], mkint(0, m_, low or 1))
            elif cur is not None and cur[0] == 'I':
                setreg(ops[0], mkint(0, cur[2], 1))
            else:
                setreg(ops[0], None)
            newfl = ('zero', SUB[ops[0]], None)
        elif mn == 'shr' and len(ops) == 2 and ops[0] in SUB:
            cur = getv(ops[0])
            v = getv(ops[1])
            if v is not None and v[0] == 'I' and v[1] == v[2] and v[1] < 64:
                if cur is not None and cur[0] == 'I':
                    setreg(ops[0], mkint(cur[1] >> v[1], cur[2] >> v[1], 1))
                else:
                    setreg(ops[0], mkint(0, ((1 << (8 * WID[ops[0]])) - 1) >> v[1], 1))
            else:
                setreg(ops[0], None)
            newfl = ('zero', SUB[ops[0]], None)
        elif mn == 'shl' and len(ops) == 2 and ops[0] in SUB:
            cur = getv(ops[0])
            v = getv(ops[1])
            if cur is not None and cur[0] == 'I' and v is not None and v[0] == 'I' and v[1] == v[2] and v[1] < 32 and \
                    (cur[2] << v[1]) < (1 << (8 * WID[ops[0]])):
                setreg(ops[0], mkint(cur[1] << v[1], cur[2] << v[1], (cur[3] << v[1]) or 1))
            else:
                setreg(ops[0], None)
        elif mn in ('xor', 'sub') and len(ops) == 2 and ops[0] == ops[1] and ops[0] in SUB:
            if WID[ops[0]] >= 4:
                regs[SUB[ops[0]]] = ('I', 0, 0, 0)
            else:
                regs[SUB[ops[0]]] = None
        elif mn == 'cmp' and len(ops) == 2:
            if ops[0] in SUB and (SUB[ops[0]] == ops[0] or WID[ops[0]] == 4) and parse_mem(ops[1]) is None:
                v = getv(ops[1])
                if WID[ops[0]] == 4:
                    cur = regs[SUB[ops[0]]]
                    if not (cur is not None and cur[0] == 'I' and cur[2] < (1 << 32)):
                        v = None
                newfl = ('cmp', SUB[ops[0]], v) if v is not None else None
            elif parse_mem(ops[0]) is not None and parse_mem(ops[1]) is None:
                m0 = parse_mem(ops[0])
                ad = memaddr(m0)
                v = getv(ops[1])
                if ad is not None and ad[0] == 'ptr' and not ad[3] and ad[2] is not None and (m0['w'] in (4, 8)) and \
                        v is not None and v[0] == 'I' and v[1] == v[2] and v[1] < (1 << 31):
                    newfl = ('cmpm', (ad[1], ad[2]), v)
        elif mn in ('test', 'or', 'and') and len(ops) == 2 and ops[0] == ops[1] and ops[0] in GPR64:
            newfl = ('zero', ops[0], None)
        elif mn == 'test' and len(ops) == 2 and re.match(r'^(0x[0-9a-f]+|\d+)$', ops[1]) and int(ops[1], 0) < (1 << 31):
            # bit test of a tracked memory cell (directly, or through a register holding its loaded value)
            key_ = None
            m0 = parse_mem(ops[0])
            if m0 is not None:
                ad = memaddr(m0)
                if ad is not None and ad[0] == 'ptr' and not ad[3] and ad[2] is not None:
                    key_ = (ad[1], ad[2])
            elif ops[0] in SUB:
                cur = regs[SUB[ops[0]]]
                if cur is not None and cur[0] == 'L' and not cur[3] and cur[2] is not None:
                    key_ = (cur[1], cur[2])
            if key_ is not None:
                newfl = ('testm', key_, int(ops[1], 0))
        elif mn == 'test' and len(ops) == 2 and ops[0] == ops[1] and ops[0] in SUB and WID[ops[0]] == 4:
            cur = regs[SUB[ops[0]]]
            if cur is not None and cur[0] == 'I' and cur[2] < (1 << 32):
                newfl = ('zero', SUB[ops[0]], None)
        elif mn == 'xchg' and len(ops) == 2:
            a0, a1 = ops
            if a0 in GPR64 and a1 in GPR64:
                regs[a0], regs[a1] = regs[a1], regs[a0]
            else:
                for o in (a0, a1):
                    if o in SUB:
                        regs[SUB[o]] = None
                    else:
                        md = parse_mem(o)
                        ad = memaddr(md)
                        kill(ad, 8)
                        record_store(ad, (md or {}).get('w') or 8, None, 'xchg')
        elif mn in ('cmpxchg', 'cmpxchg8b', 'cmpxchg16b'):
            md = parse_mem(ops[0]) if ops else None
            if md is not None:
                ad = memaddr(md)
                kill(ad, md['w'] or 8)
                record_store(ad, md['w'] or 8, None, 'lock cmpxchg' if ins.get('lock') else 'cmpxchg')
            regs['rax'] = None
            if mn != 'cmpxchg':
                regs['rdx'] = None
        elif mn in NOWRITE:
            keepfl = mn in ('nop', 'endbr64', 'prefetchw', 'prefetcht0', 'prefetcht1', 'prefetcht2', 'prefetchnta', 'sfence',
                            'lfence', 'mfence', 'vzeroupper', 'vzeroall', 'pause')
        else:
            if ops:
                d = ops[0]
                if d in SUB:
                    if WID[d] >= 4:
                        setreg(d, None)
                    else:
                        regs[SUB[d]] = None
                else:
                    md = parse_mem(d)
                    if md is not None and mn not in NOVECWRITE or (md is not None and mn in ('pextrb', 'pextrw', 'pextrd', 'pextrq', 'vpextrb', 'vpextrw', 'vpextrd', 'vpextrq', 'extractps', 'vextractps')):
                        ad = memaddr(md)
                        w = md['w'] or 64
                        kill(ad, w)
                        srcs = [vnum(o) for o in ops[1:] if vnum(o) is not None]
                        kind = 'vec' if srcs else mn
                        sv = None
                        if srcs and (mn in MOVRR or mn.startswith(('movd', 'movq', 'vmovd', 'vmovq'))) and all(x not in st.v for x in srcs):
                            sv = ('I', 0, 0, 0)
                        record_store(ad, w, sv, kind)
                if len(ops) > 1 and mn in ('pextrb', 'pextrw', 'pextrd', 'pextrq', 'vpextrb', 'vpextrw', 'vpextrd', 'vpextrq',
                                           'movd', 'movq', 'vmovd', 'vmovq', 'pmovmskb', 'vpmovmskb', 'movmskps', 'kmovw',
                                           'kmovq', 'kmovd', 'kmovb'):
                    pass
            if mn in ('mul', 'imul', 'div', 'idiv') and len(ops) == 1:
                regs['rax'] = None
                regs['rdx'] = None
            if mn == 'mulx' and len(ops) >= 2 and ops[1] in SUB:
                regs[SUB[ops[1]]] = None
            if mn in ('cdq', 'cqo', 'cwd'):
                regs['rdx'] = None
            if mn in ('cdqe', 'cwde', 'cbw'):
                regs['rax'] = None
            if mn == 'cpuid':
                for r in ('rax', 'rbx', 'rcx', 'rdx'):
                    regs[r] = None
            if mn in ('xgetbv', 'rdtsc', 'rdtscp'):
                regs['rax'] = None
                regs['rdx'] = None
                if mn == 'rdtscp':
                    regs['rcx'] = None
            if mn.startswith('rep_') or mn in ('stos', 'movs', 'lods', 'scas', 'cmps', 'stosb', 'stosw', 'stosd', 'stosq', 'movsb',
                                                'movsw', 'movsq', 'lodsb', 'lodsq', 'scasb', 'cmpsb'):
                for r in ('rcx', 'rdi', 'rsi'):
                    regs[r] = None
                if 'lods' in mn or 'scas' in mn:
                    regs['rax'] = None
                st.mz = frozenset()
                if st.df != 0 and collect:
                    notes.append(('string-op-df', a, mn, st.df))
            if mn in ('pcmpestri', 'pcmpistri', 'vpcmpestri', 'vpcmpistri'):
                regs['rcx'] = None
            if mn[0] in 'vpk' or mn.startswith(('aes', 'sha', 'movdq', 'movap', 'movup', 'movh', 'movl', 'movs', 'gf2p8', 'pclmul',
                                                'shuf', 'unpck', 'xorp', 'andp', 'orp', 'addp', 'insertps', 'blend', 'cvt')) or \
                    mn in ('movd', 'movq', 'bswap', 'not', 'movbe', 'crc32', 'lzcnt', 'tzcnt', 'popcnt') or mn.startswith(('cmov', 'set')):
                keepfl = True
            if mn in ('lzcnt', 'tzcnt', 'popcnt', 'crc32', 'bsf', 'bsr'):
                keepfl = False
        if newfl is not None:
            st.fl = newfl
        elif not keepfl:
            st.fl = None
        if st.fl is not None and newfl is None and mn not in ('cmp', 'test', 'push') and ops and ops[0] in SUB and SUB[ops[0]] == st.fl[1]:
            st.fl = None
        if st.fl is not None and newfl is None and mn == 'pop' and ops and SUB.get(ops[0]) == st.fl[1]:
            st.fl = None
        if st.fl is not None and newfl is None and mn == 'xchg':
            st.fl = None
        flow(nxt, st)

    res = FuncResult(name=name, entry=entry, issues=issues, calls={k: v[:8] for k, v in calls.items()}, exits=exits,
                     ninsn=len(states), assumed=sorted(assumed), stores=stores, notes=notes, special=special, zstack=zstack)
    if collect:
        res['addrs'] = None
    return res


def written_gprs(entry, insns):
    """(set of 64-bit GPRs possibly written by instructions reachable from entry without following calls, set of direct callees)"""
    w = set()
    callees = set()
    for a in reachable_insns(entry, insns):
        i = insns[a]
        mn = i['mn']
        ops = split_ops(i['ops'])
        if mn == 'call' or (mn == 'jmp' and 'reloc' in i):
            tgt = i.get('reloc')
            if tgt is None and ops:
                t = ops[0].split()
                tgt = re.sub(r'\+0x.*$', '', t[1].strip('<>')) if len(t) > 1 else '?'
            callees.add(tgt)
            continue
        if mn in NOWRITE or mn in JCC or mn in ('jmp', 'ret', 'rep_ret', 'retq', 'push', 'pushf', 'pushfq', 'popf', 'popfq'):
            continue
        if mn == 'pop':
            if ops and ops[0] in SUB:
                w.add(SUB[ops[0]])
            continue
        if ops and ops[0] in SUB:
            w.add(SUB[ops[0]])
        if mn in ('xchg', 'xadd', 'mulx', 'cmpxchg') and len(ops) > 1 and ops[1] in SUB:
            w.add(SUB[ops[1]])
        if mn in ('mul', 'imul', 'div', 'idiv') and len(ops) == 1:
            w.update(('rax', 'rdx'))
        if mn in ('cmpxchg', 'cmpxchg8b', 'cmpxchg16b', 'lahf', 'cbw', 'cwde', 'cdqe', 'xlat', 'xlatb', 'in', 'lodsb', 'lodsw', 'lodsd', 'lodsq'):
            w.add('rax')
        if mn in ('cmpxchg8b', 'cmpxchg16b', 'cwd', 'cdq', 'cqo', 'rdtsc', 'rdtscp', 'xgetbv'):
            w.update(('rax', 'rdx'))
        if mn == 'rdtscp':
            w.add('rcx')
        if mn == 'cpuid':
            w.update(('rax', 'rbx', 'rcx', 'rdx'))
        if mn.startswith('rep_') or mn in ('stosb', 'stosw', 'stosd', 'stosq', 'movsb', 'movsw', 'movsq', 'scasb', 'cmpsb', 'loop', 'loope', 'loopne'):
            w.update(('rcx', 'rsi', 'rdi'))
            if 'lods' in mn or 'scas' in mn:
                w.add('rax')
        if mn in ('pcmpestri', 'pcmpistri', 'vpcmpestri', 'vpcmpistri'):
            w.add('rcx')
        if mn in ('enter', 'leave'):
            w.add('rbp')
    w.discard('rsp')
    return w, callees


def thresholds_for(insns):
    th = set()
    for i in insns.values():
        if i['mn'] == 'cmp':
            o = split_ops(i['ops'])
            if len(o) == 2 and re.match(r'^(0x[0-9a-f]+|\d+)$', o[1]):
                c = int(o[1], 0)
                if c < (1 << 31):
                    th.update((c - 1, c, c + 1))
    return sorted(x for x in th if x >= 0)


def reachable_insns(entry, insns):
    """addresses reachable from entry through direct control flow (no calls followed)"""
    seen = set()
    st = [entry]
    while st:
        a = st.pop()
        if a in seen or a not in insns:
            continue
        seen.add(a)
        i = insns[a]
        mn = i['mn']
        if mn in ('ret', 'rep_ret', 'retq'):
            continue
        if mn == 'jmp':
            if 'reloc' in i:
                continue
            try:
                st.append(int(i['ops'].split()[0], 16))
            except (ValueError, IndexError):
                pass
            continue
        if mn in JCC:
            try:
                st.append(int(i['ops'].split()[0], 16))
            except (ValueError, IndexError):
                pass
        if i['next'] is not None:
            st.append(i['next'])
    return seen
