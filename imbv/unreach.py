"""Unreachable code in the assembled units: instructions of an object's executable sections that no path from any global entry point
reaches (direct jumps, conditional jumps, calls and fall-through followed; indirect jumps end a path).  A dropped `jmp label`, a branch
retargeted to the wrong label or a case label cut out of a dispatch chain leaves the code of that case behind as dead bytes.  Counted per
unit, alignment padding (nop / int3 / multi-byte nop) excluded; compared with the reference tree's count by rules/clones.rule_unreachable.
Nothing is executed: the disassembly of the objects NASM produced is read."""
import json
import os
import re
import subprocess
from concurrent.futures import ThreadPoolExecutor

from . import build

_INS = re.compile(r'^\s*([0-9a-f]+):\s+(\S.*)$')
_SYM = re.compile(r'^([0-9a-f]+) <([^>]+)>:$')
_PAD = re.compile(r'^(nop|int3|xchg\s+ax,ax|data16|cs nop|nopw?|nopl?)\b')
_JMP = re.compile(r'^(j[a-z]+|loop\w*|jrcxz|jecxz)\s+([0-9a-f]+)\b')
_CALL = re.compile(r'^call\s+([0-9a-f]+)\b')


def _analyse(obj):
    syms = subprocess.run(['readelf', '-sW', obj], capture_output=True, text=True).stdout
    secs = subprocess.run(['readelf', '-SW', obj], capture_output=True, text=True).stdout
    exec_secs = {}
    for l in secs.splitlines():
        m = re.match(r'^\s*\[\s*(\d+)\]\s+(\S+)\s+PROGBITS\s+\S+\s+\S+\s+\S+\s+\S+\s+(\S*)', l)
        if m and 'X' in m.group(3):
            exec_secs[int(m.group(1))] = m.group(2)
    entries = {}
    for l in syms.splitlines():
        f = l.split()
        if len(f) >= 8 and f[6].isdigit() and int(f[6]) in exec_secs and f[4] == 'GLOBAL':
            entries.setdefault(int(f[6]), set()).add(int(f[1], 16))
    total_dead = 0
    dead_where = []
    for si, sname in exec_secs.items():
        dis = subprocess.run(['objdump', '-d', '-M', 'intel', '--no-show-raw-insn', '-j', sname, obj], capture_output=True, text=True).stdout
        ins = {}
        order = []
        labels = {}
        cur = None
        for l in dis.splitlines():
            m = _SYM.match(l)
            if m:
                cur = m.group(2)
                labels[int(m.group(1), 16)] = cur
                continue
            m = _INS.match(l)
            if m:
                a = int(m.group(1), 16)
                ins[a] = m.group(2).strip()
                order.append(a)
        if not order:
            continue
        nxt = {order[i]: order[i + 1] for i in range(len(order) - 1)}
        seen = set()
        st = [a for a in entries.get(si, ()) if a in ins]
        while st:
            a = st.pop()
            while a is not None and a not in seen and a in ins:
                seen.add(a)
                t = ins[a]
                m = _JMP.match(t)
                if m:
                    tgt = int(m.group(2), 16)
                    if tgt in ins and tgt not in seen:
                        st.append(tgt)
                    if t.startswith('jmp'):
                        break
                    a = nxt.get(a)
                    continue
                m = _CALL.match(t)
                if m:
                    tgt = int(m.group(1), 16)
                    if tgt in ins and tgt not in seen:
                        st.append(tgt)
                    a = nxt.get(a)
                    continue
                if re.match(r'^(ret|jmp|ud2|hlt)\b', t):
                    break
                a = nxt.get(a)
        # alignment padding in code: NASM (smartalign) emits `jmp <aligned address>` followed by nops when the gap is large
        padjmp = set()
        for a in order:
            if a in seen:
                continue
            m = re.match(r'^jmp\s+([0-9a-f]+)\b', ins[a])
            if not m:
                continue
            tgt = int(m.group(1), 16)
            if not (a < tgt <= a + 128):
                continue
            b = nxt.get(a)
            ok = True
            while b is not None and b < tgt:
                if not _PAD.match(ins[b]):
                    ok = False
                    break
                b = nxt.get(b)
            if ok:
                padjmp.add(a)
        lab = None
        for a in order:
            if a in labels:
                lab = labels[a]
            if a not in seen and a not in padjmp and not _PAD.match(ins[a]):
                total_dead += 1
                if len(dead_where) < 12 and (not dead_where or dead_where[-1][0] != lab):
                    dead_where.append((lab, '%x' % a, ins[a][:60]))
    return {'dead': total_dead, 'where': dead_where}


def unreachable():
    """{asm source relative to the tree: {'dead': n, 'where': [(label, address, instruction)]}}"""
    ents = build.asm_entries()
    cdir = build.CACHE_ROOT.rstrip('/') + '-unreach'
    use = build.use_cache()
    if use:
        os.makedirs(cdir, exist_ok=True)
    res, todo = {}, []
    for e in ents:
        rel = os.path.relpath(e['file'], build.REPO)
        p = os.path.join(cdir, build.asm_source_key(e) + '.json')
        if use and os.path.exists(p):
            try:
                res[rel] = json.load(open(p))
                continue
            except ValueError:
                pass
        todo.append((e, rel, p))
    if todo:
        objs = build.assemble([e for e, _, _ in todo], tag='unreach')
        with ThreadPoolExecutor(build.NPROC) as ex:
            outs = list(ex.map(lambda t: _analyse(objs[t[0]['file']]), todo))
        for (e, rel, p), t in zip(todo, outs):
            res[rel] = t
            if use:
                tmp = p + '.%d' % os.getpid()
                json.dump(t, open(tmp, 'w'))
                os.replace(tmp, p)
        for o in objs.values():
            try:
                os.remove(o)
            except OSError:
                pass
    return res


if __name__ == '__main__':
    r = unreachable()
    print(sum(v['dead'] for v in r.values()), sum(1 for v in r.values() if v['dead']))
    for k, v in sorted(r.items()):
        if v['dead']:
            print(v['dead'], k, v['where'][:3])
