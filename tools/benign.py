#!/usr/bin/env python3
"""False-alarm test (not part of any verdict): applies each behaviour-preserving patch from tools/benign/*.diff (or the
patch files / directories given) to a scratch copy of /repo under /var/tmp and runs EVERY registered check against it with
IMBV_REPO.  Every check must exit 0.
usage: tools/benign.py [patch-or-dir ...] [--checks C01,C05]"""
import json, os, shutil, subprocess, sys, tempfile, glob, concurrent.futures

VERIF = os.path.dirname(os.path.dirname(os.path.abspath(__file__)))
REPO = '/repo'


def copy_repo(d):
    os.makedirs(d)
    for sub in ('lib', 'cmake', 'CMakeLists.txt', 'test', 'perf', 'examples'):
        src = os.path.join(REPO, sub)
        if os.path.isdir(src):
            shutil.copytree(src, os.path.join(d, sub))
        elif os.path.exists(src):
            shutil.copy(src, os.path.join(d, sub))


def main():
    args = sys.argv[1:]
    checks = None
    if '--checks' in args:
        i = args.index('--checks')
        checks = args[i + 1].split(',')
        del args[i:i + 2]
    if not checks:
        checks = [c['property_id'] for c in json.load(open(os.path.join(VERIF, 'MANIFEST.json')))['checks']]
    patches = []
    for a in args or [os.path.join(VERIF, 'tools', 'benign')]:
        if os.path.isdir(a):
            patches += sorted(glob.glob(os.path.join(a, '*.diff')))
        else:
            patches.append(a)
    base = tempfile.mkdtemp(prefix='imbv_benign.', dir='/var/tmp')
    alarms = 0
    try:
        for p in patches:
            d = os.path.join(base, 'repo')
            shutil.rmtree(d, ignore_errors=True)
            copy_repo(d)
            rp = subprocess.run(['patch', '-p1', '-s', '-d', d, '-i', os.path.abspath(p)], capture_output=True, text=True)
            if rp.returncode != 0:
                print('BENIGN-BROKEN %s: patch does not apply: %s' % (p, rp.stdout[-300:]))
                alarms += 1
                continue
            env = dict(os.environ, IMBV_REPO=d, IMBV_EVIDENCE_DIR=os.path.join(base, 'ev'))
            # first check alone (fills the fact cache), the rest in parallel
            res = {}

            def run(c):
                r = subprocess.run([os.path.join(VERIF, 'check'), c], capture_output=True, text=True, env=env, cwd=VERIF)
                return c, r.returncode, r.stdout + r.stderr
            first = ['C18'] if 'C18' in checks else checks[:1]
            for c in first:
                c, rc, out = run(c)
                res[c] = (rc, out)
            with concurrent.futures.ThreadPoolExecutor(6) as ex:
                for c, rc, out in ex.map(run, [c for c in checks if c not in res]):
                    res[c] = (rc, out)
            bad = {c: v for c, v in res.items() if v[0] != 0}
            print('%-8s %s %s' % ('silent' if not bad else 'ALARM', os.path.relpath(p, VERIF) if p.startswith(VERIF) else p,
                                  ' '.join('%s(exit %d)' % (c, v[0]) for c, v in sorted(bad.items()))))
            for c, (rc, out) in sorted(bad.items()):
                alarms += 1
                lines = [l for l in out.splitlines() if 'VIOLATION' in l or 'BROKEN' in l or ': [' in l or 'Error' in l or 'Traceback' in l]
                print('   ' + '\n   '.join(lines[:12]))
            sys.stdout.flush()
    finally:
        shutil.rmtree(base, ignore_errors=True)
        # drop the fact-cache entries created for the scratch copies
    print('benign: %d patches x %d checks, %d alarms' % (len(patches), len(checks), alarms))
    return 1 if alarms else 0


if __name__ == '__main__':
    sys.exit(main())
