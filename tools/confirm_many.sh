#!/bin/sh
# usage: tools/confirm_many.sh ID...   — runs tools/confirm_seed.sh for each id in turn (log: seeded/<ID>/confirm.log)
V=$(cd "$(dirname "$0")/.." && pwd)
for id in "$@"; do "$V/tools/confirm_seed.sh" "$id"; done
