#!/usr/bin/env python3
"""Probe the checks with candidate regressions (not part of any verdict): every entry of the given JSON files
({"property","name","why","edits":[{"file","old","new"}]}) is applied to a scratch copy of /repo and the check of its property
(or the checks given with --checks) is run against it.  Prints which rules fire.  usage: tools/probe.py [--checks C01,C02] [-j N] files..."""
import json, os, re, shutil, subprocess, sys, tempfile
from concurrent.futures import ThreadPoolExecutor

VERIF = os.path.dirname(os.path.dirname(os.path.abspath(__file__)))
REPO = '/repo'


def run_one(arg):
    idx, m, checks, base = arg
    d = os.path.join(base, 'r%d' % idx, 'repo')
    os.makedirs(d)
    for sub in ('lib', 'cmake', 'CMakeLists.txt', 'test', 'perf', 'examples'):
        src = os.path.join(REPO, sub)
        if os.path.isdir(src):
            shutil.copytree(src, os.path.join(d, sub))
        elif os.path.exists(src):
            shutil.copy(src, os.path.join(d, sub))
    for ed in m.get('edits', []):
        p = os.path.join(d, ed['file'])
        try:
            s = open(p).read()
        except OSError:
            return idx, m, 'NOAPPLY', 'no file ' + ed['file']
        if s.count(ed['old']) != 1:
            return idx, m, 'NOAPPLY', 'pattern occurs %d times in %s' % (s.count(ed['old']), ed['file'])
        open(p, 'w').write(s.replace(ed['old'], ed['new']))
    res = []
    for c in checks or [m['property']]:
        env = dict(os.environ, IMBV_REPO=d, IMBV_EVIDENCE_DIR=os.path.join(base, 'ev%d' % idx))
        r = subprocess.run([os.path.join(VERIF, 'check'), c], capture_output=True, text=True, env=env, cwd=VERIF)
        rules = sorted(set(re.findall(r'\[([A-Z][A-Za-z0-9.]*)\]', '\n'.join(l for l in r.stdout.splitlines() if 'VIOL' in l or l.startswith('  ')))))
        if r.returncode == 1:
            res.append('%s:caught%s' % (c, rules))
        elif r.returncode == 0:
            res.append('%s:silent' % c)
        else:
            res.append('%s:BROKEN(%s)' % (c, (r.stdout.strip().splitlines() or [''])[-1][:160]))
    shutil.rmtree(os.path.join(base, 'r%d' % idx), ignore_errors=True)
    return idx, m, 'RAN', ' '.join(res)


def main():
    args = sys.argv[1:]
    checks, j, files = None, 4, []
    while args:
        a = args.pop(0)
        if a == '--checks':
            checks = args.pop(0).split(',')
        elif a == '-j':
            j = int(args.pop(0))
        else:
            files.append(a)
    ms = []
    for f in files:
        ms += json.load(open(f))
    base = tempfile.mkdtemp(prefix='imbv_probe.', dir='/var/tmp')
    try:
        with ThreadPoolExecutor(j) as ex:
            for idx, m, st, txt in ex.map(run_one, [(i, m, checks, base) for i, m in enumerate(ms)]):
                print('%-8s %-4s %-90s %s' % (st, m.get('property'), m['name'][:90], txt), flush=True)
    finally:
        shutil.rmtree(base, ignore_errors=True)


if __name__ == '__main__':
    main()
