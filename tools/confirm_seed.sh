#!/bin/sh
# usage: tools/confirm_seed.sh <ID>   — re-confirms a seeded change in a scratch worktree of /repo:
# clean build, mutated build, full ctest on the mutated build, demo on both; log in seeded/<ID>/confirm.log
ID=$1
V=$(cd "$(dirname "$0")/.." && pwd)
W=/tmp/wt/confirm_$ID
LOG=$V/seeded/$ID/confirm.log
rm -rf $W; git -C /repo worktree prune
git -C /repo worktree add -q --detach $W HEAD || exit 2
{
echo "== confirm $ID at $(git -C /repo rev-parse --short HEAD) $(date -u +%FT%TZ)"
cd $W
cmake -G Ninja -B _build_clean -DCMAKE_BUILD_TYPE=Release >/dev/null && cmake --build _build_clean -j6 >/dev/null 2>&1 && echo "clean build ok"
(git apply $V/seeded/$ID/patch.diff || patch -p1 -s < $V/seeded/$ID/patch.diff) && echo "patch applied"
cmake -G Ninja -B _build -DCMAKE_BUILD_TYPE=Release >/dev/null && cmake --build _build -j6 >/dev/null 2>&1 && echo "mutated build ok"
ctest --test-dir _build -j6 --timeout 900 2>&1 | tail -n 4
cp -r $V/seeded/$ID/demo $W/demo
RUN=$(ls demo/run.sh 2>/dev/null)
if [ -n "$RUN" ]; then
  sh demo/run.sh $W/_build_clean > demo_clean.out 2>&1; echo "demo on clean build: exit $?"
  sh demo/run.sh $W/_build > demo_mut.out 2>&1; echo "demo on mutated build: exit $?"
  tail -n 3 demo_mut.out
fi
} > $LOG 2>&1
cd /; git -C /repo worktree remove --force $W
