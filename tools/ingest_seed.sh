#!/bin/sh
# usage: tools/ingest_seed.sh <worktree> <seed id> <check> "<one-line name>"   — copies patch.diff + demo/ into seeded/<id>/, registers it in
# tools/mutants/seeds.json (expect "" = any rule of <check>) and runs the self-test on it
W=$1; ID=$2; CHK=$3; NAME=$4
V=$(cd "$(dirname "$0")/.." && pwd)
mkdir -p $V/seeded/$ID
cp $W/patch.diff $V/seeded/$ID/patch.diff
rm -rf $V/seeded/$ID/demo; cp -r $W/demo $V/seeded/$ID/demo
rm -f $V/seeded/$ID/demo/demo_bin $V/seeded/$ID/demo/*.o $V/seeded/$ID/demo/demo $V/seeded/$ID/demo/a.out
python3 - "$V" "$ID" "$CHK" "$NAME" <<'P'
import json,sys
V,ID,CHK,NAME=sys.argv[1:5]
p=V+'/tools/mutants/seeds.json'
d=json.load(open(p))
d=[x for x in d if x.get('patch')!='seeded/%s/patch.diff'%ID]
d.append({"name":"seed %s: %s (%s)"%(ID,NAME,CHK),"check":CHK,"kind":"mutant","expect":"","patch":"seeded/%s/patch.diff"%ID})
json.dump(d,open(p,'w'),indent=1)
P
$V/tools/selftest.py "seed $ID:" 2>&1 | grep -v "^WARNING" | tail -n 12 | cut -c1-260
