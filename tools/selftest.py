#!/usr/bin/env python3
"""Checker self-test (not part of any verdict): applies each mutant / refactoring from tools/mutants/*.json to a scratch
copy of /repo (outside /repo and /verif, removed afterwards) and runs the named check against it with IMBV_REPO.
mutants must give exit 1 + VIOLATION naming the expected rule; refactorings must give exit 0.
usage: tools/selftest.py [name-substring ...]"""
import json, os, shutil, subprocess, sys, tempfile, glob

VERIF = os.path.dirname(os.path.dirname(os.path.abspath(__file__)))
REPO = '/repo'


def load():
    out = []
    for p in sorted(glob.glob(os.path.join(VERIF, 'tools', 'mutants', '*.json'))):
        with open(p) as f:
            for m in json.load(f):
                m['_file'] = os.path.basename(p)
                out.append(m)
    return out


def main():
    sel = sys.argv[1:]
    ms = [m for m in load() if not sel or any(s in m['name'] or s == m['check'] for s in sel)]
    base = tempfile.mkdtemp(prefix='imbv_selftest.', dir='/var/tmp')
    fails = 0
    try:
        for m in ms:
            d = os.path.join(base, 'repo')
            shutil.rmtree(d, ignore_errors=True)
            os.makedirs(d)
            for sub in ('lib', 'cmake', 'CMakeLists.txt'):
                src = os.path.join(REPO, sub)
                if os.path.isdir(src):
                    shutil.copytree(src, os.path.join(d, sub))
                else:
                    shutil.copy(src, os.path.join(d, sub))
            # test/perf/examples dirs are referenced by the top-level CMakeLists: provide them
            for sub in ('test', 'perf', 'examples'):
                if os.path.isdir(os.path.join(REPO, sub)):
                    shutil.copytree(os.path.join(REPO, sub), os.path.join(d, sub))
            ok_apply = True
            if m.get('patch'):
                rp = subprocess.run(['patch', '-p1', '-s', '-d', d, '-i', os.path.join(VERIF, m['patch'])], capture_output=True, text=True)
                if rp.returncode != 0:
                    print('SELFTEST-BROKEN %s: patch does not apply: %s' % (m['name'], rp.stdout[-300:]))
                    fails += 1
                    continue
            for ed in m.get('edits', []):
                p = os.path.join(d, ed['file'])
                s = open(p).read()
                if s.count(ed['old']) != ed.get('count', 1):
                    print('SELFTEST-BROKEN %s: pattern occurs %d times in %s' % (m['name'], s.count(ed['old']), ed['file']))
                    ok_apply = False
                    break
                s = s.replace(ed['old'], ed['new'])
                open(p, 'w').write(s)
            if not ok_apply:
                fails += 1
                continue
            env = dict(os.environ, IMBV_REPO=d, IMBV_EVIDENCE_DIR=os.path.join(base, 'ev'))
            r = subprocess.run([os.path.join(VERIF, 'check'), m['check']], capture_output=True, text=True, env=env, cwd=VERIF)
            out = r.stdout
            if m['kind'] == 'mutant':
                hit = r.returncode == 1 and 'VIOLATION property=%s' % m['check'] in out and \
                    (not m.get('expect') or any(('[%s]' % m['expect']) in l for l in out.splitlines()))
                import re as _re
                rules = sorted(set(_re.findall(r': \[([A-Za-z0-9.]+)\]', out)))
                print('%-7s %-6s %-50s %s' % ('caught' if hit else 'MISSED', m['check'], m['name'], ('[%s]' % ','.join(rules)) if hit else '(exit %d)' % r.returncode))
                if not hit:
                    fails += 1
                    print('\n'.join(out.splitlines()[-6:]))
            elif m['kind'] == 'known-miss':
                # a confirmed breaking change that no rule decides (documented in DESIGN.md); reported, not counted as unexpected
                print('%-7s %-6s %-50s' % ('missed*' if r.returncode == 0 else 'CAUGHT?', m['check'], m['name']))
            else:
                ok = r.returncode == 0
                print('%-7s %-6s %-50s %s' % ('silent' if ok else 'ALARM', m['check'], m['name'], '' if ok else '(exit %d)' % r.returncode))
                if not ok:
                    fails += 1
                    print('\n'.join(l for l in out.splitlines() if 'VIOLATION' in l or 'BROKEN' in l or ': [' in l)[:2000])
    finally:
        shutil.rmtree(base, ignore_errors=True)
    print('selftest: %d cases, %d unexpected' % (len(ms), fails))
    return 1 if fails else 0


if __name__ == '__main__':
    sys.exit(main())
