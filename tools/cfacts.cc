// cfacts: libTooling fact extractor for the intel-ipsec-mb static checks.
// One JSON object per TU on stdout: enums, records (layout), globals, tables, function
// declarations, and per function definition the clang CFG with, per block, the ordered list of
// "events" (calls, assignments, ++/--, returns, local initialisers) carrying full expression trees.
// Works on the type-checked AST only.
#include "clang/AST/RecursiveASTVisitor.h"
#include "clang/AST/RecordLayout.h"
#include "clang/AST/ParentMapContext.h"
#include "clang/Analysis/CFG.h"
#include "clang/Frontend/CompilerInstance.h"
#include "clang/Frontend/FrontendActions.h"
#include "clang/Lex/Lexer.h"
#include "clang/Tooling/CommonOptionsParser.h"
#include "clang/Tooling/Tooling.h"
#include "llvm/Support/JSON.h"
#include <set>
using namespace clang;
using namespace clang::tooling;
namespace json = llvm::json;
static llvm::cl::OptionCategory Cat("cfacts");
static llvm::cl::opt<std::string> PathFilter("path-prefix", llvm::cl::desc("only decls located under prefix"),
                                             llvm::cl::init("/repo/lib"), llvm::cl::cat(Cat));
static llvm::cl::opt<std::string> OutFile("o", llvm::cl::desc("output file"), llvm::cl::init("-"), llvm::cl::cat(Cat));

struct Ctx {
  ASTContext &C;
  const SourceManager &SM;
  Ctx(ASTContext &c) : C(c), SM(c.getSourceManager()) {}
  std::string fmt(SourceLocation L) {
    PresumedLoc P = SM.getPresumedLoc(L);
    if (P.isInvalid()) return "?";
    return std::string(P.getFilename()) + ":" + std::to_string(P.getLine());
  }
  std::string loc(SourceLocation L) { return fmt(SM.getExpansionLoc(L)); }
  std::string spell(SourceLocation L) { return fmt(SM.getSpellingLoc(L)); }
  // name of the outermost macro this location was expanded from ("" if none)
  std::string macro(SourceLocation L) {
    if (!L.isMacroID()) return "";
    std::string last;
    while (L.isMacroID()) {
      StringRef n = Lexer::getImmediateMacroName(L, SM, C.getLangOpts());
      last = n.str();
      if (SM.isMacroArgExpansion(L)) L = SM.getImmediateExpansionRange(L).getBegin();
      else L = SM.getImmediateExpansionRange(L).getBegin();
    }
    return last;
  }
  std::string text(const Stmt *S, unsigned lim = 240) {
    if (!S) return "";
    std::string s;
    llvm::raw_string_ostream os(s);
    S->printPretty(os, nullptr, PrintingPolicy(C.getLangOpts()));
    os.flush();
    for (auto &ch : s)
      if (ch == '\n') ch = ' ';
    if (s.size() > lim) s.resize(lim);
    return s;
  }
  bool inScope(SourceLocation L) {
    L = SM.getExpansionLoc(L);
    PresumedLoc P = SM.getPresumedLoc(L);
    if (P.isInvalid()) return false;
    return llvm::StringRef(P.getFilename()).startswith(PathFilter);
  }
};

static std::string tyStr(QualType T) { return T.getAsString(); }

// full expression tree
static json::Value ex(Ctx &X, const Expr *E, int depth = 0) {
  if (!E) return nullptr;
  json::Object o;
  if (depth > 40) {
    o["k"] = "deep";
    return std::move(o);
  }
  // implicit casts / parens are transparent
  if (auto *P = dyn_cast<ParenExpr>(E)) return ex(X, P->getSubExpr(), depth);
  if (auto *IC = dyn_cast<ImplicitCastExpr>(E)) return ex(X, IC->getSubExpr(), depth);
  if (auto *CE = dyn_cast<ConstantExpr>(E)) return ex(X, CE->getSubExpr(), depth);
  if (auto *OV = dyn_cast<OpaqueValueExpr>(E)) return ex(X, OV->getSourceExpr(), depth);

  Expr::EvalResult R;
  bool isConst = !E->isValueDependent() && E->getType()->isIntegralOrEnumerationType() && E->EvaluateAsInt(R, X.C);
  if (isConst) {
    o["k"] = "int";
    llvm::APSInt v = R.Val.getInt();
    if (v.isSigned()) o["v"] = (int64_t)v.getSExtValue();
    else if (v.getActiveBits() <= 63) o["v"] = (int64_t)v.getZExtValue();
    else { o["v"] = (int64_t)v.getZExtValue(); o["u64"] = true; }
    if (auto *D = dyn_cast<DeclRefExpr>(E))
      if (isa<EnumConstantDecl>(D->getDecl())) o["enum"] = D->getDecl()->getNameAsString();
    // keep enumerators / sizeof / offsetof mentioned inside a constant expression
    if (!isa<DeclRefExpr>(E) && !isa<IntegerLiteral>(E)) {
      std::string t = X.text(E, 120);
      o["text"] = t;
    }
    if (auto *CS = dyn_cast<CStyleCastExpr>(E)) o["castty"] = tyStr(CS->getType());
    return std::move(o);
  }
  if (auto *D = dyn_cast<DeclRefExpr>(E)) {
    o["k"] = "ref";
    o["n"] = D->getDecl()->getNameAsString();
    o["ty"] = tyStr(D->getType());
    if (isa<FunctionDecl>(D->getDecl())) o["fn"] = true;
    if (auto *V = dyn_cast<VarDecl>(D->getDecl())) {
      if (V->hasGlobalStorage()) {
        o["g"] = true;
        if (V->isStaticLocal()) o["sl"] = true;
      }
      if (isa<ParmVarDecl>(V)) o["p"] = true;
    }
    return std::move(o);
  }
  if (auto *M = dyn_cast<MemberExpr>(E)) {
    o["k"] = "mem";
    o["f"] = M->getMemberDecl()->getNameAsString();
    o["arrow"] = M->isArrow();
    o["ty"] = tyStr(M->getType());
    QualType BT = M->getBase()->getType();
    if (M->isArrow() && !BT->getPointeeType().isNull()) BT = BT->getPointeeType();
    o["rec"] = tyStr(BT.getUnqualifiedType());
    o["b"] = ex(X, M->getBase(), depth + 1);
    return std::move(o);
  }
  if (auto *A = dyn_cast<ArraySubscriptExpr>(E)) {
    o["k"] = "idx";
    o["b"] = ex(X, A->getBase(), depth + 1);
    o["i"] = ex(X, A->getIdx(), depth + 1);
    o["ty"] = tyStr(A->getType());
    return std::move(o);
  }
  if (auto *U = dyn_cast<UnaryOperator>(E)) {
    o["k"] = "un";
    o["op"] = UnaryOperator::getOpcodeStr(U->getOpcode()).str();
    if (U->isPostfix()) o["post"] = true;
    o["e"] = ex(X, U->getSubExpr(), depth + 1);
    return std::move(o);
  }
  if (auto *B = dyn_cast<BinaryOperator>(E)) {
    o["k"] = "bin";
    o["op"] = B->getOpcodeStr().str();
    o["l"] = ex(X, B->getLHS(), depth + 1);
    o["r"] = ex(X, B->getRHS(), depth + 1);
    return std::move(o);
  }
  if (auto *C = dyn_cast<ConditionalOperator>(E)) {
    o["k"] = "cond";
    o["c"] = ex(X, C->getCond(), depth + 1);
    o["t"] = ex(X, C->getTrueExpr(), depth + 1);
    o["f"] = ex(X, C->getFalseExpr(), depth + 1);
    return std::move(o);
  }
  if (auto *CE = dyn_cast<CallExpr>(E)) {
    o["k"] = "call";
    if (auto *FD = CE->getDirectCallee()) o["fn"] = FD->getNameAsString();
    else o["callee"] = ex(X, CE->getCallee(), depth + 1);
    json::Array a;
    for (auto *A : CE->arguments()) a.push_back(ex(X, A, depth + 1));
    o["a"] = std::move(a);
    o["ty"] = tyStr(CE->getType());
    return std::move(o);
  }
  if (auto *CS = dyn_cast<ExplicitCastExpr>(E)) {
    o["k"] = "cast";
    o["ty"] = tyStr(CS->getType());
    o["from"] = tyStr(CS->getSubExpr()->getType());
    o["e"] = ex(X, CS->getSubExpr(), depth + 1);
    return std::move(o);
  }
  if (auto *S = dyn_cast<StringLiteral>(E)) {
    o["k"] = "str";
    if (S->getCharByteWidth() == 1) o["v"] = S->getString().str().substr(0, 200);
    return std::move(o);
  }
  if (auto *IL = dyn_cast<InitListExpr>(E)) {
    o["k"] = "initlist";
    json::Array a;
    unsigned n = 0;
    for (auto *I : IL->inits()) {
      if (n++ > 64) break;
      a.push_back(ex(X, I, depth + 1));
    }
    o["a"] = std::move(a);
    return std::move(o);
  }
  if (auto *CL = dyn_cast<CompoundLiteralExpr>(E)) {
    o["k"] = "complit";
    o["ty"] = tyStr(CL->getType());
    o["e"] = ex(X, CL->getInitializer(), depth + 1);
    return std::move(o);
  }
  if (auto *SE = dyn_cast<StmtExpr>(E)) {
    o["k"] = "stmtexpr";
    o["text"] = X.text(E, 120);
    return std::move(o);
  }
  if (E->isNullPointerConstant(X.C, Expr::NPC_ValueDependentIsNotNull)) {
    o["k"] = "int";
    o["v"] = 0;
    o["null"] = true;
    return std::move(o);
  }
  o["k"] = "other";
  o["cls"] = E->getStmtClassName();
  o["text"] = X.text(E, 120);
  return std::move(o);
}

static void addLoc(Ctx &X, json::Object &o, SourceLocation L) {
  o["loc"] = X.loc(L);
  if (L.isMacroID()) {
    o["sloc"] = X.spell(L);
    o["macro"] = X.macro(L);
  }
}

// event for one CFG element (non-recursive: with setAllAlwaysAdd every sub-expression is its own element)
static bool eventFor(Ctx &X, const Stmt *S, json::Object &o) {
  if (auto *CE = dyn_cast<CallExpr>(S)) {
    o["k"] = "call";
    o["e"] = ex(X, CE);
    addLoc(X, o, CE->getBeginLoc());
    return true;
  }
  if (auto *BO = dyn_cast<BinaryOperator>(S)) {
    if (!BO->isAssignmentOp()) return false;
    o["k"] = "assign";
    o["op"] = BO->getOpcodeStr().str();
    o["lhs"] = ex(X, BO->getLHS());
    o["rhs"] = ex(X, BO->getRHS());
    addLoc(X, o, BO->getOperatorLoc());
    return true;
  }
  if (auto *U = dyn_cast<UnaryOperator>(S)) {
    if (!U->isIncrementDecrementOp()) return false;
    o["k"] = "assign";
    o["op"] = U->isIncrementOp() ? "++" : "--";
    o["lhs"] = ex(X, U->getSubExpr());
    addLoc(X, o, U->getOperatorLoc());
    return true;
  }
  if (auto *R = dyn_cast<ReturnStmt>(S)) {
    o["k"] = "return";
    if (R->getRetValue()) o["val"] = ex(X, R->getRetValue());
    addLoc(X, o, R->getBeginLoc());
    return true;
  }
  if (auto *DS = dyn_cast<DeclStmt>(S)) {
    json::Array ds;
    for (auto *D : DS->decls())
      if (auto *V = dyn_cast<VarDecl>(D)) {
        json::Object d;
        d["n"] = V->getNameAsString();
        d["ty"] = tyStr(V->getType());
        if (V->isStaticLocal()) d["static"] = true;
        if (V->hasInit()) d["init"] = ex(X, V->getInit());
        ds.push_back(std::move(d));
      }
    if (ds.empty()) return false;
    o["k"] = "decl";
    o["d"] = std::move(ds);
    addLoc(X, o, DS->getBeginLoc());
    return true;
  }
  if (auto *A = dyn_cast<GCCAsmStmt>(S)) {
    o["k"] = "asm";
    o["text"] = A->getAsmString()->getString().str();
    addLoc(X, o, A->getBeginLoc());
    return true;
  }
  return false;
}

struct V : RecursiveASTVisitor<V> {
  Ctx X;
  json::Array Funcs, Globals, Records, Tables, Enums, Decls;
  std::set<std::string> seenDecl;
  V(ASTContext &c) : X(c) {}

  bool VisitEnumDecl(EnumDecl *E) {
    if (!E->isCompleteDefinition() || !X.inScope(E->getLocation())) return true;
    json::Object o;
    o["name"] = E->getNameAsString();
    if (auto *T = E->getTypedefNameForAnonDecl()) o["typedef"] = T->getNameAsString();
    json::Array cs;
    for (auto *C : E->enumerators())
      cs.push_back(json::Object{{"name", C->getNameAsString()}, {"val", (int64_t)C->getInitVal().getExtValue()}});
    o["consts"] = std::move(cs);
    o["loc"] = X.loc(E->getLocation());
    Enums.push_back(std::move(o));
    return true;
  }
  json::Value fieldList(const RecordDecl *R, int depth) {
    const ASTRecordLayout &L = X.C.getASTRecordLayout(R);
    json::Array fs;
    unsigned i = 0;
    for (auto *F : R->fields()) {
      json::Object f;
      f["name"] = F->getNameAsString();
      QualType T = F->getType();
      f["type"] = tyStr(T);
      f["off"] = (int64_t)(L.getFieldOffset(i) / 8);
      if (!T->isIncompleteType()) f["size"] = (int64_t)X.C.getTypeSizeInChars(T).getQuantity();
      f["fnptr"] = T->isFunctionPointerType();
      f["ptr"] = T->isPointerType();
      QualType ET = T;
      if (auto *AT = X.C.getAsConstantArrayType(T)) {
        f["count"] = (int64_t)AT->getSize().getZExtValue();
        ET = X.C.getBaseElementType(T);
        f["elemsize"] = (int64_t)X.C.getTypeSizeInChars(ET).getQuantity();
        f["elemptr"] = ET->isPointerType();
      }
      if (auto *RT = ET->getAsRecordDecl())
        if (RT->isCompleteDefinition() && depth < 4) {
          f["rec"] = RT->getNameAsString();
          f["union"] = RT->isUnion();
          f["sub"] = fieldList(RT, depth + 1);
        }
      fs.push_back(std::move(f));
      ++i;
    }
    return std::move(fs);
  }
  bool VisitRecordDecl(RecordDecl *R) {
    if (!R->isCompleteDefinition() || !X.inScope(R->getLocation())) return true;
    if (R->isInvalidDecl() || R->isDependentType()) return true;
    json::Object o;
    o["name"] = R->getNameAsString();
    if (auto *T = R->getTypedefNameForAnonDecl()) o["typedef"] = T->getNameAsString();
    o["loc"] = X.loc(R->getLocation());
    o["union"] = R->isUnion();
    const ASTRecordLayout &L = X.C.getASTRecordLayout(R);
    o["size"] = (int64_t)L.getSize().getQuantity();
    o["fields"] = fieldList(R, 0);
    Records.push_back(std::move(o));
    return true;
  }
  bool VisitTypedefNameDecl(TypedefNameDecl *T) {
    if (!X.inScope(T->getLocation())) return true;
    if (auto *RD = T->getUnderlyingType()->getAsRecordDecl()) {
      json::Object o;
      o["typedef_of"] = RD->getNameAsString();
      o["name"] = T->getNameAsString();
      o["alias"] = true;
      Enums.push_back(std::move(o));  // carried in enums list with alias marker (cheap)
    }
    return true;
  }
  bool VisitVarDecl(VarDecl *D) {
    if (!D->hasGlobalStorage() || !X.inScope(D->getLocation())) return true;
    json::Object o;
    o["name"] = D->getNameAsString();
    o["type"] = tyStr(D->getType());
    QualType BT = D->getType();
    if (BT->isArrayType()) BT = X.C.getBaseElementType(BT);
    o["const"] = BT.isConstQualified();
    o["static_local"] = D->isStaticLocal();
    o["def"] = (bool)D->isThisDeclarationADefinition();
    o["extern"] = D->hasExternalStorage();
    o["tls"] = D->getTLSKind() != VarDecl::TLS_None;
    o["loc"] = X.loc(D->getLocation());
    o["internal"] = D->getFormalLinkage() == InternalLinkage;
    o["hasinit"] = D->hasInit();
    if (D->isStaticLocal())
      if (auto *FD = dyn_cast<FunctionDecl>(D->getDeclContext())) o["in_fn"] = FD->getNameAsString();
    if (auto *AT = X.C.getAsConstantArrayType(D->getType())) o["count"] = (int64_t)AT->getSize().getZExtValue();
    Globals.push_back(std::move(o));
    if (D->hasInit())
      if (auto *IL = dyn_cast<InitListExpr>(D->getInit()->IgnoreParenImpCasts())) {
        QualType ET = X.C.getBaseElementType(D->getType());
        json::Object t;
        t["name"] = D->getNameAsString();
        t["loc"] = X.loc(D->getLocation());
        t["elemty"] = tyStr(ET);
        if (D->isStaticLocal())
          if (auto *FD = dyn_cast<FunctionDecl>(D->getDeclContext())) t["in_fn"] = FD->getNameAsString();
        json::Array es;
        unsigned n = 0;
        for (auto *I : IL->inits()) {
          if (n++ > 4096) break;
          json::Object e;
          e["e"] = ex(X, I);
          e["loc"] = X.loc(I->getBeginLoc());
          es.push_back(std::move(e));
        }
        if (auto *AT = X.C.getAsConstantArrayType(D->getType())) t["count"] = (int64_t)AT->getSize().getZExtValue();
        t["elems"] = std::move(es);
        Tables.push_back(std::move(t));
      }
    return true;
  }
  bool VisitFunctionDecl(FunctionDecl *F) {
    if (F->isInvalidDecl()) return true;
    if (!X.inScope(F->getLocation())) return true;
    std::string name = F->getNameAsString();
    {
      // every declaration (prototype) once
      json::Object d;
      d["name"] = name;
      d["loc"] = X.loc(F->getLocation());
      d["body"] = F->doesThisDeclarationHaveABody();
      d["static"] = F->getStorageClass() == SC_Static;
      json::Array ps;
      for (auto *P : F->parameters()) ps.push_back(json::Object{{"name", P->getNameAsString()}, {"type", tyStr(P->getType())}});
      d["params"] = std::move(ps);
      d["ret"] = tyStr(F->getReturnType());
      bool vis = false;
      if (auto *VA = F->getAttr<VisibilityAttr>()) vis = VA->getVisibility() == VisibilityAttr::Default;
      d["export_attr"] = vis;
      std::string key = name + "@" + X.loc(F->getLocation());
      if (seenDecl.insert(key).second) Decls.push_back(std::move(d));
    }
    if (!F->doesThisDeclarationHaveABody()) return true;
    json::Object o;
    o["name"] = name;
    addLoc(X, o, F->getLocation());
    o["static"] = F->getStorageClass() == SC_Static;
    o["inline"] = F->isInlined();
    o["forceinline"] = F->hasAttr<AlwaysInlineAttr>();
    json::Array ps;
    for (auto *P : F->parameters()) ps.push_back(json::Object{{"name", P->getNameAsString()}, {"type", tyStr(P->getType())}});
    o["params"] = std::move(ps);
    o["ret"] = tyStr(F->getReturnType());
    CFG::BuildOptions BO;
    BO.PruneTriviallyFalseEdges = false;
    BO.AddImplicitDtors = false;
    BO.setAllAlwaysAdd();
    std::unique_ptr<CFG> cfg = CFG::buildCFG(F, F->getBody(), &X.C, BO);
    json::Array blocks;
    if (cfg) {
      o["entry"] = (int64_t)cfg->getEntry().getBlockID();
      o["exit"] = (int64_t)cfg->getExit().getBlockID();
      for (auto *B : *cfg) {
        json::Object b;
        b["id"] = (int64_t)B->getBlockID();
        json::Array ev;
        for (auto &El : *B)
          if (auto S = El.getAs<CFGStmt>()) {
            json::Object e;
            if (eventFor(X, S->getStmt(), e)) ev.push_back(std::move(e));
          }
        b["ev"] = std::move(ev);
        if (const Stmt *T = B->getTerminatorStmt()) {
          json::Object t;
          t["kind"] = T->getStmtClassName();
          addLoc(X, t, T->getBeginLoc());
          if (const Expr *Cnd = dyn_cast_or_null<Expr>(B->getTerminatorCondition())) t["cond"] = ex(X, Cnd);
          if (auto *BOp = dyn_cast<BinaryOperator>(T)) t["lop"] = BOp->getOpcodeStr().str();
          if (auto *IS = dyn_cast<IfStmt>(T)) {
            t["fullcond"] = ex(X, IS->getCond());
            t["haselse"] = IS->getElse() != nullptr;
          }
          if (auto *WS = dyn_cast<WhileStmt>(T)) t["fullcond"] = ex(X, WS->getCond());
          if (auto *FS = dyn_cast<ForStmt>(T)) if (FS->getCond()) t["fullcond"] = ex(X, FS->getCond());
          if (auto *DS = dyn_cast<DoStmt>(T)) t["fullcond"] = ex(X, DS->getCond());
          b["term"] = std::move(t);
        }
        if (const Stmt *L = B->getLabel()) {
          json::Object l;
          l["kind"] = L->getStmtClassName();
          if (auto *CS = dyn_cast<CaseStmt>(L)) {
            l["case"] = ex(X, CS->getLHS());
            if (CS->getRHS()) l["case_hi"] = ex(X, CS->getRHS());
          }
          if (auto *LS = dyn_cast<LabelStmt>(L)) l["label"] = LS->getName();
          b["label"] = std::move(l);
        }
        json::Array su;
        for (auto S : B->succs()) {
          if (S.getReachableBlock()) su.push_back((int64_t)S.getReachableBlock()->getBlockID());
          else if (S.getPossiblyUnreachableBlock()) su.push_back((int64_t)S.getPossiblyUnreachableBlock()->getBlockID());
          else su.push_back(nullptr);
        }
        b["succ"] = std::move(su);
        blocks.push_back(std::move(b));
      }
    } else {
      o["nocfg"] = true;
    }
    o["blocks"] = std::move(blocks);
    Funcs.push_back(std::move(o));
    return true;
  }
};

struct Cons : ASTConsumer {
  std::string file;
  Cons(std::string f) : file(f) {}
  void HandleTranslationUnit(ASTContext &C) override {
    V v(C);
    v.TraverseDecl(C.getTranslationUnitDecl());
    json::Object o;
    o["tu"] = file;
    o["functions"] = std::move(v.Funcs);
    o["globals"] = std::move(v.Globals);
    o["records"] = std::move(v.Records);
    o["tables"] = std::move(v.Tables);
    o["enums"] = std::move(v.Enums);
    o["decls"] = std::move(v.Decls);
    if (OutFile == "-") {
      llvm::outs() << json::Value(std::move(o)) << "\n";
    } else {
      std::error_code EC;
      llvm::raw_fd_ostream os(OutFile, EC);
      os << json::Value(std::move(o)) << "\n";
    }
  }
};
struct Act : ASTFrontendAction {
  std::unique_ptr<ASTConsumer> CreateASTConsumer(CompilerInstance &, StringRef f) override {
    return std::make_unique<Cons>(f.str());
  }
};
int main(int argc, const char **argv) {
  auto P = CommonOptionsParser::create(argc, argv, Cat);
  if (!P) {
    llvm::errs() << P.takeError();
    return 1;
  }
  ClangTool T(P->getCompilations(), P->getSourcePathList());
  return T.run(newFrontendActionFactory<Act>().get());
}
