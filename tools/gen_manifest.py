#!/usr/bin/env python3
"""Generates /verif/MANIFEST.json from the table below (kept in one place so it is always valid)."""
import json, os, sys

VERIF = os.path.dirname(os.path.dirname(os.path.abspath(__file__)))

TB = ('clang 14 front end and record layout (cfacts works on the type-checked AST of every library TU with the '
      'flags of the regenerated compile database); Linux/SysV build with default SAFE_DATA/SAFE_PARAM/SAFE_LOOKUP; '
      'reasoned vocabularies in the rule files are part of the checker')
TB_ASM = TB + ('; nasm + objdump agree on instruction boundaries for code reached from function symbols; no '
               'self-modifying code; stores through non-stack pointers do not alias the function\'s own frame; '
               'avx2_t4 assembly cannot be assembled with the installed nasm and is out of scope')

CHECKS = {
    'C17': dict(
        technique='static analysis: AST inventory of mutable globals + writer/escape classification; ELF section inventory',
        text='Decides that the library owns no mutable state shared between managers beyond a reasoned allow-list: '
             'every non-const global / function-local static in every library TU and every writable section of every '
             'assembled object is enumerated; each write or address-escape must come from an allow-listed function; '
             'manager errors must be stored in the manager (not only the process-wide mirror). Data races on memory '
             'the caller shares between managers are not decided.',
        design='§3 C17', note=TB_ASM),
}

CHECKS['C14'] = dict(
    technique='static analysis: AST dataflow over every assignment into IMB_JOB storage; CFG must-precede rules for errno reset; switch exhaustiveness',
    text='Decides, for all C code of all nine variant TUs and the common TUs, that library code writes only library-owned '
         'fields of a caller-owned job (status, the documented CMAC bit-length scratch, fields declared reserved), that status '
         'only ever receives IMB_STATUS enumerators or stage bits (INVALID_ARGS only on validation-failure paths), that every C '
         'handler installed in a manager slot resets the manager error code before any other effect, that errors are recorded in '
         'the manager in scope, and that error-string lookup is total. Not decided: that assembly kernels reached through untyped '
         'pointers leave the descriptor alone (the typed object-level rule covers functions whose prototype has an IMB_JOB*).',
    design='§3 C14', note=TB)

CHECKS['C12'] = dict(
    technique='static analysis: guard catalogue from the clang CFG (canonicalised conditions, switch-case contexts), dataflow on error-set state, dominance/reachability rules for validation gating, baseline comparison of guards',
    text='Decides, on the type-checked CFG of every library TU: each validator return value agrees with whether an error code was set '
         'on every path; each guard reports the error code of the field it tests; validators are pure (job untouched); with checking on, '
         'no processing call is reachable from a rejected job in the job API, the asynchronous burst API and every synchronous burst helper, '
         'the rejected job gets exactly INVALID_ARGS, and validation loops cover all jobs; table indexes are bounded; NULL checks precede use; '
         'and every one of the ~5800 (function, mode/algorithm, condition, error) guard instances confirmed on the reference tree is still '
         'present (a dropped or weakened guard is reported with the mode it affects). Not decided: completeness against the prose '
         'documentation, acceptance of every documented-valid job, buffers untouched by asm direct-API functions.',
    design='§3 C12', note=TB + '; the guard baseline imbv/data/guards_baseline.json holds semantic tuples (no source text or positions) taken from the reference tree after the fix: commits')

CHECKS['C20'] = dict(
    technique='static analysis: CFG must-reach / dropped-result / dominance rules over self_test.c and the init functions',
    text='Decides on the CFG of self_test.c and the public init functions: self_test() runs on the success path of every public init, only '
         'on an initialised non-NULL manager, and its failure sets IMB_ERR_SELFTEST; the PASS bit is cleared first and set only when every '
         'group passed; no KAT / process_job result is dropped; after every processed job the vector\'s expected tag/text is compared and a '
         'mismatch fails the KAT; the CORRUPT hook precedes processing and corrupts the input; START and exactly one PASS/FAIL surround each '
         'vector; every vector table is walked completely and announces the documented algorithms. Not decided: the KAT values, and that a '
         'corrupted input changes the output of the kernel (value-level).',
    design='§3 C20', note=TB)

CHECKS['C18'] = dict(
    technique='static analysis: abstract interpretation (entry-value / stack-offset / interval+stride domain, stack-slot tracking, callee summaries to fixpoint) over the exact CFG of every assembled object',
    text='Decides at object level, for all 686 C-callable assembly functions of the Linux build and on every CFG path to each of their '
         'exits (ret and tail jumps), that rsp and rbx, rbp, r12-r15 hold their entry values and the direction flag is clear; internal '
         'helpers that deliberately clobber callee-saved registers are summarised and their callers must save for them; no instruction '
         'in any object writes MXCSR or the x87 control word, and library C code has no inline asm or MXCSR intrinsic. The CFG is exact '
         '(no indirect jump or call exists; the check fails as broken if one appears). C code obeys the ABI by construction of the compiler. '
         'We would call this a proof were it not for the stated no-alias assumption (17 own-frame stores with an unbounded index are listed '
         'in the evidence). Not covered: Windows ABI paths, avx2_t4 assembly (cannot be assembled by the installed nasm).',
    design='§3 C18', note=TB_ASM)

CHECKS['C05'] = dict(
    technique='static analysis: path-sensitive typestate over the clang CFG of the ring functions (load earliest / status test / advance / return), ownership and dominance rules, sibling skeleton comparison',
    text='Decides structural necessary conditions of the in-order queue on every path of the queue functions of all nine variant TUs: who '
         'may write the ring offsets and how; the earliest job is handed back only after a COMPLETED test or forced completion and with '
         'exactly one advance (no lost, duplicated or partial job on any path of submit / flush / get-completed / burst submit / burst '
         'flush); the empty marker protocol; a full queue completes the oldest job; completion loops end only on COMPLETED; job-API and '
         'burst-API siblings agree. The full FIFO/accounting claim over all call histories is an inductive invariant over ring offsets '
         'and is NOT decided.',
    design='§3 C05', note=TB)

CHECKS['C06'] = dict(
    technique='static analysis: exhaustive evaluation of the dispatch tables by constant propagation through the dispatch functions; name-token agreement; guard-catalogue extraction of the accepted set',
    text='Decides the finite suite matrix cell by cell, for all nine variant TUs: table geometry and the index arithmetic shared by '
         'set_cipher_suite_id, the job API and the burst CALL_* readers; for each of the 2x256 cipher and 2x50 hash table cells that '
         'validation accepts, the kernels reached under constant propagation of (mode, key size) carry the family of the named mode, the '
         'key size of the job and the direction of the table half; the accepted (mode, key length) sets extracted from both validators agree '
         'and AEAD pairings are enforced in both directions; stage bits; chain order; a cell that parks jobs in an out-of-order manager '
         'flushes the same manager. exhaustive over the table cells. Not decided: that the kernel behind a correct cell computes the '
         'named algorithm (C01-C03).',
    design='§3 C06', note=TB + '; reasoned vocabularies: family tokens per enumerator, EXTRA tokens per mode, one-sided pairing list')

NOT_APPLICABLE = {
    'C07': 'bounds of SIMD loads/stores relative to run-time lengths need relational numeric invariants over ~850 '
           'hand-written assembly functions; no sound static argument in reach (no frama-c; CSA/cppcheck do not see NASM)',
    'C10': 'invariance under re-segmentation is an algebraic property of carried partial-block state inside asm/C '
           'arithmetic; no clause of it is visible in code shape',
}
UNDER_CONSTRUCTION = 'check not yet built in this round (planned in DESIGN.md §3); not claimed'


def main():
    props = [json.loads(l)['id'] for l in open(os.path.join(VERIF, 'properties.jsonl'))]
    checks = []
    for pid in props:
        if pid not in CHECKS:
            continue
        c = CHECKS[pid]
        checks.append({
            'property_id': pid,
            'quick_cmd': './check %s --tier quick' % pid,
            'thorough_cmd': './check %s --tier thorough' % pid,
            'evidence_file': 'evidence/%s.json' % pid,
            'replay_cmd_template': './check %s --replay {path}' % pid,
            'engine': c.get('engine', 'imbv'),
            'level_claimed': {'category': 'other', 'text': c['text'], 'design_ref': c['design']},
            'level_note': c['note'],
            'technique': c['technique'],
        })
    na = []
    for pid in props:
        if pid in CHECKS:
            continue
        na.append({'property_id': pid, 'reason': NOT_APPLICABLE.get(pid, UNDER_CONSTRUCTION)})
    man = {
        'version': 1,
        'setup_cmd': './setup.sh',
        'hooks': {
            'guard': 'IMB_VERIF_STATIC',
            'enable': 'no hook is needed: the analyses read /repo sources and objects assembled from them; the guard '
                      'name is reserved and unused',
            'baseline_off_cmd': 'cmake --build /repo/_build -j16 && ctest --test-dir /repo/_build -j8 --timeout 900',
            'source_commits': [],
            'add_only': True,
        },
        'engines': [
            {'name': 'cfacts', 'path': 'tools/cfacts.cc',
             'serves_properties': sorted(CHECKS),
             'kind_free_text': 'clang-14 libTooling extractor: enums, record layouts, globals, tables, prototypes, and '
                               'per function the clang CFG with expression-tree events; rules in Python (imbv/rules)'},
            {'name': 'asmfacts', 'path': 'imbv/asmfacts.py',
             'serves_properties': [p for p in sorted(CHECKS) if p in ('C04', 'C13', 'C14', 'C16', 'C17', 'C18', 'C19', 'C08')],
             'kind_free_text': 'objects assembled with the compile database\'s nasm commands; exact CFG from objdump; '
                               'abstract interpretation (intervals/strides, stack slots, zeroness, provenance)'},
        ],
        'checks': checks,
        'not_applicable': na,
        'notes': 'Static analysis only: no registered check executes library code or calls a solver. Exit 2 = '
                 'analysis broken (anchor vanished / instance floor missed), never a pass. See DESIGN.md.',
    }
    with open(os.path.join(VERIF, 'MANIFEST.json'), 'w') as f:
        json.dump(man, f, indent=1)
    print('MANIFEST.json: %d checks, %d not_applicable' % (len(checks), len(na)))


if __name__ == '__main__':
    main()
